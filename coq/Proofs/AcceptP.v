(* Every valid MQTT v5.0 frame is accepted: frames written by the
   specification's own encoder (Spec/Mqtt5.v) - properties in any order,
   explicit zero values, every legal short form - are decoded by the
   library's decoders to the values the specification says they carry. *)
From MQ Require Import Model.Codec Model.Api Model.Stream Proofs.BytesP Proofs.VbP Proofs.WireP Proofs.DecP
     Proofs.EncP Proofs.PropsP Proofs.RoundP Proofs.DomP Proofs.StreamP Proofs.SpecWireP Spec.Mqtt5 Spec.Glue.
From Coq Require Import ZArith Lia ZifyN ZifyNat ZifyBool.
Ltac Zify.zify_post_hook ::= Z.div_mod_to_equations.

(* ------------------------------------------------------------------ *)
(* one iteration of getAny on a property the map knows; zero values and
   empty strings included *)
Lemma loop_step_any fuel m will sm endp id0 acc d pre rest steps id r w v :
  lookup_prop m id = Some (r, w) -> id < 256 -> id <> UserProperty -> id <> SubscriptionID ->
  w <> Raw -> valid_val w v -> (w = Bin -> valS v <> [] \/ valS (getf r acc) = []) -> ref_live acc r ->
  d = pre ++ (n2b id :: encode w v) ++ rest -> N.of_nat (length pre) < endp ->
  getany_loop (S fuel) m will sm endp id0 (mk_state acc d (length pre) steps) =
  getany_loop fuel m will sm endp id
              (mk_state (setf r (canon w v) acc) d (length pre + S (length (encode w v))) (S (S steps))).
Proof.
  intros Hl Hid Hup Hsub Hw Hv Hbin Hlive Hd Hend.
  cbn [getany_loop]. unfold mk_state at 1. cbn [dpos].
  rewrite (proj2 (N.ltb_lt _ _) Hend).
  pose proof (get_val_encoded U8 (VN id) (VN id0) (mk_state acc d (length pre) steps) pre
                              (encode w v ++ rest)) as G1.
  cbn [encode enc_u8 valN canon] in G1. unfold mk_state in G1 at 1 2 3 4 5.
  cbn [derr ddata dpos dp dsteps] in G1.
  unfold mk_state at 1.
  rewrite G1; [|discriminate|exact Hid|discriminate|reflexivity|rewrite Hd; reflexivity|reflexivity|cbn; lia].
  clear G1. cbn [valN].
  assert (Hlk : match sm with
                | SubOpt => if id =? SubscriptionID then None else lookup_prop m id
                | _ => lookup_prop m id end = Some (r, w)).
  { destruct sm; try exact Hl. rewrite (proj2 (N.eqb_neq _ _) Hsub). exact Hl. }
  rewrite Hlk.
  unfold get. cbn [dp]. rewrite (getf_opt_live acc r Hlive).
  unfold mk_state at 1 2 3. cbn [ddata dpos dsteps]. unfold enc_u8.
  pose proof (get_val_encoded' w v (getf r acc)
     {| dp := acc; ddata := d; dpos := length pre + length [n2b id]; derr := None; dsteps := S steps |}
     (pre ++ [n2b id]) rest Hw Hv Hbin) as G2.
  cbn [derr ddata dpos dp dsteps] in G2.
  rewrite G2; clear G2.
  - unfold with_pkt, mk_state. cbn [dp ddata dpos derr dsteps length].
    replace (length pre + 1 + length (encode w v))%nat with (length pre + S (length (encode w v)))%nat by lia.
    reflexivity.
  - reflexivity.
  - rewrite Hd. rewrite <- app_assoc. reflexivity.
  - rewrite app_length. reflexivity.
Qed.

(* a user property whose key may be empty *)
Lemma loop_step_pair fuel m will sm endp id0 acc d pre rest steps k v :
  lookup_prop m UserProperty = None ->
  len k < 65536 -> len v < 65536 -> (will = true -> hasWill acc = true) ->
  d = pre ++ (n2b UserProperty :: enc_bin k ++ enc_bin v) ++ rest -> N.of_nat (length pre) < endp ->
  getany_loop (S fuel) m will sm endp id0 (mk_state acc d (length pre) steps) =
  getany_loop fuel m will sm endp UserProperty
              (mk_state (append_ups will [(k, v)] acc) d
                        (length pre + S (length (enc_bin k ++ enc_bin v))) (S (S steps))).
Proof.
  intros Hl Hlk Hlv Hw Hd Hend.
  cbn [getany_loop]. unfold mk_state at 1. cbn [dpos].
  rewrite (proj2 (N.ltb_lt _ _) Hend).
  pose proof (get_val_encoded U8 (VN UserProperty) (VN id0) (mk_state acc d (length pre) steps) pre
                              ((enc_bin k ++ enc_bin v) ++ rest)) as G1.
  cbn [encode enc_u8 valN canon] in G1. unfold mk_state in G1 at 1 2 3 4 5.
  cbn [derr ddata dpos dp dsteps] in G1.
  unfold mk_state at 1.
  rewrite G1; [|discriminate|reflexivity|discriminate|reflexivity|rewrite Hd; reflexivity|reflexivity|cbn; lia].
  clear G1. cbn [valN]. rewrite Hl.
  assert (E2 : (UserProperty =? UserProperty) = true) by reflexivity.
  replace (match sm with SubOpt => UserProperty =? SubscriptionID | _ => false end) with false
    by (destruct sm; reflexivity).
  replace (match sm with
           | SubOpt => if UserProperty =? SubscriptionID then None else None
           | _ => None end) with (@None (fref * wt)) by (destruct sm; reflexivity).
  rewrite E2.
  unfold mk_state at 1 2 3. cbn [ddata dpos dsteps]. unfold enc_u8.
  pose proof (get_userprop_encoded k v
     {| dp := acc; ddata := d; dpos := length pre + length [n2b UserProperty]; derr := None; dsteps := S steps |}
     (pre ++ [n2b UserProperty]) rest Hlk Hlv) as G2.
  cbn [derr ddata dpos dp dsteps] in G2.
  rewrite G2; clear G2.
  - cbn [dp]. unfold add_uprop, append_ups. destruct will.
    + rewrite (Hw eq_refl). unfold with_pkt, mk_state. cbn [dp ddata dpos derr dsteps length].
      replace (length pre + 1 + length (enc_bin k ++ enc_bin v))%nat
        with (length pre + S (length (enc_bin k ++ enc_bin v)))%nat by lia. reflexivity.
    + unfold with_pkt, mk_state. cbn [dp ddata dpos derr dsteps length].
      replace (length pre + 1 + length (enc_bin k ++ enc_bin v))%nat
        with (length pre + S (length (enc_bin k ++ enc_bin v)))%nat by lia. reflexivity.
  - reflexivity.
  - rewrite Hd. rewrite <- !app_assoc. cbn [app]. rewrite <- app_assoc. reflexivity.
  - rewrite app_length. reflexivity.
Qed.

(* ------------------------------------------------------------------ *)
(* property values of the specification as values of the library *)
Definition pnumval (pv : pval) : N :=
  match pv with VByte n | VTwo n | VFour n | VVar n => n | _ => 0 end.
Definition pstrval (pv : pval) : list byte :=
  match pv with VStr s | VBinary s => s | _ => [] end.
Definition to_val (w : wt) (pv : pval) : value :=
  match w with
  | U8 | U16 | U32 | Vb => VN (pnumval pv)
  | WBool => VB (negb (pnumval pv =? 0))
  | Bin | Raw => VS (pstrval pv)
  end.

Definition pval_type (pv : pval) : ptype :=
  match pv with
  | VByte _ => PTByte | VTwo _ => PTTwo | VFour _ => PTFour | VVar _ => PTVar
  | VStr _ => PTStr | VBinary _ => PTBin | VPair _ _ => PTPair
  end.

Definition wt_matches (w : wt) (t : ptype) : bool :=
  match w, t with
  | U8, PTByte | WBool, PTByte | U16, PTTwo | U32, PTFour | Vb, PTVar | Bin, PTStr | Bin, PTBin => true
  | _, _ => false
  end.

Definition pval_ok (pv : pval) : Prop :=
  match pv with
  | VByte n => n < 256 | VTwo n => n < 65536 | VFour n => n < 4294967296 | VVar n => n < 268435456
  | VStr s | VBinary s => len s < 65536
  | VPair k v => len k < 65536 /\ len v < 65536
  end.

Lemma e_str_enc_bin s : len s < 65536 -> e_str s = enc_bin s.
Proof. intros H. unfold e_str, enc_bin, e_u16, enc_u16. rewrite N.mod_small by exact H. reflexivity. Qed.

Lemma e_pval_encode w pv : wt_matches w (pval_type pv) = true -> pval_ok pv ->
  (w = WBool -> pnumval pv <= 1) ->
  e_pval pv = encode w (to_val w pv) /\ valid_val w (to_val w pv) /\ canon w (to_val w pv) = to_val w pv.
Proof.
  intros Hm Hok Hb. destruct w, pv; try discriminate Hm; cbn [pval_ok] in Hok;
    cbn [e_pval encode to_val pnumval pstrval valN valB valS valid_val canon]; repeat split; try assumption;
    try (apply e_str_enc_bin; exact Hok); try (apply e_var_enc_vb; exact Hok).
  specialize (Hb eq_refl). cbn [pnumval] in Hb.
  assert (E : n = 0 \/ n = 1) by lia. destruct E as [-> | ->]; reflexivity.
Qed.

(* ------------------------------------------------------------------ *)
(* what a list of properties does to a packet *)
Definition apply_prop (m : list entry) (will : bool) (sm : submode) (acc : pkt) (ap : aprop) : pkt :=
  match ap_val ap with
  | VPair k v => append_ups will [(k, v)] acc
  | pv =>
    if ap_id ap =? 11 then
      match sm with
      | AddSub => set_subids acc (subids acc ++ [pnumval pv])
      | SubOpt => set_subid acc (Some (pnumval pv))
      | NoSub => acc
      end
    else match lookup_prop m (ap_id ap) with
         | Some (r, w) => setf r (to_val w pv) acc
         | None => acc
         end
  end.
Definition apply_props (m : list entry) (will : bool) (sm : submode) (ps : list aprop) (acc : pkt) : pkt :=
  fold_left (apply_prop m will sm) ps acc.

(* static validity of one property for a map *)
Definition prop_ok (m : list entry) (will : bool) (sm : submode) (ap : aprop) : Prop :=
  match ap_val ap with
  | VPair k v => ap_id ap = 38 /\ len k < 65536 /\ len v < 65536
  | pv =>
    if ap_id ap =? 11 then
      sm <> NoSub /\ exists n, pv = VVar n /\ 0 < n < 268435456
    else
      exists r w, lookup_prop m (ap_id ap) = Some (r, w) /\ ap_id ap < 256 /\ ap_id ap <> 38
        /\ w <> Raw /\ wt_matches w (pval_type pv) = true /\ pval_ok pv
        /\ (w = WBool -> pnumval pv <= 1)
        /\ match r with M _ => True | W _ => will = true end
  end.

(* identifiers that may appear once *)
Definition keyed (ap : aprop) : bool :=
  match ap_val ap with VPair _ _ => false | _ => negb (ap_id ap =? 11) end.
Definition keyed_ids (ps : list aprop) : list N := map ap_id (filter keyed ps).

Lemma hasWill_apply_prop m will sm acc ap : hasWill (apply_prop m will sm acc ap) = hasWill acc.
Proof.
  unfold apply_prop. destruct (ap_val ap); try (apply hasWill_append_ups);
    (destruct (ap_id ap =? 11); [destruct sm; reflexivity|];
     destruct (lookup_prop m (ap_id ap)) as [[r w]|]; [apply hasWill_setf|reflexivity]).
Qed.

(* two identifiers of a map with distinct references never share one *)
Lemma lookup_in_map m id r w : lookup_prop m id = Some (r, w) -> In (id, r, w) m.
Proof.
  induction m as [|[[i r0] w0] m IH]; cbn [lookup_prop]; [discriminate|].
  destruct (N.eqb_spec i id) as [->|Hne].
  - intros H. injection H as <- <-. left. reflexivity.
  - intros H. right. apply IH. exact H.
Qed.

Lemma nodup_refs_inj m : nodup_refs m = true ->
  forall i j r w w', In (i, r, w) m -> In (j, r, w') m -> i = j.
Proof.
  induction m as [|e m IH]; intros Hnd i j r w w' Hi Hj; [contradiction|].
  cbn [nodup_refs] in Hnd. apply andb_prop in Hnd as [Hh Ht]. rewrite forallb_forall in Hh.
  destruct Hi as [->|Hi], Hj as [Ej|Hj].
  - injection Ej as <- _. reflexivity.
  - specialize (Hh _ Hj). cbn [eref fst snd] in Hh. rewrite fref_eqb_refl in Hh. discriminate.
  - subst e. specialize (Hh _ Hi). cbn [eref fst snd] in Hh. rewrite fref_eqb_refl in Hh. discriminate.
  - exact (IH Ht i j r w w' Hi Hj).
Qed.

Lemma getf_apply_prop_other m will sm acc ap r :
  (forall r0 w0, lookup_prop m (ap_id ap) = Some (r0, w0) -> keyed ap = true -> r0 <> r) ->
  getf r (apply_prop m will sm acc ap) = getf r acc.
Proof.
  intros H. unfold apply_prop, keyed in *.
  destruct (ap_val ap) eqn:Ev; try (apply getf_append_ups);
    (destruct (ap_id ap =? 11) eqn:E11; [destruct sm; destruct r; reflexivity|];
     destruct (lookup_prop m (ap_id ap)) as [[r0 w0]|]; [|reflexivity];
     apply getf_setf_other; destruct (fref_eqb r r0) eqn:E; [|reflexivity];
     apply fref_eqb_true in E; exfalso; apply (H r0 w0 eq_refl); [reflexivity|symmetry; exact E]).
Qed.

Lemma e_props_raw_cons ap ps : e_props_raw (ap :: ps) = e_prop ap ++ e_props_raw ps.
Proof. reflexivity. Qed.

Definition is_pair (pv : pval) : bool := match pv with VPair _ _ => true | _ => false end.

Lemma apply_prop_nonpair m will sm acc ap : is_pair (ap_val ap) = false ->
  apply_prop m will sm acc ap =
  if ap_id ap =? 11 then
    match sm with
    | AddSub => set_subids acc (subids acc ++ [pnumval (ap_val ap)])
    | SubOpt => set_subid acc (Some (pnumval (ap_val ap)))
    | NoSub => acc
    end
  else match lookup_prop m (ap_id ap) with
       | Some (r, w) => setf r (to_val w (ap_val ap)) acc
       | None => acc
       end.
Proof. unfold apply_prop. destruct (ap_val ap); try reflexivity. discriminate. Qed.

Lemma prop_ok_nonpair m will sm ap : is_pair (ap_val ap) = false -> prop_ok m will sm ap ->
  if ap_id ap =? 11 then
    sm <> NoSub /\ exists n, ap_val ap = VVar n /\ 0 < n < 268435456
  else
    exists r w, lookup_prop m (ap_id ap) = Some (r, w) /\ ap_id ap < 256 /\ ap_id ap <> 38
      /\ w <> Raw /\ wt_matches w (pval_type (ap_val ap)) = true /\ pval_ok (ap_val ap)
      /\ (w = WBool -> pnumval (ap_val ap) <= 1)
      /\ match r with M _ => True | W _ => will = true end.
Proof. unfold prop_ok. destruct (ap_val ap); try (intros _ H; exact H). discriminate. Qed.

(* one property, one iteration *)
Lemma prop_step m will sm endp fuel id0 acc d pre rest steps ap :
  lookup_prop m UserProperty = None -> (sm = AddSub -> lookup_prop m SubscriptionID = None) ->
  prop_ok m will sm ap ->
  (keyed ap = true -> forall r w, lookup_prop m (ap_id ap) = Some (r, w) -> w = Bin -> valS (getf r acc) = []) ->
  (will = true -> hasWill acc = true) ->
  d = pre ++ e_prop ap ++ rest -> N.of_nat (length pre) < endp ->
  exists id1,
    getany_loop (S fuel) m will sm endp id0 (mk_state acc d (length pre) steps) =
    getany_loop fuel m will sm endp id1
      (mk_state (apply_prop m will sm acc ap) d (length (pre ++ e_prop ap)) (S (S steps))).
Proof.
  intros H38 H11 Hap Hinv Hw Hd Hend1. rewrite app_length. unfold e_prop in *.
  destruct (is_pair (ap_val ap)) eqn:Ep.
  - (* user property *)
    unfold prop_ok, apply_prop in *. destruct (ap_val ap) as [n|n|n|n|s|s|k v] eqn:Ev; try discriminate Ep.
    destruct Hap as [E38 [Hlk Hlv]]. exists UserProperty. cbn [e_pval length] in *.
    rewrite (e_str_enc_bin k Hlk), (e_str_enc_bin v Hlv) in *.
    rewrite (loop_step_pair fuel m will sm endp id0 acc d pre rest steps k v H38 Hlk Hlv Hw); [reflexivity| |exact Hend1].
    rewrite Hd, E38. reflexivity.
  - pose proof (prop_ok_nonpair m will sm ap Ep Hap) as Hap'. rewrite (apply_prop_nonpair m will sm acc ap Ep).
    destruct (ap_id ap =? 11) eqn:E11.
    + (* subscription identifier *)
      destruct Hap' as [Hsm [n [En Hn]]]. apply N.eqb_eq in E11. rewrite En in *. cbn [pnumval e_pval length] in *.
      rewrite (e_var_enc_vb n) in * by lia. exists SubscriptionID.
      destruct sm; [congruence| |].
      * rewrite (loop_step_subid fuel m will endp id0 acc d pre rest steps n (H11 eq_refl) Hn); [reflexivity| |exact Hend1].
        rewrite Hd, E11. reflexivity.
      * rewrite (loop_step_subopt fuel m will endp id0 acc d pre rest steps n Hn); [reflexivity| |exact Hend1].
        rewrite Hd, E11. reflexivity.
    + (* a field of the map *)
      destruct Hap' as [r [w [Hl [Hid [Hn38 [Hraw [Hmt [Hpv [Hbool Hlive]]]]]]]]]. apply N.eqb_neq in E11.
      rewrite Hl. destruct (e_pval_encode w _ Hmt Hpv Hbool) as [Ee [Hvalid Hcanon]].
      exists (ap_id ap). cbn [length]. rewrite Ee in *.
      rewrite (loop_step_any fuel m will sm endp id0 acc d pre rest steps
                 (ap_id ap) r w (to_val w (ap_val ap)) Hl Hid Hn38 E11 Hraw Hvalid).
      * rewrite Hcanon. reflexivity.
      * intros Hb. right. apply (Hinv) with (w := w); [|exact Hl|exact Hb]. unfold keyed.
        destruct (ap_val ap); try discriminate Ep; apply negb_true_iff; apply N.eqb_neq; exact E11.
      * destruct r; [exact I|apply Hw; exact Hlive].
      * rewrite Hd. reflexivity.
      * exact Hend1.
Qed.

Lemma props_loop m will sm endp : nodup_refs m = true -> lookup_prop m UserProperty = None ->
  (sm = AddSub -> lookup_prop m SubscriptionID = None) ->
  forall ps fuel id0 acc d pre rest steps,
  Forall (prop_ok m will sm) ps -> NoDup (keyed_ids ps) ->
  (forall ap, In ap ps -> keyed ap = true -> forall r w,
       lookup_prop m (ap_id ap) = Some (r, w) -> w = Bin -> valS (getf r acc) = []) ->
  (will = true -> hasWill acc = true) ->
  d = pre ++ e_props_raw ps ++ rest ->
  N.of_nat (length pre + length (e_props_raw ps)) <= endp ->
  exists id1 steps',
    getany_loop (length ps + fuel) m will sm endp id0 (mk_state acc d (length pre) steps) =
    getany_loop fuel m will sm endp id1
                (mk_state (apply_props m will sm ps acc) d (length pre + length (e_props_raw ps)) steps').
Proof.
  intros Hnd H38 H11. induction ps as [|ap ps IH]; intros fuel id0 acc d pre rest steps Hok Hdup Hinv Hw Hd Hend.
  - exists id0, steps. cbn [length plus e_props_raw map concat apply_props fold_left]. rewrite Nat.add_0_r. reflexivity.
  - pose proof (Forall_inv Hok) as Hap. pose proof (Forall_inv_tail Hok) as Hoks.
    rewrite e_props_raw_cons in *. rewrite app_length in Hend.
    assert (Hpos : (0 < length (e_prop ap))%nat) by (unfold e_prop; cbn [length]; lia).
    assert (Hend1 : N.of_nat (length pre) < endp) by lia.
    cbn [length plus].
    destruct (prop_step m will sm endp (length ps + fuel) id0 acc d pre (e_props_raw ps ++ rest) steps ap
                H38 H11 Hap) as [id1 Hstep].
    { intros Hk r w Hl Hb. exact (Hinv ap (or_introl eq_refl) Hk r w Hl Hb). }
    { exact Hw. }
    { rewrite Hd, <- app_assoc. reflexivity. }
    { exact Hend1. }
    rewrite Hstep.
    destruct (IH fuel id1 (apply_prop m will sm acc ap) d (pre ++ e_prop ap) rest (S (S steps)) Hoks) as [id2 [st2 E2]].
    + unfold keyed_ids in *. cbn [filter] in Hdup. destruct (keyed ap); [cbn [map] in Hdup; inversion Hdup; assumption|exact Hdup].
    + intros ap' Hin' Hk' r w Hl' Hb'.
      rewrite getf_apply_prop_other; [apply (Hinv ap' (or_intror Hin') Hk' r w Hl' Hb')|].
      intros r0 w0 Hl0 Hk0 Er. subst r0.
      assert (Eid : ap_id ap = ap_id ap').
      { apply (nodup_refs_inj m Hnd _ _ r w0 w); apply lookup_in_map; assumption. }
      unfold keyed_ids in Hdup. cbn [filter] in Hdup. rewrite Hk0 in Hdup. cbn [map] in Hdup.
      apply NoDup_cons_iff in Hdup as [Hni _]. apply Hni. rewrite Eid. apply in_map.
      apply filter_In. split; assumption.
    + intros Hwt. rewrite hasWill_apply_prop. apply Hw. exact Hwt.
    + rewrite Hd. rewrite <- !app_assoc. reflexivity.
    + rewrite app_length. lia.
    + exists id2, st2. rewrite E2. cbn [apply_props fold_left]. unfold mk_state. do 2 f_equal.
      rewrite !app_length. lia.
Qed.

Lemma props_count ps : (length ps <= length (e_props_raw ps))%nat.
Proof.
  induction ps as [|ap ps IH]; [cbn; lia|]. rewrite e_props_raw_cons, app_length. unfold e_prop. cbn [length]. lia.
Qed.

Theorem getany_spec m will sm ps acc pre rest steps :
  nodup_refs m = true -> lookup_prop m UserProperty = None ->
  (sm = AddSub -> lookup_prop m SubscriptionID = None) ->
  Forall (prop_ok m will sm) ps -> NoDup (keyed_ids ps) ->
  (forall ap, In ap ps -> keyed ap = true -> forall r w,
       lookup_prop m (ap_id ap) = Some (r, w) -> w = Bin -> valS (getf r acc) = []) ->
  (will = true -> hasWill acc = true) ->
  let R := e_props_raw ps in
  len R < 268435456 ->
  let d := pre ++ e_var (len R) ++ R ++ rest in
  exists steps',
    getany m will sm (mk_state acc d (length pre) steps) =
    Run (mk_state (apply_props m will sm ps acc) d (length pre + length (e_var (len R)) + length R) steps').
Proof.
  intros Hnd H38 H11 Hok Hdup Hinv Hw R HR d.
  assert (Ev : e_var (len R) = enc_vb (len R)) by (apply e_var_enc_vb; exact HR).
  unfold d. rewrite Ev. clear d. set (d := pre ++ enc_vb (len R) ++ R ++ rest).
  assert (Hvpos : (0 < length (enc_vb (len R)))%nat) by (apply (encode_nonempty Vb (VN (len R))); discriminate).
  unfold getany.
  assert (Hne : at_end (mk_state acc d (length pre) steps) = false).
  { unfold at_end, mk_state. cbn [dpos ddata]. apply Nat.eqb_neq. unfold d. rewrite !app_length. lia. }
  rewrite Hne.
  pose proof (get_val_encoded Vb (VN (len R)) (VN 0) (mk_state acc d (length pre) steps) pre (R ++ rest)) as G.
  cbn [encode valN canon] in G. unfold mk_state in G at 1 2 3 4 5. cbn [derr ddata dpos dp dsteps] in G.
  unfold mk_state at 1.
  rewrite G; [|discriminate|exact HR|discriminate|reflexivity|reflexivity|reflexivity|exact Hvpos]. clear G.
  cbn [valN].
  change (ddata (mk_state acc d (length pre) steps)) with d.
  change (dpos (mk_state acc d (length pre) steps)) with (length pre).
  change (dsteps (mk_state acc d (length pre) steps)) with steps.
  match goal with |- context [ {| dp := acc; ddata := d; dpos := ?q; derr := None; dsteps := ?st |} ] =>
    change {| dp := acc; ddata := d; dpos := q; derr := None; dsteps := st |} with (mk_state acc d q st) end.
  set (pre1 := pre ++ enc_vb (len R)).
  assert (Hpre1 : length pre1 = (length pre + length (enc_vb (len R)))%nat) by (unfold pre1; apply app_length).
  rewrite <- Hpre1. change (dpos (mk_state acc d (length pre1) (S steps))) with (length pre1).
  set (endp := N.of_nat (length pre1) + len R).
  pose proof (props_count ps) as Hcount. fold R in Hcount.
  assert (Hfuel : exists extra, S (length d) = (length ps + S extra)%nat).
  { exists (length d - length ps)%nat. unfold d. rewrite !app_length. lia. }
  destruct Hfuel as [extra Hfuel]. rewrite Hfuel.
  destruct (props_loop m will sm endp Hnd H38 H11 ps (S extra) 0 acc d pre1 rest (S steps) Hok Hdup Hinv Hw)
    as [id1 [st1 E1]].
  - unfold d, pre1. fold R. rewrite <- !app_assoc. reflexivity.
  - unfold endp. fold R. unfold len. lia.
  - rewrite E1. cbn [getany_loop]. unfold mk_state at 1. cbn [dpos]. fold R.
    rewrite (proj2 (N.ltb_ge _ _)) by (unfold endp, len; lia).
    exists st1. reflexivity.
Qed.

Lemma dgetany_spec_at m will sm ps acc d pos rest steps :
  nodup_refs m = true -> lookup_prop m UserProperty = None ->
  (sm = AddSub -> lookup_prop m SubscriptionID = None) ->
  Forall (prop_ok m will sm) ps -> NoDup (keyed_ids ps) ->
  (forall ap, In ap ps -> keyed ap = true -> forall r w,
       lookup_prop m (ap_id ap) = Some (r, w) -> w = Bin -> valS (getf r acc) = []) ->
  (will = true -> hasWill acc = true) ->
  len (e_props_raw ps) < 268435456 ->
  at_pos d pos (e_props ps ++ rest) ->
  exists steps',
    run_dec1 (DGetAny m will sm) (mk_state acc d pos steps) =
      Run (mk_state (apply_props m will sm ps acc) d (pos + length (e_props ps)) steps')
    /\ at_pos d (pos + length (e_props ps)) rest.
Proof.
  intros Hnd H38 H11 Hok Hdup Hinv Hw HR Hat.
  assert (Hat' : at_pos d (pos + length (e_props ps)) rest) by (apply at_pos_app; exact Hat).
  destruct Hat as [pre [E L]]. subst pos.
  destruct (getany_spec m will sm ps acc pre rest steps Hnd H38 H11 Hok Hdup Hinv Hw HR) as [st D].
  cbv zeta in D. exists st. split; [|exact Hat']. cbn [run_dec1].
  unfold e_props in E. cbv zeta in E. rewrite <- app_assoc in E. rewrite E, D.
  unfold e_props. cbv zeta. rewrite app_length. unfold mk_state. do 2 f_equal. lia.
Qed.

(* ------------------------------------------------------------------ *)
(* what the packet holds afterwards, in the specification's terms *)
Lemma prop_ok_keyed m will sm ap : prop_ok m will sm ap -> ap_id ap <> 38 -> ap_id ap <> 11 -> keyed ap = true.
Proof.
  unfold prop_ok, keyed. intros H H38 H11. destruct (ap_val ap); try (apply negb_true_iff; apply N.eqb_neq; exact H11).
  destruct H as [E _]. contradiction.
Qed.

Lemma getp_none m will sm ps id : Forall (prop_ok m will sm) ps -> id <> 38 -> id <> 11 ->
  ~ In id (keyed_ids ps) -> getp id ps = None.
Proof.
  intros Hok H38 H11. induction ps as [|ap ps IH]; intros Hni; [reflexivity|].
  pose proof (Forall_inv Hok) as Hap. pose proof (Forall_inv_tail Hok) as Hoks.
  cbn [getp]. destruct (N.eqb_spec (ap_id ap) id) as [E|E].
  - exfalso. apply Hni. unfold keyed_ids. cbn [filter].
    rewrite (prop_ok_keyed m will sm ap Hap) by (rewrite E; assumption). left. exact E.
  - apply IH; [exact Hoks|]. intros Hin. apply Hni. unfold keyed_ids in *. cbn [filter].
    destruct (keyed ap); [right; exact Hin|exact Hin].
Qed.

Lemma apply_props_getf m will sm id r w : nodup_refs m = true ->
  lookup_prop m id = Some (r, w) -> id <> 11 -> id <> 38 ->
  forall ps acc, Forall (prop_ok m will sm) ps -> NoDup (keyed_ids ps) ->
  getf r (apply_props m will sm ps acc) =
  match getp id ps with Some pv => to_val w pv | None => getf r acc end.
Proof.
  intros Hnd Hl H11 H38. induction ps as [|ap ps IH]; intros acc Hok Hdup; [reflexivity|].
  pose proof (Forall_inv Hok) as Hap. pose proof (Forall_inv_tail Hok) as Hoks.
  assert (Hdup' : NoDup (keyed_ids ps)).
  { unfold keyed_ids in *. cbn [filter] in Hdup. destruct (keyed ap); [inversion Hdup; assumption|exact Hdup]. }
  cbn [apply_props fold_left getp]. fold (apply_props m will sm ps (apply_prop m will sm acc ap)).
  destruct (N.eqb_spec (ap_id ap) id) as [E|E].
  - assert (Hk : keyed ap = true) by (apply (prop_ok_keyed m will sm ap Hap); rewrite E; assumption).
    rewrite (IH _ Hoks Hdup').
    rewrite (getp_none m will sm ps id Hoks H38 H11).
    + assert (Ep : is_pair (ap_val ap) = false) by (unfold keyed in Hk; destruct (ap_val ap); [reflexivity..|discriminate]).
      rewrite (apply_prop_nonpair m will sm acc ap Ep). rewrite E, (proj2 (N.eqb_neq _ _) H11), Hl.
      apply getf_setf_same.
    + unfold keyed_ids in Hdup. cbn [filter] in Hdup. rewrite Hk in Hdup. cbn [map] in Hdup.
      apply NoDup_cons_iff in Hdup as [Hni _]. rewrite <- E. exact Hni.
  - rewrite (IH _ Hoks Hdup'). destruct (getp id ps); [reflexivity|].
    apply getf_apply_prop_other. intros r0 w0 Hl0 Hk0 Er. subst r0. apply E.
    apply (nodup_refs_inj m Hnd _ _ r w0 w); apply lookup_in_map; assumption.
Qed.

(* fields no property of the map refers to *)
Lemma apply_props_getf_other m will sm r :
  (forall id r0 w0, lookup_prop m id = Some (r0, w0) -> r0 <> r) ->
  forall ps acc, getf r (apply_props m will sm ps acc) = getf r acc.
Proof.
  intros H. induction ps as [|ap ps IH]; intros acc; [reflexivity|].
  cbn [apply_props fold_left]. fold (apply_props m will sm ps (apply_prop m will sm acc ap)).
  rewrite IH. apply getf_apply_prop_other. intros r0 w0 Hl _. exact (H _ _ _ Hl).
Qed.

Lemma hasWill_apply_props m will sm ps acc : hasWill (apply_props m will sm ps acc) = hasWill acc.
Proof.
  revert acc. induction ps as [|ap ps IH]; intros acc; [reflexivity|].
  cbn [apply_props fold_left]. fold (apply_props m will sm ps (apply_prop m will sm acc ap)).
  rewrite IH. apply hasWill_apply_prop.
Qed.

(* user properties *)
Fixpoint pairs (ps : list aprop) : list (list byte * list byte) :=
  match ps with
  | [] => []
  | ap :: ps' => match ap_val ap with VPair k v => (k, v) :: pairs ps' | _ => pairs ps' end
  end.

Lemma ppairs_pairs ps : ppairs ps = map (fun kv => OL [OS (fst kv); OS (snd kv)]) (pairs ps).
Proof.
  induction ps as [|ap ps IH]; [reflexivity|]. cbn [ppairs pairs]. destruct (ap_val ap); try exact IH.
  cbn [map fst snd]. rewrite IH. reflexivity.
Qed.

Section Lists.
  Variable m : list entry.
  Variable sm : submode.

  Lemma lists_apply_prop_nonpair will acc ap : is_pair (ap_val ap) = false ->
    uprops (apply_prop m will sm acc ap) = uprops acc /\ wuprops (apply_prop m will sm acc ap) = wuprops acc.
  Proof.
    intros Ep. rewrite (apply_prop_nonpair m will sm acc ap Ep).
    destruct (ap_id ap =? 11); [destruct sm; split; reflexivity|].
    destruct (lookup_prop m (ap_id ap)) as [[r w]|]; [|split; reflexivity].
    split; [apply uprops_setf|apply wuprops_setf].
  Qed.

  Lemma uprops_apply_props will ps : forall acc,
    uprops (apply_props m will sm ps acc) = if will then uprops acc else uprops acc ++ pairs ps.
  Proof.
    induction ps as [|ap ps IH]; intros acc; [destruct will; [reflexivity|rewrite app_nil_r; reflexivity]|].
    cbn [apply_props fold_left]. fold (apply_props m will sm ps (apply_prop m will sm acc ap)).
    rewrite IH. cbn [pairs]. destruct (is_pair (ap_val ap)) eqn:Ep.
    - unfold apply_prop. destruct (ap_val ap) as [n|n|n|n|s|s|k v]; try discriminate Ep.
      unfold append_ups. destruct will; [reflexivity|]. cbn [uprops set_uprops]. rewrite <- app_assoc. reflexivity.
    - destruct (lists_apply_prop_nonpair will acc ap Ep) as [E _]. rewrite E.
      destruct (ap_val ap); try reflexivity. discriminate Ep.
  Qed.

  Lemma wuprops_apply_props will ps : forall acc,
    wuprops (apply_props m will sm ps acc) = if will then wuprops acc ++ pairs ps else wuprops acc.
  Proof.
    induction ps as [|ap ps IH]; intros acc; [destruct will; [rewrite app_nil_r; reflexivity|reflexivity]|].
    cbn [apply_props fold_left]. fold (apply_props m will sm ps (apply_prop m will sm acc ap)).
    rewrite IH. cbn [pairs]. destruct (is_pair (ap_val ap)) eqn:Ep.
    - unfold apply_prop. destruct (ap_val ap) as [n|n|n|n|s|s|k v]; try discriminate Ep.
      unfold append_ups. destruct will; [|reflexivity]. cbn [wuprops set_wuprops]. rewrite <- app_assoc. reflexivity.
    - destruct (lists_apply_prop_nonpair will acc ap Ep) as [_ E]. rewrite E.
      destruct (ap_val ap); try reflexivity. discriminate Ep.
  Qed.
End Lists.

(* subscription identifiers *)
Fixpoint vars11 (ps : list aprop) : list N :=
  match ps with
  | [] => []
  | ap :: ps' => match ap_val ap with
                 | VVar n => if ap_id ap =? 11 then n :: vars11 ps' else vars11 ps'
                 | _ => vars11 ps' end
  end.
Lemma pvars_vars11 ps : pvars 11 ps = map ON (vars11 ps).
Proof.
  induction ps as [|ap ps IH]; [reflexivity|]. cbn [pvars vars11]. destruct (ap_val ap); try exact IH.
  destruct (ap_id ap =? 11); [cbn [map]; rewrite IH; reflexivity|exact IH].
Qed.

Lemma subids_apply_props m will ps : forall acc, Forall (prop_ok m will AddSub) ps ->
  subids (apply_props m will AddSub ps acc) = subids acc ++ vars11 ps.
Proof.
  induction ps as [|ap ps IH]; intros acc Hok; [rewrite app_nil_r; reflexivity|].
  pose proof (Forall_inv Hok) as Hap. pose proof (Forall_inv_tail Hok) as Hoks.
  cbn [apply_props fold_left]. fold (apply_props m will AddSub ps (apply_prop m will AddSub acc ap)).
  rewrite (IH _ Hoks). cbn [vars11]. destruct (is_pair (ap_val ap)) eqn:Ep.
  - unfold apply_prop. destruct (ap_val ap) as [n|n|n|n|s|s|k v]; try discriminate Ep.
    unfold append_ups. destruct will; reflexivity.
  - pose proof (prop_ok_nonpair m will AddSub ap Ep Hap) as Hap'.
    rewrite (apply_prop_nonpair m will AddSub acc ap Ep).
    destruct (ap_id ap =? 11) eqn:E11.
    + destruct Hap' as [_ [n [En _]]]. rewrite En. cbn [pnumval subids set_subids]. rewrite <- app_assoc. reflexivity.
    + destruct (lookup_prop m (ap_id ap)) as [[r w]|]; rewrite ?subids_setf;
        destruct (ap_val ap); try reflexivity; discriminate Ep.
Qed.

Definition ids11 (ps : list aprop) : list N := map ap_id (filter (fun ap => ap_id ap =? 11) ps).

Lemma subid_apply_props m will ps : forall acc, Forall (prop_ok m will SubOpt) ps -> NoDup (ids11 ps) ->
  subid (apply_props m will SubOpt ps acc) =
  match getp 11 ps with Some (VVar n) => Some n | _ => subid acc end.
Proof.
  induction ps as [|ap ps IH]; intros acc Hok Hdup; [reflexivity|].
  pose proof (Forall_inv Hok) as Hap. pose proof (Forall_inv_tail Hok) as Hoks.
  cbn [apply_props fold_left getp]. fold (apply_props m will SubOpt ps (apply_prop m will SubOpt acc ap)).
  unfold ids11 in Hdup. cbn [filter] in Hdup.
  destruct (ap_id ap =? 11) eqn:E11.
  - cbn [map] in Hdup. apply NoDup_cons_iff in Hdup as [Hni Hdup'].
    rewrite (IH _ Hoks Hdup').
    assert (Hnone : getp 11 ps = None).
    { clear -Hni E11. apply N.eqb_eq in E11. rewrite E11 in Hni. induction ps as [|a ps IH]; [reflexivity|].
      cbn [getp filter map] in *. destruct (ap_id a =? 11) eqn:E; [exfalso; apply Hni; left; apply N.eqb_eq; exact E|].
      apply IH. exact Hni. }
    rewrite Hnone.
    assert (Ep : is_pair (ap_val ap) = false).
    { unfold prop_ok in Hap. destruct (ap_val ap); try reflexivity. destruct Hap as [E _].
      apply N.eqb_eq in E11. rewrite E in E11. discriminate. }
    pose proof (prop_ok_nonpair m will SubOpt ap Ep Hap) as Hap'. rewrite E11 in Hap'.
    destruct Hap' as [_ [n [En _]]]. rewrite (apply_prop_nonpair m will SubOpt acc ap Ep), E11, En. reflexivity.
  - rewrite (IH _ Hoks Hdup). destruct (getp 11 ps) as [[]|]; try reflexivity;
      (destruct (is_pair (ap_val ap)) eqn:Ep;
       [ unfold apply_prop; destruct (ap_val ap); try discriminate Ep; unfold append_ups; destruct will; reflexivity
       | rewrite (apply_prop_nonpair m will SubOpt acc ap Ep), E11;
         destruct (lookup_prop m (ap_id ap)) as [[r w]|]; rewrite ?subid_setf; reflexivity ]).
Qed.

(* components no property touches *)
Section Untouched.
  Variable A : Type.
  Variable proj : pkt -> A.
  Hypothesis proj_setf : forall r v q, proj (setf r v q) = proj q.
  Hypothesis proj_ups : forall will l q, proj (append_ups will l q) = proj q.
  Hypothesis proj_subids : forall q l, proj (set_subids q l) = proj q.
  Hypothesis proj_subid : forall q o, proj (set_subid q o) = proj q.
  Lemma proj_apply_props m will sm ps : forall acc, proj (apply_props m will sm ps acc) = proj acc.
  Proof.
    induction ps as [|ap ps IH]; intros acc; [reflexivity|].
    cbn [apply_props fold_left]. fold (apply_props m will sm ps (apply_prop m will sm acc ap)).
    rewrite IH. unfold apply_prop.
    destruct (ap_val ap); try apply proj_ups;
      (destruct (ap_id ap =? 11); [destruct sm; [reflexivity|apply proj_subids|apply proj_subid]|];
       destruct (lookup_prop m (ap_id ap)) as [[r w]|]; [apply proj_setf|reflexivity]).
  Qed.
End Untouched.

Lemma append_ups_other will l q :
  filters (append_ups will l q) = filters q /\ ufilters (append_ups will l q) = ufilters q
  /\ rcodes (append_ups will l q) = rcodes q /\ wsubids (append_ups will l q) = wsubids q
  /\ subids (append_ups will l q) = subids q /\ subid (append_ups will l q) = subid q.
Proof. unfold append_ups. destruct will; repeat split; reflexivity. Qed.

(* ------------------------------------------------------------------ *)
(* accessor values after a property section, as the specification's reading *)
Section Obs.
  Variable m : list entry.
  Variable will : bool.
  Variable sm : submode.
  Variable ps : list aprop.
  Variable acc : pkt.
  Hypothesis Hnd : nodup_refs m = true.
  Hypothesis Hok : Forall (prop_ok m will sm) ps.
  Hypothesis Hdup : NoDup (keyed_ids ps).

  Let q := apply_props m will sm ps acc.

  Lemma getp_typed id pv r w : getp id ps = Some pv -> id <> 38 -> id <> 11 ->
    lookup_prop m id = Some (r, w) -> wt_matches w (pval_type pv) = true.
  Proof.
    clear Hdup q. induction ps as [|ap l IH]; intros Hg H38 H11 Hl; [discriminate|].
    pose proof (Forall_inv Hok) as Hap. pose proof (Forall_inv_tail Hok) as Hoks.
    cbn [getp] in Hg. destruct (N.eqb_spec (ap_id ap) id) as [E|E].
    - injection Hg as <-.
      assert (Ep : is_pair (ap_val ap) = false).
      { unfold prop_ok in Hap. destruct (ap_val ap); try reflexivity. destruct Hap as [E' _]. congruence. }
      pose proof (prop_ok_nonpair m will sm ap Ep Hap) as Hap'.
      rewrite E, (proj2 (N.eqb_neq _ _) H11) in Hap'.
      destruct Hap' as [r' [w' [Hl' [_ [_ [_ [Hm _]]]]]]]. rewrite Hl in Hl'. injection Hl' as <- <-. exact Hm.
    - apply (IH Hoks Hg H38 H11 Hl).
  Qed.

  Lemma obs_num id r w : lookup_prop m id = Some (r, w) -> id <> 11 -> id <> 38 ->
    match w with U8 | U16 | U32 | Vb => True | _ => False end -> valN (getf r acc) = 0 ->
    ON (valN (getf r q)) = pnum id ps.
  Proof.
    intros Hl H11 H38 Hw Hz. unfold q. rewrite (apply_props_getf m will sm id r w Hnd Hl H11 H38 ps acc Hok Hdup).
    unfold pnum. destruct (getp id ps) as [pv|]; [|rewrite Hz; reflexivity].
    destruct w; try contradiction; destruct pv; reflexivity.
  Qed.

  Lemma obs_str id r : lookup_prop m id = Some (r, Bin) -> id <> 11 -> id <> 38 ->
    valS (getf r acc) = [] -> OS (valS (getf r q)) = pstr id ps.
  Proof.
    intros Hl H11 H38 Hz. unfold q. rewrite (apply_props_getf m will sm id r Bin Hnd Hl H11 H38 ps acc Hok Hdup).
    unfold pstr. destruct (getp id ps) as [pv|]; [|rewrite Hz; reflexivity]. destruct pv; reflexivity.
  Qed.

  Lemma obs_bool id r : lookup_prop m id = Some (r, WBool) -> id <> 11 -> id <> 38 ->
    valB (getf r acc) = false -> OB (valB (getf r q)) = pbool id ps.
  Proof.
    intros Hl H11 H38 Hz. unfold q. rewrite (apply_props_getf m will sm id r WBool Hnd Hl H11 H38 ps acc Hok Hdup).
    unfold pbool. destruct (getp id ps) as [pv|] eqn:Eg; [|rewrite Hz; reflexivity].
    pose proof (getp_typed id pv r WBool Eg H38 H11 Hl) as Ht. destruct pv; try discriminate Ht. reflexivity.
  Qed.
End Obs.

(* ------------------------------------------------------------------ *)
(* the specification's validity of a property list, in its own terms *)
Definition sprop_ok (where_ : N) (ap : aprop) : Prop :=
  allowed where_ (ap_id ap) = true
  /\ prop_type (ap_id ap) = Some (pval_type (ap_val ap))
  /\ pval_ok (ap_val ap)
  /\ (is_bool_prop (ap_id ap) = true -> pnumval (ap_val ap) <= 1)
  /\ (ap_id ap = 11 -> pnumval (ap_val ap) <> 0).

(* once-only identifiers appear once *)
Definition nonrep (where_ : N) (ap : aprop) : bool := negb (repeatable where_ (ap_id ap)).
Definition sprops_ok (where_ : N) (ps : list aprop) : Prop :=
  Forall (sprop_ok where_) ps /\ NoDup (map ap_id (filter (nonrep where_) ps)).

(* the library's map for a place agrees with tables 2-4 of the specification *)
Definition ptype_eqb (a b : ptype) : bool :=
  match a, b with
  | PTByte, PTByte | PTTwo, PTTwo | PTFour, PTFour | PTVar, PTVar | PTStr, PTStr | PTBin, PTBin
  | PTPair, PTPair => true
  | _, _ => false
  end.

Definition table_ok (where_ : N) (m : list entry) (will : bool) (sm : submode) : bool :=
  forallb (fun id =>
    negb (allowed where_ id) ||
    if id =? 38 then true
    else if id =? 11 then match sm with NoSub => false | _ => true end
    else match lookup_prop m id, prop_type id with
         | Some (r, w), Some t =>
             wt_matches w t && negb (match w with Raw => true | _ => false end)
             && (match w with WBool => is_bool_prop id | _ => true end)
             && (match r with M _ => true | W _ => will end)
         | _, _ => false
         end) all_N256.

Lemma prop_type_small id t : prop_type id = Some t -> id < 64.
Proof.
  destruct id as [|p]; [discriminate|].
  do 6 (destruct p as [p|p|]; try discriminate; try (intros _; reflexivity)).
Qed.

Ltac nonpair_case m sm ap Hty Hpv Hb H11 H :=
  let E38 := fresh "E38" in let E11 := fresh "E11" in
  destruct (ap_id ap =? 38) eqn:E38; [apply N.eqb_eq in E38; rewrite E38 in Hty; discriminate Hty|];
  destruct (ap_id ap =? 11) eqn:E11;
  [ apply N.eqb_eq in E11; split; [destruct sm; [discriminate H|discriminate|discriminate]|];
    rewrite E11 in Hty; cbn in Hty;
    first [ discriminate Hty
          | eexists; split; [reflexivity|]; cbn [pval_ok pnumval] in *; specialize (H11 E11); lia ]
  | let r := fresh "r" in let w := fresh "w" in
    destruct (lookup_prop m (ap_id ap)) as [[r w]|]; [|discriminate H];
    let H1 := fresh "H1" in let H2 := fresh "H2" in let H3 := fresh "H3" in let H4 := fresh "H4" in
    rewrite Hty in H; apply andb_prop in H as [H H4]; apply andb_prop in H as [H H3];
    apply andb_prop in H as [H1 H2];
    exists r, w; split; [reflexivity|]; split; [lia|]; split; [apply N.eqb_neq; exact E38|];
    split; [intros ->; discriminate H2|]; split; [exact H1|]; split; [exact Hpv|];
    split; [intros ->; apply Hb; exact H3|destruct r; [exact I|exact H4]] ].

Lemma sprop_prop_ok where_ m will sm ap : table_ok where_ m will sm = true ->
  sprop_ok where_ ap -> prop_ok m will sm ap.
Proof.
  intros Ht [Ha [Hty [Hpv [Hb H11]]]].
  pose proof (prop_type_small _ _ Hty) as Hsmall.
  unfold table_ok in Ht. pose proof (forall_N256 _ Ht (ap_id ap) ltac:(lia)) as H.
  cbv beta in H. rewrite Ha in H. cbn [negb orb] in H.
  unfold prop_ok. destruct (ap_val ap) as [n|n|n|n|s|s|k v] eqn:Ev; cbn [pval_type] in Hty.
  1-6: nonpair_case m sm ap Hty Hpv Hb H11 H.
  (* pair *)
  destruct (ap_id ap =? 38) eqn:E38.
  - apply N.eqb_eq in E38. split; [exact E38|exact Hpv].
  - exfalso. clear H. destruct (ap_id ap) as [|p]; [discriminate Hty|].
    do 6 (destruct p as [p|p|]; try discriminate Hty; try discriminate E38).
Qed.

Lemma nodup_filter_sub {A B} (f : A -> B) (P Q : A -> bool) l :
  (forall x, In x l -> Q x = true -> P x = true) ->
  NoDup (map f (filter P l)) -> NoDup (map f (filter Q l)).
Proof.
  induction l as [|x l IH]; intros Hsub Hnd; [constructor|]. cbn [filter] in *.
  assert (Hsub' : forall y, In y l -> Q y = true -> P y = true) by (intros y Hy; apply Hsub; right; exact Hy).
  destruct (Q x) eqn:Eq.
  - rewrite (Hsub x (or_introl eq_refl) Eq) in Hnd. cbn [map] in *. apply NoDup_cons_iff in Hnd as [Hni Hnd].
    constructor; [|apply IH; assumption]. intros Hin. apply Hni.
    apply in_map_iff in Hin as [y [Ey Hy]]. apply filter_In in Hy as [Hy Hq].
    apply in_map_iff. exists y. split; [exact Ey|]. apply filter_In. split; [exact Hy|apply Hsub'; assumption].
  - destruct (P x); [cbn [map] in Hnd; apply NoDup_cons_iff in Hnd as [_ Hnd]|]; apply IH; assumption.
Qed.

Lemma sprops_keyed where_ ps : sprops_ok where_ ps -> NoDup (keyed_ids ps).
Proof.
  intros [Hok Hnd]. unfold keyed_ids. apply (nodup_filter_sub ap_id (nonrep where_) keyed ps); [|exact Hnd].
  intros ap Hin Hk. rewrite Forall_forall in Hok. destruct (Hok ap Hin) as [_ [Hty _]].
  unfold keyed in Hk. unfold nonrep, repeatable.
  destruct (ap_val ap) eqn:Ev; try discriminate Hk; cbn [pval_type] in Hty; apply negb_true_iff in Hk;
    rewrite Hk, andb_false_l, orb_false_r; apply negb_true_iff; apply N.eqb_neq; intros E; rewrite E in Hty;
    discriminate Hty.
Qed.

Lemma sprops_ids11 ps : sprops_ok 8 ps -> NoDup (ids11 ps).
Proof.
  intros [Hok Hnd]. unfold ids11. apply (nodup_filter_sub ap_id (nonrep 8) (fun ap => ap_id ap =? 11) ps); [|exact Hnd].
  intros ap Hin Hk. apply N.eqb_eq in Hk. unfold nonrep, repeatable. rewrite Hk. reflexivity.
Qed.

Lemma sprops_prop_ok where_ m will sm ps : table_ok where_ m will sm = true ->
  sprops_ok where_ ps -> Forall (prop_ok m will sm) ps.
Proof.
  intros Ht [Hok _]. apply Forall_forall. intros ap Hin. rewrite Forall_forall in Hok.
  apply (sprop_prop_ok where_); [exact Ht|apply Hok; exact Hin].
Qed.

(* the statement proved for each kind of frame *)
Definition accepts (f : aframe) : Prop :=
  exists k p,
    decode_frame (n2b (af_type f * 16 + af_flags f)) (e_body (af_body f)) = Some (Some (k, p), None)
    /\ kind_nibble k = af_type f /\ snapshot k p = frame_obs f.

Lemma accepts_intro f k fresh p' :
  fresh_pkt (b2n (n2b (af_type f * 16 + af_flags f))) = (k, fresh) ->
  match e_body (af_body f) with [] => p' = fresh | _ => unmarshal k fresh (e_body (af_body f)) = UOk p' end ->
  kind_nibble k = af_type f -> snapshot k p' = frame_obs f -> accepts f.
Proof.
  intros Hf Hd Hk Hs. exists k, p'. split; [|split; assumption].
  unfold decode_frame. rewrite Hf. destruct (e_body (af_body f)); [rewrite Hd; reflexivity|rewrite Hd; reflexivity].
Qed.

Lemma has_bit0 fl : fl <= 1 -> has fl 1 = N.testbit fl 0.
Proof. intros H. assert (E : fl = 0 \/ fl = 1) by lia. destruct E as [-> | ->]; reflexivity. Qed.

Lemma oprops_pairs ps : oprops (pairs ps) = OL (ppairs ps).
Proof. unfold oprops. rewrite ppairs_pairs. reflexivity. Qed.

(* ------------------------------------------------------------------ *)
(* CONNACK *)
Lemma table_connack : table_ok 2 connack_map false NoSub = true.
Proof. vm_compute. reflexivity. Qed.

Theorem accept_connack fl rc ps :
  fl <= 1 -> rc < 256 -> sprops_ok 2 ps -> len (e_props_raw ps) < 268435456 ->
  accepts {| af_type := 2; af_flags := 0; af_body := BConnack fl rc ps |}.
Proof.
  intros Hfl Hrc Hps HR.
  pose proof (sprops_prop_ok 2 connack_map false NoSub ps table_connack Hps) as Hok.
  pose proof (sprops_keyed 2 ps Hps) as Hdup.
  set (fresh := setf (M F_fixed) (VN 32) zero_pkt).
  set (a1 := setf (M F_flags) (canon U8 (VN fl)) fresh).
  set (a2 := setf (M F_reasonCode) (canon U8 (VN rc)) a1).
  set (body := e_u8 fl ++ e_u8 rc ++ e_props ps).
  destruct (dget_at (M F_flags) U8 (VN fl) fresh body 0 (e_u8 rc ++ e_props ps) 0) as [D1 H1];
    try discriminate; try exact I.
  { cbn [valid_val valN]. lia. }
  { apply at_pos_0. }
  fold a1 in D1.
  destruct (dget_at (M F_reasonCode) U8 (VN rc) a1 body (0 + length (encode U8 (VN fl))) (e_props ps) 1) as [D2 H2];
    try discriminate; try exact I; try assumption.
  fold a2 in D2.
  destruct (dgetany_spec_at connack_map false NoSub ps a2 body
              (0 + length (encode U8 (VN fl)) + length (encode U8 (VN rc))) [] 2)
    as [st [D3 H3]]; try assumption; try reflexivity; try discriminate.
  { intros ap _ _ r w Hl _. apply lookup_in_map in Hl. unfold connack_map in Hl. cbn [In] in Hl.
    repeat (destruct Hl as [Hl|Hl]; [injection Hl as _ <- _; reflexivity|]). contradiction. }
  { rewrite app_nil_r. exact H2. }
  set (p' := apply_props connack_map false NoSub ps a2) in *.
  apply (accepts_intro _ KConnAck fresh p'); [reflexivity| |reflexivity|].
  - cbn [af_body e_body]. fold body.
    assert (Hne : body <> []) by (unfold body, e_u8; cbn [app]; discriminate).
    destruct body as [|b0 body0] eqn:Eb; [congruence|]. rewrite <- Eb in *.
    eapply unmarshal_of_run. cbn [dec_of]. unfold dec_connack.
    rewrite (run_dec_cons _ _ _ _ D1), (run_dec_cons _ _ _ _ D2), (run_dec_cons _ _ _ _ D3). reflexivity.
  - assert (Hnd : nodup_refs connack_map = true) by apply connack_map_ok.
    assert (Eflags : getf (M F_flags) p' = VN fl).
    { unfold p'. rewrite apply_props_getf_other; [reflexivity|].
      intros id r0 w0 Hl. apply lookup_in_map in Hl. unfold connack_map in Hl. cbn [In] in Hl.
      repeat (destruct Hl as [Hl|Hl]; [injection Hl as _ <- _; discriminate|]). contradiction. }
    assert (Erc : getf (M F_reasonCode) p' = VN rc).
    { unfold p'. rewrite apply_props_getf_other; [reflexivity|].
      intros id r0 w0 Hl. apply lookup_in_map in Hl. unfold connack_map in Hl. cbn [In] in Hl.
      repeat (destruct Hl as [Hl|Hl]; [injection Hl as _ <- _; discriminate|]). contradiction. }
    assert (Eu : uprops p' = pairs ps) by (unfold p'; rewrite uprops_apply_props; reflexivity).
    unfold snapshot, frame_obs. cbn [af_body]. unfold oN, oB, oS, getN, getB, getS.
    rewrite Eflags, Erc, Eu, oprops_pairs. cbn [valN]. rewrite (has_bit0 fl Hfl).
    unfold p'.
    rewrite (obs_num connack_map false NoSub ps a2 Hnd Hok Hdup 17 (M F_sessionExpiryInterval) U32) by (reflexivity || discriminate || exact I).
    rewrite (obs_num connack_map false NoSub ps a2 Hnd Hok Hdup 33 (M F_receiveMax) U16) by (reflexivity || discriminate || exact I).
    rewrite (obs_num connack_map false NoSub ps a2 Hnd Hok Hdup 36 (M F_maxQoS) U8) by (reflexivity || discriminate || exact I).
    rewrite (obs_bool connack_map false NoSub ps a2 Hnd Hok Hdup 37 (M F_retainAvailable)) by (reflexivity || discriminate).
    rewrite (obs_num connack_map false NoSub ps a2 Hnd Hok Hdup 39 (M F_maxPacketSize) U32) by (reflexivity || discriminate || exact I).
    rewrite (obs_str connack_map false NoSub ps a2 Hnd Hok Hdup 18 (M F_assignedClientID)) by (reflexivity || discriminate).
    rewrite (obs_num connack_map false NoSub ps a2 Hnd Hok Hdup 34 (M F_topicAliasMax) U16) by (reflexivity || discriminate || exact I).
    rewrite (obs_str connack_map false NoSub ps a2 Hnd Hok Hdup 31 (M F_reasonString)) by (reflexivity || discriminate).
    rewrite (obs_bool connack_map false NoSub ps a2 Hnd Hok Hdup 40 (M F_wildcardSubAvailable)) by (reflexivity || discriminate).
    rewrite (obs_bool connack_map false NoSub ps a2 Hnd Hok Hdup 41 (M F_subIdentifiersAvailable)) by (reflexivity || discriminate).
    rewrite (obs_bool connack_map false NoSub ps a2 Hnd Hok Hdup 42 (M F_sharedSubAvailable)) by (reflexivity || discriminate).
    rewrite (obs_num connack_map false NoSub ps a2 Hnd Hok Hdup 19 (M F_serverKeepAlive) U16) by (reflexivity || discriminate || exact I).
    rewrite (obs_str connack_map false NoSub ps a2 Hnd Hok Hdup 26 (M F_responseInformation)) by (reflexivity || discriminate).
    rewrite (obs_str connack_map false NoSub ps a2 Hnd Hok Hdup 28 (M F_serverReference)) by (reflexivity || discriminate).
    rewrite (obs_str connack_map false NoSub ps a2 Hnd Hok Hdup 21 (M F_authMethod)) by (reflexivity || discriminate).
    rewrite (obs_str connack_map false NoSub ps a2 Hnd Hok Hdup 22 (M F_authData)) by (reflexivity || discriminate).
    reflexivity.
Qed.

(* ------------------------------------------------------------------ *)
(* PUBACK, PUBREC, PUBREL, PUBCOMP *)
Lemma table_ack t : In t [4; 5; 6; 7; 9; 11] -> table_ok t ack_map false NoSub = true.
Proof. intros H. cbn [In] in H. destruct H as [<-|[<-|[<-|[<-|[<-|[<-|[]]]]]]]; vm_compute; reflexivity. Qed.

Lemma ack_map_lookup_other r : r <> M F_reasonString ->
  forall id r0 w0, lookup_prop ack_map id = Some (r0, w0) -> r0 <> r.
Proof.
  intros Hr id r0 w0 Hl. apply lookup_in_map in Hl. unfold ack_map in Hl. cbn [In] in Hl.
  destruct Hl as [Hl|[]]. injection Hl as _ <- _. intros E. apply Hr. symmetry. exact E.
Qed.

Definition ack_frame_ok (form rc : N) (ps : list aprop) (t : N) : Prop :=
  match form with
  | 2 => rc = 0 /\ ps = []
  | 3 => ps = []
  | 4 => sprops_ok t ps /\ len (e_props_raw ps) < 268435456
  | _ => False
  end.

Theorem accept_ack k pid form rc ps : is_ack k = true ->
  pid < 65536 -> rc < 256 -> ack_frame_ok form rc ps (kind_nibble k) ->
  accepts {| af_type := kind_nibble k; af_flags := ctor_fixed k - kind_nibble k * 16;
             af_body := BAck pid form rc ps |}.
Proof.
  intros Hk Hpid Hrc Hform.
  assert (Hb0 : kind_nibble k * 16 + (ctor_fixed k - kind_nibble k * 16) = ctor_fixed k)
    by (destruct k; try discriminate Hk; reflexivity).
  assert (Hdec_of : dec_of k = dec_ack) by (destruct k; try discriminate; reflexivity).
  set (fresh := setf (M F_fixed) (VN (ctor_fixed k)) zero_pkt).
  assert (Hfresh : fresh_pkt (b2n (n2b (ctor_fixed k))) = (k, fresh)) by (apply fresh_ack; exact Hk).
  set (a1 := setf (M F_packetID) (canon U16 (VN pid)) fresh).
  set (a2 := setf (M F_reasonCode) (canon U8 (VN rc)) a1).
  assert (Hsnap : forall q, getf (M F_packetID) q = VN pid -> getf (M F_reasonCode) q = VN rc ->
            OS (valS (getf (M F_reasonString) q)) = pstr 31 ps -> uprops q = pairs ps ->
            snapshot k q = frame_obs {| af_type := kind_nibble k; af_flags := ctor_fixed k - kind_nibble k * 16;
                                        af_body := BAck pid form rc ps |}).
  { intros q E1 E2 E3 E4. unfold frame_obs. cbn [af_body].
    destruct k; try discriminate Hk; unfold snapshot, oN, oS, getN, getS; rewrite E1, E2, E3, E4, oprops_pairs; reflexivity. }
  unfold ack_frame_ok in Hform.
  assert (Hcase : (form = 2 /\ rc = 0 /\ ps = []) \/ (form = 3 /\ ps = []) \/
                  (form = 4 /\ sprops_ok (kind_nibble k) ps /\ len (e_props_raw ps) < 268435456)).
  { destruct form as [|[[[]|[]|]|[[]|[]|]|]]; try contradiction; tauto. }
  destruct Hcase as [[-> [-> ->]]|[[-> ->]|[-> [Hps HR]]]].
  - (* packet identifier only *)
    destruct (dget_at (M F_packetID) U16 (VN pid) fresh (e_u16 pid) 0 [] 0) as [D1 H1];
      try discriminate; try exact I; try assumption.
    { rewrite app_nil_r. apply at_pos_0. }
    fold a1 in D1.
    apply (accepts_intro _ k fresh a1); cbn [af_type af_flags af_body e_body N.eqb Pos.eqb]; rewrite ?Hb0, ?app_nil_r.
    + exact Hfresh.
    + unfold e_u16. eapply unmarshal_of_run. rewrite Hdec_of. unfold dec_ack.
      change [n2b (pid / 256); n2b pid] with (e_u16 pid). rewrite (run_dec_cons _ _ _ _ D1).
      cbn [run_dec]. rewrite dif_step. reflexivity.
    + reflexivity.
    + apply Hsnap; reflexivity.
  - (* reason code, no property length *)
    destruct (dget_at (M F_packetID) U16 (VN pid) fresh (e_u16 pid ++ e_u8 rc) 0 (e_u8 rc) 0) as [D1 H1];
      try discriminate; try exact I; try assumption.
    { apply at_pos_0. }
    fold a1 in D1.
    destruct (dget_at (M F_reasonCode) U8 (VN rc) a1 (e_u16 pid ++ e_u8 rc) (0 + length (encode U16 (VN pid))) [] 1)
      as [D2 H2]; try discriminate; try exact I; try assumption.
    fold a2 in D2.
    pose proof (dgetany_end ack_map false NoSub a2 _ _ 2 H2) as D3.
    apply (accepts_intro _ k fresh a2); cbn [af_type af_flags af_body e_body N.eqb Pos.eqb]; rewrite ?Hb0, ?app_nil_r.
    + exact Hfresh.
    + unfold e_u16, e_u8. cbn [app]. eapply unmarshal_of_run. rewrite Hdec_of. unfold dec_ack.
      change [n2b (pid / 256); n2b pid; n2b rc] with (e_u16 pid ++ e_u8 rc). rewrite (run_dec_cons _ _ _ _ D1).
      cbn [run_dec]. rewrite dif_step.
      change (eval_cond (CDataLenGt 2) _ _) with true. cbv iota.
      rewrite (run_dec_cons _ _ _ _ D2), (run_dec_cons _ _ _ _ D3). reflexivity.
    + reflexivity.
    + apply Hsnap; reflexivity.
  - (* reason code and properties *)
    assert (Ht : table_ok (kind_nibble k) ack_map false NoSub = true)
      by (apply table_ack; destruct k; try discriminate Hk; cbn; tauto).
    pose proof (sprops_prop_ok _ ack_map false NoSub ps Ht Hps) as Hok.
    pose proof (sprops_keyed _ ps Hps) as Hdup.
    set (body := e_u16 pid ++ e_u8 rc ++ e_props ps).
    destruct (dget_at (M F_packetID) U16 (VN pid) fresh body 0 (e_u8 rc ++ e_props ps) 0) as [D1 H1];
      try discriminate; try exact I; try assumption.
    { apply at_pos_0. }
    fold a1 in D1.
    destruct (dget_at (M F_reasonCode) U8 (VN rc) a1 body (0 + length (encode U16 (VN pid))) (e_props ps) 1)
      as [D2 H2]; try discriminate; try exact I; try assumption.
    fold a2 in D2.
    destruct (dgetany_spec_at ack_map false NoSub ps a2 body
                (0 + length (encode U16 (VN pid)) + length (encode U8 (VN rc))) [] 2)
      as [st [D3 H3]]; try assumption; try reflexivity; try discriminate.
    { intros ap _ _ r w Hl _. apply lookup_in_map in Hl. unfold ack_map in Hl. cbn [In] in Hl.
      destruct Hl as [Hl|[]]. injection Hl as _ <- _. reflexivity. }
    { rewrite app_nil_r. exact H2. }
    set (p' := apply_props ack_map false NoSub ps a2) in *.
    apply (accepts_intro _ k fresh p'); cbn [af_type af_flags af_body e_body N.eqb Pos.eqb]; rewrite ?Hb0.
    + exact Hfresh.
    + fold body. assert (Hne : body <> []) by (unfold body, e_u16; cbn [app]; discriminate).
      destruct body as [|b0 body0] eqn:Eb; [congruence|]. rewrite <- Eb in *.
      eapply unmarshal_of_run. rewrite Hdec_of. unfold dec_ack. rewrite (run_dec_cons _ _ _ _ D1).
      cbn [run_dec]. rewrite dif_step.
      assert (Ec : eval_cond (CDataLenGt 2) (dp (mk_state a1 body (0 + length (encode U16 (VN pid))) 1))
                             (env_of (mk_state a1 body (0 + length (encode U16 (VN pid))) 1)) = true).
      { cbn [eval_cond env_of ce_len mk_state ddata]. apply Nat.ltb_lt. rewrite Eb. rewrite <- Eb. unfold body at 1.
        rewrite !app_length. unfold e_props. rewrite app_length.
        assert (0 < length (e_var (len (e_props_raw ps))))%nat.
        { rewrite e_var_enc_vb by exact HR. apply (encode_pos Vb (VN _)). discriminate. }
        cbn [e_u16 e_u8 length]. lia. }
      rewrite Ec. rewrite (run_dec_cons _ _ _ _ D2), (run_dec_cons _ _ _ _ D3). reflexivity.
    + reflexivity.
    + assert (Hnd : nodup_refs ack_map = true) by apply ack_map_ok.
      apply Hsnap.
      * unfold p'. rewrite apply_props_getf_other; [reflexivity|apply ack_map_lookup_other; discriminate].
      * unfold p'. rewrite apply_props_getf_other; [reflexivity|apply ack_map_lookup_other; discriminate].
      * unfold p'. apply (obs_str ack_map false NoSub ps a2 Hnd Hok Hdup 31 (M F_reasonString)); reflexivity || discriminate.
      * unfold p'. rewrite uprops_apply_props. reflexivity.
Qed.

(* ------------------------------------------------------------------ *)
(* DISCONNECT and AUTH *)
Lemma table_auth : table_ok 15 auth_map false NoSub = true.
Proof. vm_compute. reflexivity. Qed.

Lemma table_disconnect : table_ok 14 disconnect_map false NoSub = true.
Proof. vm_compute. reflexivity. Qed.

Definition disc_frame_ok (t form rc : N) (ps : list aprop) : Prop :=
  match form with
  | 0 => rc = 0 /\ ps = []
  | 1 => t = 14 /\ ps = []
  | 2 => sprops_ok t ps /\ len (e_props_raw ps) < 268435456
  | _ => False
  end.

Section DiscAuth.
  Variable k : kind.
  Variable m : list entry.
  Hypothesis Hdec_of : dec_of k = [DGet (M F_reasonCode) U8; DGetAny m false NoSub].
  Hypothesis Hfresh : fresh_pkt (b2n (n2b (ctor_fixed k))) = (k, setf (M F_fixed) (VN (ctor_fixed k)) zero_pkt).
  Hypothesis Hnd : nodup_refs m = true.
  Hypothesis H38 : lookup_prop m UserProperty = None.
  Hypothesis Hbin0 : forall id r w, lookup_prop m id = Some (r, w) ->
                     r <> M F_reasonCode /\ r <> M F_fixed /\ match r with M _ => True | W _ => False end.

  Lemma disc_decode form rc ps :
    rc < 256 ->
    match form with
    | 0 => rc = 0 /\ ps = []
    | 1 => ps = []
    | 2 => Forall (prop_ok m false NoSub) ps /\ NoDup (keyed_ids ps) /\ len (e_props_raw ps) < 268435456
    | _ => False
    end ->
    let body := e_body (BDisc form rc ps) in
    let fresh := setf (M F_fixed) (VN (ctor_fixed k)) zero_pkt in
    exists p', match body with [] => p' = fresh | _ => unmarshal k fresh body = UOk p' end
      /\ getf (M F_reasonCode) p' = VN rc /\ uprops p' = pairs ps
      /\ (forall r, r <> M F_reasonCode -> r <> M F_fixed -> match r with M _ => True | W _ => False end ->
            getf r p' = getf r (apply_props m false NoSub ps zero_pkt)).
  Proof.
    intros Hrc Hform body fresh.
    set (a1 := setf (M F_reasonCode) (canon U8 (VN rc)) fresh).
    assert (Hzero : forall r, r <> M F_reasonCode -> r <> M F_fixed -> match r with M _ => True | W _ => False end ->
               getf r a1 = VN 0).
    { intros r H1 H2 H3. unfold a1, fresh. rewrite !getf_setf.
      destruct (fref_eqb r (M F_reasonCode)) eqn:E1; [apply fref_eqb_true in E1; contradiction|].
      destruct (fref_eqb r (M F_fixed)) eqn:E2; [apply fref_eqb_true in E2; contradiction|].
      destruct r; [reflexivity|contradiction]. }
    assert (Hcase : (form = 0 /\ rc = 0 /\ ps = []) \/ (form = 1 /\ ps = []) \/
                    (form = 2 /\ Forall (prop_ok m false NoSub) ps /\ NoDup (keyed_ids ps)
                     /\ len (e_props_raw ps) < 268435456)).
    { destruct form as [|[[]|[]|]]; try contradiction; tauto. }
    destruct Hcase as [[-> [-> ->]]|[[-> ->]|[-> [Hok [Hdup HR]]]]].
    - exists fresh. unfold body. cbn [e_body N.eqb]. repeat split; try reflexivity.
      intros r H1 H2 H3. cbn [apply_props fold_left]. unfold fresh. rewrite getf_setf_other; [reflexivity|].
      destruct (fref_eqb r (M F_fixed)) eqn:E; [apply fref_eqb_true in E; contradiction|reflexivity].
    - exists a1. unfold body. cbn [e_body N.eqb Pos.eqb]. rewrite app_nil_r. split; [|split; [reflexivity|split; [reflexivity|]]].
      + unfold e_u8.
        destruct (dget_at (M F_reasonCode) U8 (VN rc) fresh [n2b rc] 0 [] 0) as [D1 H1];
          try discriminate; try exact I; try assumption.
        { apply at_pos_0. }
        fold a1 in D1. pose proof (dgetany_end m false NoSub a1 _ _ 1 H1) as D2.
        eapply unmarshal_of_run. rewrite Hdec_of. rewrite (run_dec_cons _ _ _ _ D1), (run_dec_cons _ _ _ _ D2). reflexivity.
      + intros r H1 H2 H3. cbn [apply_props fold_left]. rewrite (Hzero r H1 H2 H3). destruct r; reflexivity.
    - set (b := e_u8 rc ++ e_props ps).
      destruct (dget_at (M F_reasonCode) U8 (VN rc) fresh b 0 (e_props ps) 0) as [D1 H1];
        try discriminate; try exact I; try assumption.
      { apply at_pos_0. }
      fold a1 in D1.
      destruct (dgetany_spec_at m false NoSub ps a1 b (0 + length (encode U8 (VN rc))) [] 1)
        as [st [D2 H2]]; try assumption; try discriminate.
      { intros ap _ _ r w Hl _. destruct (Hbin0 _ _ _ Hl) as [G1 [G2 G3]]. rewrite (Hzero r G1 G2 G3). reflexivity. }
      { rewrite app_nil_r. exact H1. }
      exists (apply_props m false NoSub ps a1). unfold body. cbn [e_body N.eqb Pos.eqb]. fold b.
      split; [|split; [|split]].
      + assert (Hne : b <> []) by (unfold b, e_u8; cbn [app]; discriminate).
        destruct b as [|b0 b1] eqn:Eb; [congruence|]. rewrite <- Eb in *.
        eapply unmarshal_of_run. rewrite Hdec_of. rewrite (run_dec_cons _ _ _ _ D1), (run_dec_cons _ _ _ _ D2). reflexivity.
      + rewrite apply_props_getf_other; [reflexivity|].
        intros id r0 w0 Hl. destruct (Hbin0 _ _ _ Hl) as [G1 _]. exact G1.
      + rewrite uprops_apply_props. reflexivity.
      + intros r H1' H2' H3'.
        (* the same fold from two packets that agree on r *)
        assert (G : forall l q1 q2, getf r q1 = getf r q2 ->
                      getf r (apply_props m false NoSub l q1) = getf r (apply_props m false NoSub l q2)).
        { induction l as [|ap l IH]; intros q1 q2 E; [exact E|]. cbn [apply_props fold_left].
          apply IH. unfold apply_prop. destruct (ap_val ap); try (rewrite !getf_append_ups; exact E);
            (destruct (ap_id ap =? 11); [exact E|];
             destruct (lookup_prop m (ap_id ap)) as [[r0 w0]|]; [|exact E]; rewrite !getf_setf;
             destruct (fref_eqb r r0); [reflexivity|exact E]). }
        apply G. rewrite (Hzero r H1' H2' H3'). destruct r; reflexivity.
  Qed.
End DiscAuth.

Lemma disc_form_cases t form rc ps : disc_frame_ok t form rc ps ->
  (form = 0 /\ rc = 0 /\ ps = []) \/ (form = 1 /\ t = 14 /\ ps = []) \/
  (form = 2 /\ sprops_ok t ps /\ len (e_props_raw ps) < 268435456).
Proof.
  unfold disc_frame_ok. destruct form as [|p]; [intros H; left; tauto|].
  destruct p as [p|p|]; [destruct p; contradiction| |intros H; right; left; tauto].
  destruct p as [p|p|]; try contradiction. intros H. right. right. tauto.
Qed.

Theorem accept_disconnect form rc ps : rc < 256 -> disc_frame_ok 14 form rc ps ->
  accepts {| af_type := 14; af_flags := 0; af_body := BDisc form rc ps |}.
Proof.
  intros Hrc Hform.
  assert (Hnd : nodup_refs disconnect_map = true) by (vm_compute; reflexivity).
  assert (Hform' : match form with
    | 0 => rc = 0 /\ ps = []
    | 1 => ps = []
    | 2 => Forall (prop_ok disconnect_map false NoSub) ps /\ NoDup (keyed_ids ps) /\ len (e_props_raw ps) < 268435456
    | _ => False
    end).
  { destruct (disc_form_cases _ _ _ _ Hform) as [[-> [E1 E2]]|[[-> [_ E2]]|[-> [Hps HR]]]].
    - split; assumption.
    - exact E2.
    - split; [apply (sprops_prop_ok 14); [exact table_disconnect|exact Hps]|].
      split; [apply (sprops_keyed 14); exact Hps|exact HR]. }
  destruct (disc_decode KDisconnect disconnect_map eq_refl Hnd eq_refl) with (form := form) (rc := rc) (ps := ps)
    as [p' [Hd [Erc [Eu Hother]]]]; try assumption.
  { intros id r w Hl. apply lookup_in_map in Hl. unfold disconnect_map in Hl. cbn [In] in Hl.
    repeat (destruct Hl as [Hl|Hl]; [injection Hl as _ <- _; repeat split; discriminate|]). contradiction. }
  apply (accepts_intro _ KDisconnect (setf (M F_fixed) (VN (ctor_fixed KDisconnect)) zero_pkt) p');
    [reflexivity|exact Hd|reflexivity|].
  unfold snapshot, frame_obs. cbn [af_body af_type N.eqb Pos.eqb]. unfold oN, oS, getN, getS.
  rewrite Erc, Eu, oprops_pairs.
  rewrite !Hother by (discriminate || exact I).
  assert (Hstr : forall id f, lookup_prop disconnect_map id = Some (M f, Bin) -> id <> 11 -> id <> 38 ->
            OS (valS (getf (M f) (apply_props disconnect_map false NoSub ps zero_pkt))) = pstr id ps).
  { intros id f Hl H11 H38'.
    destruct (disc_form_cases _ _ _ _ Hform) as [[-> [E1 ->]]|[[-> [_ ->]]|[-> [Hps HR]]]].
    - reflexivity.
    - reflexivity.
    - destruct Hform' as [Hok [Hdup _]].
      apply (obs_str disconnect_map false NoSub ps zero_pkt Hnd Hok Hdup id (M f) Hl H11 H38'). reflexivity. }
  assert (Hnum : ON (valN (getf (M F_sessionExpiryInterval) (apply_props disconnect_map false NoSub ps zero_pkt)))
                 = pnum 17 ps).
  { destruct (disc_form_cases _ _ _ _ Hform) as [[-> [E1 ->]]|[[-> [_ ->]]|[-> [Hps HR]]]].
    - reflexivity.
    - reflexivity.
    - destruct Hform' as [Hok [Hdup _]].
      apply (obs_num disconnect_map false NoSub ps zero_pkt Hnd Hok Hdup 17 (M F_sessionExpiryInterval) U32);
        [reflexivity|discriminate|discriminate|exact I|reflexivity]. }
  rewrite Hnum.
  rewrite (Hstr 31 F_reasonString eq_refl) by discriminate.
  rewrite (Hstr 28 F_serverReference eq_refl) by discriminate.
  reflexivity.
Qed.

Theorem accept_auth form rc ps : rc < 256 -> disc_frame_ok 15 form rc ps ->
  accepts {| af_type := 15; af_flags := 0; af_body := BDisc form rc ps |}.
Proof.
  intros Hrc Hform.
  assert (Hnd : nodup_refs auth_map = true) by apply auth_map_ok.
  assert (Hform' : match form with
    | 0 => rc = 0 /\ ps = []
    | 1 => ps = []
    | 2 => Forall (prop_ok auth_map false NoSub) ps /\ NoDup (keyed_ids ps) /\ len (e_props_raw ps) < 268435456
    | _ => False
    end).
  { destruct (disc_form_cases _ _ _ _ Hform) as [[-> [E1 E2]]|[[-> [E _]]|[-> [Hps HR]]]].
    - split; assumption.
    - discriminate E.
    - split; [apply (sprops_prop_ok 15); [exact table_auth|exact Hps]|].
      split; [apply (sprops_keyed 15); exact Hps|exact HR]. }
  destruct (disc_decode KAuth auth_map eq_refl Hnd eq_refl) with (form := form) (rc := rc) (ps := ps)
    as [p' [Hd [Erc [Eu Hother]]]]; try assumption.
  { intros id r w Hl. apply lookup_in_map in Hl. unfold auth_map in Hl. cbn [In] in Hl.
    repeat (destruct Hl as [Hl|Hl]; [injection Hl as _ <- _; repeat split; discriminate|]). contradiction. }
  apply (accepts_intro _ KAuth (setf (M F_fixed) (VN (ctor_fixed KAuth)) zero_pkt) p');
    [reflexivity|exact Hd|reflexivity|].
  unfold snapshot, frame_obs. cbn [af_body af_type N.eqb Pos.eqb]. unfold oN, oS, getN, getS.
  rewrite Erc, Eu, oprops_pairs.
  rewrite !Hother by (discriminate || exact I).
  (* the three strings: by the form *)
  assert (Hobs : forall id f, lookup_prop auth_map id = Some (M f, Bin) -> id <> 11 -> id <> 38 ->
            OS (valS (getf (M f) (apply_props auth_map false NoSub ps zero_pkt))) = pstr id ps).
  { intros id f Hl H11 H38'.
    destruct (disc_form_cases _ _ _ _ Hform) as [[-> [E1 ->]]|[[-> [E _]]|[-> [Hps HR]]]].
    - reflexivity.
    - discriminate E.
    - destruct Hform' as [Hok [Hdup _]].
      apply (obs_str auth_map false NoSub ps zero_pkt Hnd Hok Hdup id (M f) Hl H11 H38'). reflexivity. }
  rewrite (Hobs 31 F_reasonString eq_refl) by discriminate.
  rewrite (Hobs 21 F_authMethod eq_refl) by discriminate.
  rewrite (Hobs 22 F_authData eq_refl) by discriminate.
  reflexivity.
Qed.

(* ------------------------------------------------------------------ *)
(* SUBACK, UNSUBACK *)
Theorem accept_suback k pid ps codes : is_suback k = true ->
  pid < 65536 -> sprops_ok (kind_nibble k) ps -> len (e_props_raw ps) < 268435456 ->
  Forall (fun n => n < 256) codes ->
  accepts {| af_type := kind_nibble k; af_flags := 0; af_body := BSuback pid ps codes |}.
Proof.
  intros Hk Hpid Hps HR Hcodes.
  assert (Hb0 : kind_nibble k * 16 + 0 = ctor_fixed k) by (destruct k; try discriminate Hk; reflexivity).
  assert (Hdec_of : dec_of k = dec_suback) by (destruct k; try discriminate; reflexivity).
  set (fresh := setf (M F_fixed) (VN (ctor_fixed k)) zero_pkt).
  assert (Hfresh : fresh_pkt (b2n (n2b (ctor_fixed k))) = (k, fresh))
    by (apply fresh_plain; intros ->; discriminate).
  assert (Ht : table_ok (kind_nibble k) ack_map false NoSub = true)
    by (apply table_ack; destruct k; try discriminate Hk; cbn; tauto).
  pose proof (sprops_prop_ok _ ack_map false NoSub ps Ht Hps) as Hok.
  pose proof (sprops_keyed _ ps Hps) as Hdup.
  set (a1 := setf (M F_packetID) (canon U16 (VN pid)) fresh).
  set (RC := concat (map e_u8 codes)).
  set (body := e_u16 pid ++ e_props ps ++ RC).
  destruct (dget_at (M F_packetID) U16 (VN pid) fresh body 0 (e_props ps ++ RC) 0) as [D1 H1];
    try discriminate; try exact I; try assumption.
  { apply at_pos_0. }
  fold a1 in D1.
  destruct (dgetany_spec_at ack_map false NoSub ps a1 body (0 + length (encode U16 (VN pid))) RC 1)
    as [st [D2 H2]]; try assumption; try reflexivity; try discriminate.
  { intros ap _ _ r w Hl _. apply lookup_in_map in Hl. unfold ack_map in Hl. cbn [In] in Hl.
    destruct Hl as [Hl|[]]. injection Hl as _ <- _. reflexivity. }
  set (a2 := apply_props ack_map false NoSub ps a1) in *.
  pose proof (dreasoncodes_at codes a2 body _ st Hcodes H2) as D3.
  set (p' := set_rcodes a2 codes) in *.
  assert (Hnd : nodup_refs ack_map = true) by apply ack_map_ok.
  apply (accepts_intro _ k fresh p'); cbn [af_type af_flags af_body e_body]; rewrite ?Hb0.
  - exact Hfresh.
  - fold RC body. assert (Hne : body <> []) by (unfold body, e_u16; cbn [app]; discriminate).
    destruct body as [|b0 body0] eqn:Eb; [congruence|]. rewrite <- Eb in *.
    eapply unmarshal_of_run. rewrite Hdec_of. unfold dec_suback.
    rewrite (run_dec_cons _ _ _ _ D1), (run_dec_cons _ _ _ _ D2), (run_dec_cons _ _ _ _ D3). reflexivity.
  - reflexivity.
  - assert (E1 : getf (M F_packetID) p' = VN pid).
    { unfold p'. change (getf (M F_packetID) (set_rcodes a2 codes)) with (getf (M F_packetID) a2).
      unfold a2. rewrite apply_props_getf_other; [reflexivity|apply ack_map_lookup_other; discriminate]. }
    assert (E2 : OS (valS (getf (M F_reasonString) p')) = pstr 31 ps).
    { unfold p'. change (getf (M F_reasonString) (set_rcodes a2 codes)) with (getf (M F_reasonString) a2).
      unfold a2. apply (obs_str ack_map false NoSub ps a1 Hnd Hok Hdup 31 (M F_reasonString)); reflexivity || discriminate. }
    assert (E3 : uprops p' = pairs ps).
    { unfold p'. cbn [uprops set_rcodes]. unfold a2. rewrite uprops_apply_props. reflexivity. }
    unfold frame_obs. cbn [af_body].
    destruct k; try discriminate Hk; unfold snapshot, oN, oS, getN, getS; rewrite E1, E2, E3, oprops_pairs; reflexivity.
Qed.

(* ------------------------------------------------------------------ *)
(* UNSUBSCRIBE *)
Lemma table_unsubscribe : table_ok 10 [] false NoSub = true.
Proof. vm_compute. reflexivity. Qed.

Theorem accept_unsubscribe pid ps fs :
  pid < 65536 -> sprops_ok 10 ps -> len (e_props_raw ps) < 268435456 ->
  Forall (fun f => len f < 65536) fs ->
  accepts {| af_type := 10; af_flags := 2; af_body := BUnsubscribe pid ps fs |}.
Proof.
  intros Hpid Hps HR Hfs.
  set (fresh := setf (M F_fixed) (VN (ctor_fixed KUnsubscribe)) zero_pkt).
  pose proof (sprops_prop_ok _ [] false NoSub ps table_unsubscribe Hps) as Hok.
  pose proof (sprops_keyed _ ps Hps) as Hdup.
  set (a1 := setf (M F_packetID) (canon U16 (VN pid)) fresh).
  set (FB := concat (map e_str fs)).
  assert (EFB : FB = concat (map enc_bin fs)).
  { unfold FB. clear -Hfs. induction Hfs as [|f l Hf _ IH]; [reflexivity|]. cbn [map concat].
    rewrite (e_str_enc_bin f Hf), IH. reflexivity. }
  set (body := e_u16 pid ++ e_props ps ++ FB).
  destruct (dget_at (M F_packetID) U16 (VN pid) fresh body 0 (e_props ps ++ FB) 0) as [D1 H1];
    try discriminate; try exact I; try assumption.
  { apply at_pos_0. }
  fold a1 in D1.
  destruct (dgetany_spec_at [] false NoSub ps a1 body (0 + length (encode U16 (VN pid))) FB 1)
    as [st [D2 H2]]; try assumption; try reflexivity; try discriminate.
  set (a2 := apply_props [] false NoSub ps a1) in *.
  rewrite EFB in H2.
  pose proof (dunsubfilters_at fs a2 body _ st Hfs H2) as D3.
  assert (Huf : ufilters a2 = []).
  { unfold a2. rewrite (proj_apply_props _ ufilters ufilters_setf); [reflexivity| | |]; intros;
      try reflexivity. apply append_ups_other. }
  rewrite Huf in D3. cbn [app] in D3.
  set (p' := set_ufilters a2 fs) in *.
  apply (accepts_intro _ KUnsubscribe fresh p'); cbn [af_type af_flags af_body e_body].
  - reflexivity.
  - fold FB body. assert (Hne : body <> []) by (unfold body, e_u16; cbn [app]; discriminate).
    destruct body as [|b0 body0] eqn:Eb; [congruence|]. rewrite <- Eb in *.
    eapply unmarshal_of_run. cbn [dec_of]. unfold dec_unsubscribe.
    rewrite (run_dec_cons _ _ _ _ D1), (run_dec_cons _ _ _ _ D2), (run_dec_cons _ _ _ _ D3). reflexivity.
  - reflexivity.
  - assert (E1 : getf (M F_packetID) p' = VN pid).
    { unfold p'. change (getf (M F_packetID) (set_ufilters a2 fs)) with (getf (M F_packetID) a2).
      unfold a2. rewrite apply_props_getf_other; [reflexivity|]. intros id r0 w0 Hl. discriminate Hl. }
    assert (E3 : uprops p' = pairs ps).
    { unfold p'. cbn [uprops set_ufilters]. unfold a2. rewrite uprops_apply_props. reflexivity. }
    unfold frame_obs, snapshot, oN, getN. cbn [af_body]. rewrite E1, E3, oprops_pairs. reflexivity.
Qed.

(* ------------------------------------------------------------------ *)
(* SUBSCRIBE *)
Lemma table_subscribe : table_ok 8 [] false SubOpt = true.
Proof. vm_compute. reflexivity. Qed.

Lemma getp11_small ps n : Forall (prop_ok [] false SubOpt) ps -> getp 11 ps = Some (VVar n) -> n < 268435456.
Proof.
  induction ps as [|ap l IH]; intros Hok Hg; [discriminate|].
  pose proof (Forall_inv Hok) as Hap. pose proof (Forall_inv_tail Hok) as Hoks.
  cbn [getp] in Hg. destruct (ap_id ap =? 11) eqn:E; [|apply IH; assumption].
  injection Hg as Hv. unfold prop_ok in Hap. rewrite Hv, E in Hap. destruct Hap as [_ [n' [En Hn]]].
  injection En as <-. lia.
Qed.

Theorem accept_subscribe pid ps fs :
  pid < 65536 -> sprops_ok 8 ps -> len (e_props_raw ps) < 268435456 ->
  Forall filter_ok fs ->
  accepts {| af_type := 8; af_flags := 2; af_body := BSubscribe pid ps fs |}.
Proof.
  intros Hpid Hps HR Hfs.
  set (fresh := setf (M F_fixed) (VN (ctor_fixed KSubscribe)) zero_pkt).
  pose proof (sprops_prop_ok _ [] false SubOpt ps table_subscribe Hps) as Hok.
  pose proof (sprops_keyed _ ps Hps) as Hdup.
  pose proof (sprops_ids11 ps Hps) as Hdup11.
  set (a1 := setf (M F_packetID) (canon U16 (VN pid)) fresh).
  set (FB := concat (map (fun f => e_str (fst f) ++ e_u8 (snd f)) fs)).
  assert (EFB : FB = concat (map enc_filter fs)).
  { unfold FB. clear -Hfs. induction Hfs as [|f l [Hf _] _ IH]; [reflexivity|]. cbn [map concat].
    unfold enc_filter at 1. rewrite (e_str_enc_bin _ Hf), IH. reflexivity. }
  set (body := e_u16 pid ++ e_props ps ++ FB).
  destruct (dget_at (M F_packetID) U16 (VN pid) fresh body 0 (e_props ps ++ FB) 0) as [D1 H1];
    try discriminate; try exact I; try assumption.
  { apply at_pos_0. }
  fold a1 in D1.
  destruct (dgetany_spec_at [] false SubOpt ps a1 body (0 + length (encode U16 (VN pid))) FB 1)
    as [st [D2 H2]]; try assumption; try reflexivity; try discriminate.
  set (a2 := apply_props [] false SubOpt ps a1) in *.
  rewrite EFB in H2.
  pose proof (dfilters_at fs a2 body _ st Hfs H2) as D3.
  assert (Hf2 : filters a2 = []).
  { unfold a2. rewrite (proj_apply_props _ filters filters_setf); [reflexivity| | |]; intros;
      try reflexivity. apply append_ups_other. }
  rewrite Hf2 in D3. cbn [app] in D3.
  set (p' := set_filters a2 fs) in *.
  apply (accepts_intro _ KSubscribe fresh p'); cbn [af_type af_flags af_body e_body].
  - reflexivity.
  - fold FB body. assert (Hne : body <> []) by (unfold body, e_u16; cbn [app]; discriminate).
    destruct body as [|b0 body0] eqn:Eb; [congruence|]. rewrite <- Eb in *.
    eapply unmarshal_of_run. cbn [dec_of]. unfold dec_subscribe.
    rewrite (run_dec_cons _ _ _ _ D1), (run_dec_cons _ _ _ _ D2), (run_dec_cons _ _ _ _ D3). reflexivity.
  - reflexivity.
  - assert (E1 : getf (M F_packetID) p' = VN pid).
    { unfold p'. change (getf (M F_packetID) (set_filters a2 fs)) with (getf (M F_packetID) a2).
      unfold a2. rewrite apply_props_getf_other; [reflexivity|]. intros id r0 w0 Hl. discriminate Hl. }
    assert (E3 : uprops p' = pairs ps).
    { unfold p'. cbn [uprops set_filters]. unfold a2. rewrite uprops_apply_props. reflexivity. }
    assert (E4 : subid p' = match getp 11 ps with Some (VVar n) => Some n | _ => None end).
    { unfold p'. cbn [subid set_filters]. unfold a2. rewrite (subid_apply_props [] false ps a1 Hok Hdup11). reflexivity. }
    unfold frame_obs, snapshot, oN, getN. cbn [af_body]. rewrite E1, E3, E4, oprops_pairs.
    assert (E5 : subid_int (match getp 11 ps with Some (VVar n) => Some n | _ => None end) =
                 match getp 11 ps with Some (VVar n) => Z.of_N n | _ => (-1)%Z end).
    { destruct (getp 11 ps) as [[]|] eqn:Eg; try reflexivity.
      pose proof (getp11_small ps n Hok Eg) as Hn. unfold subid_int.
      rewrite (proj2 (N.ltb_lt _ _)) by lia. reflexivity. }
    rewrite E5. reflexivity.
Qed.

(* ------------------------------------------------------------------ *)
(* PUBLISH *)
Lemma table_publish : table_ok 3 publish_map false AddSub = true.
Proof. vm_compute. reflexivity. Qed.

Lemma publish_flag_bits fl : fl < 16 -> (fl / 2) mod 4 <> 3 ->
  has (48 + fl) DUP = N.testbit fl 3 /\ has (48 + fl) RETAIN = N.testbit fl 0
  /\ qos_of_fixed (48 + fl) = (fl / 2) mod 4
  /\ ((qos_of_fixed (48 + fl) =? 1) || (qos_of_fixed (48 + fl) =? 2)) = negb ((fl / 2) mod 4 =? 0)
  /\ 48 <= 48 + fl < 64.
Proof.
  intros Hfl Hq.
  assert (H : forallb (fun fl => negb (fl <? 16) || ((fl / 2) mod 4 =? 3) ||
     (Bool.eqb (has (48 + fl) DUP) (N.testbit fl 3) && Bool.eqb (has (48 + fl) RETAIN) (N.testbit fl 0)
      && (qos_of_fixed (48 + fl) =? (fl / 2) mod 4)
      && Bool.eqb ((qos_of_fixed (48 + fl) =? 1) || (qos_of_fixed (48 + fl) =? 2)) (negb ((fl / 2) mod 4 =? 0))))
     all_N256 = true) by (vm_compute; reflexivity).
  pose proof (forall_N256 _ H fl ltac:(lia)) as H1. cbv beta in H1.
  rewrite (proj2 (N.ltb_lt _ _) Hfl), (proj2 (N.eqb_neq _ _) Hq) in H1. cbn [negb orb] in H1.
  apply andb_prop in H1 as [H1 H4]. apply andb_prop in H1 as [H1 H3]. apply andb_prop in H1 as [H1 H2].
  repeat split; try lia; apply Bool.eqb_prop; assumption.
Qed.

Lemma publish_map_lookup_other r :
  (forall e, In e publish_map -> eref e <> r) ->
  forall id r0 w0, lookup_prop publish_map id = Some (r0, w0) -> r0 <> r.
Proof. intros H id r0 w0 Hl. apply lookup_in_map in Hl. exact (H _ Hl). Qed.

Theorem accept_publish fl topic pid ps payload :
  fl < 16 -> (fl / 2) mod 4 <> 3 -> len topic < 65536 ->
  match pid with Some i => i < 65536 /\ (fl / 2) mod 4 <> 0 | None => (fl / 2) mod 4 = 0 end ->
  sprops_ok 3 ps -> len (e_props_raw ps) < 268435456 ->
  accepts {| af_type := 3; af_flags := fl; af_body := BPublish topic pid ps payload |}.
Proof.
  intros Hfl Hq Htopic Hpid Hps HR.
  destruct (publish_flag_bits fl Hfl Hq) as [Bdup [Bret [Bqos [Bc Brange]]]].
  set (fx := 48 + fl) in *.
  set (fresh := setf (M F_fixed) (VN fx) zero_pkt).
  assert (Hfresh : fresh_pkt (b2n (n2b (3 * 16 + fl))) = (KPublish, fresh)) by (apply fresh_publish; exact Brange).
  pose proof (sprops_prop_ok _ publish_map false AddSub ps table_publish Hps) as Hok.
  pose proof (sprops_keyed _ ps Hps) as Hdup.
  assert (Hnd : nodup_refs publish_map = true) by apply publish_map_ok.
  set (a1 := setf (M F_topicName) (canon Bin (VS topic)) fresh).
  set (c := eval_cond CQoS12 a1 no_env).
  assert (Ec : c = negb ((fl / 2) mod 4 =? 0)) by exact Bc.
  set (pidv := match pid with Some i => i | None => 0 end).
  set (PID := match pid with Some i => e_u16 i | None => [] end).
  assert (EPID : PID = if c then encode U16 (VN pidv) else []).
  { unfold PID, pidv. rewrite Ec. destruct pid as [i|].
    - destruct Hpid as [_ Hq0]. rewrite (proj2 (N.eqb_neq _ _) Hq0). reflexivity.
    - rewrite Hpid. reflexivity. }
  assert (Hpidv : valid_val U16 (VN pidv)).
  { unfold pidv. cbn [valid_val valN]. destruct pid as [i|]; [destruct Hpid; assumption|lia]. }
  set (body := enc_bin topic ++ PID ++ e_props ps ++ payload).
  destruct (dget_at (M F_topicName) Bin (VS topic) fresh body 0 (PID ++ e_props ps ++ payload) 0) as [D1 H1];
    try discriminate; try exact I; try assumption.
  { intros _. right. reflexivity. }
  { apply at_pos_0. }
  fold a1 in D1.
  destruct (dif_pid_at (VN pidv) a1 body (0 + length (encode Bin (VS topic))) (e_props ps ++ payload) 1 Hpidv)
    as [st2 [D2 H2]].
  { fold c. rewrite <- EPID. exact H1. }
  fold c in D2, H2. rewrite <- EPID in D2, H2.
  set (a2 := if c then setf (M F_packetID) (canon U16 (VN pidv)) a1 else a1) in *.
  destruct (dgetany_spec_at publish_map false AddSub ps a2 body (0 + length (encode Bin (VS topic)) + length PID)
              payload st2) as [st3 [D3 H3]]; try assumption; try reflexivity; try discriminate.
  { intros ap _ _ r w Hl _. apply lookup_in_map in Hl. unfold publish_map in Hl. cbn [In] in Hl.
    unfold a2. repeat (destruct Hl as [Hl|Hl]; [injection Hl as _ <- _; destruct c; reflexivity|]). contradiction. }
  set (a3 := apply_props publish_map false AddSub ps a2) in *.
  destruct (dif_payload_at (VS payload) a3 body _ st3 H3) as [st4 D4]. cbn [valS] in D4.
  set (p' := match payload with [] => a3 | _ => setf (M F_payload) (VS payload) a3 end) in *.
  apply (accepts_intro _ KPublish fresh p'); cbn [af_type af_flags af_body e_body].
  - exact Hfresh.
  - rewrite (e_str_enc_bin topic Htopic). fold PID body.
    assert (Hne : body <> []) by (unfold body, enc_bin, enc_u16; cbn [app]; discriminate).
    destruct body as [|b0 body0] eqn:Eb; [congruence|]. rewrite <- Eb in *.
    eapply unmarshal_of_run. cbn [dec_of]. unfold dec_publish.
    rewrite (run_dec_cons _ _ _ _ D1), (run_dec_cons _ _ _ _ D2), (run_dec_cons _ _ _ _ D3),
            (run_dec_cons _ _ _ _ D4). reflexivity.
  - reflexivity.
  - (* values *)
    assert (Hother : forall r, fref_eqb r (M F_payload) = false -> getf r p' = getf r a3).
    { intros r Hr. unfold p'. destruct payload; [reflexivity|apply getf_setf_other; exact Hr]. }
    assert (Hnotmap : forall r, (forall e, In e publish_map -> eref e <> r) -> getf r a3 = getf r a2).
    { intros r Hr. unfold a3. apply apply_props_getf_other. apply publish_map_lookup_other. exact Hr. }
    assert (Nm : forall f, In f [F_fixed; F_topicName; F_packetID; F_payload] ->
                 forall e, In e publish_map -> eref e <> M f).
    { intros f Hf e He. unfold publish_map in He. cbn [In] in Hf, He.
      repeat (destruct Hf as [<-|Hf]; [repeat (destruct He as [<-|He]; [discriminate|]); contradiction|]).
      contradiction. }
    assert (Efx : getf (M F_fixed) p' = VN fx).
    { rewrite Hother by reflexivity. rewrite Hnotmap by (apply Nm; cbn; tauto). unfold a2. destruct c; reflexivity. }
    assert (Etopic : getf (M F_topicName) p' = VS topic).
    { rewrite Hother by reflexivity. rewrite Hnotmap by (apply Nm; cbn; tauto). unfold a2. destruct c; reflexivity. }
    assert (Epid : valN (getf (M F_packetID) p') = pidv).
    { rewrite Hother by reflexivity. rewrite Hnotmap by (apply Nm; cbn; tauto). unfold a2.
      destruct c eqn:Ecv; [reflexivity|].
      unfold pidv. destruct pid as [i|]; [|reflexivity]. destruct Hpid as [_ Hq0].
      rewrite (proj2 (N.eqb_neq _ _) Hq0) in Ec. discriminate Ec. }
    assert (Epl : valS (getf (M F_payload) p') = payload).
    { unfold p'. destruct payload; [|rewrite getf_setf_same; reflexivity].
      rewrite Hnotmap by (apply Nm; cbn; tauto). unfold a2. destruct c; reflexivity. }
    assert (Eu : uprops p' = pairs ps).
    { assert (E : uprops a3 = pairs ps) by (unfold a3; rewrite uprops_apply_props; unfold a2; destruct c; reflexivity).
      unfold p'. destruct payload; [exact E|rewrite uprops_setf; exact E]. }
    assert (Es : subids p' = vars11 ps).
    { assert (E : subids a3 = vars11 ps) by (unfold a3; rewrite (subids_apply_props _ _ _ _ Hok); unfold a2; destruct c; reflexivity).
      unfold p'. destruct payload; [exact E|rewrite subids_setf; exact E]. }
    assert (Hz2 : forall e, In e publish_map -> getf (eref e) a2 = VN 0).
    { intros e He. unfold publish_map in He. cbn [In] in He. unfold a2.
      repeat (destruct He as [<-|He]; [destruct c; reflexivity|]). contradiction. }
    unfold snapshot, snap_publish, frame_obs. cbn [af_body af_flags]. unfold oN, oB, oS, getN, getB, getS.
    rewrite Efx, Etopic, Epid, Epl, Eu, Es, oprops_pairs, pvars_vars11. cbn [valN valS].
    rewrite Bdup, Bret, Bqos.
    rewrite !Hother by reflexivity. unfold a3.
    rewrite (obs_bool publish_map false AddSub ps a2 Hnd Hok Hdup 1 (M F_payloadFormat)) by (reflexivity || discriminate || (unfold a2; destruct c; reflexivity)).
    rewrite (obs_num publish_map false AddSub ps a2 Hnd Hok Hdup 2 (M F_messageExpiryInterval) U32) by (reflexivity || discriminate || exact I || (unfold a2; destruct c; reflexivity)).
    rewrite (obs_num publish_map false AddSub ps a2 Hnd Hok Hdup 35 (M F_topicAlias) U16) by (reflexivity || discriminate || exact I || (unfold a2; destruct c; reflexivity)).
    rewrite (obs_str publish_map false AddSub ps a2 Hnd Hok Hdup 8 (M F_responseTopic)) by (reflexivity || discriminate || (unfold a2; destruct c; reflexivity)).
    rewrite (obs_str publish_map false AddSub ps a2 Hnd Hok Hdup 9 (M F_correlationData)) by (reflexivity || discriminate || (unfold a2; destruct c; reflexivity)).
    rewrite (obs_str publish_map false AddSub ps a2 Hnd Hok Hdup 3 (M F_contentType)) by (reflexivity || discriminate || (unfold a2; destruct c; reflexivity)).
    unfold pidv. reflexivity.
Qed.

(* ------------------------------------------------------------------ *)
(* CONNECT *)
Lemma table_connect : table_ok 1 connect_map false NoSub = true.
Proof. vm_compute. reflexivity. Qed.
Lemma table_will : table_ok 100 will_map true NoSub = true.
Proof. vm_compute. reflexivity. Qed.

Lemma getf_apply_other m will sm ps acc r :
  forallb (fun e => negb (fref_eqb r (eref e))) m = true ->
  getf r (apply_props m will sm ps acc) = getf r acc.
Proof.
  intros H. apply apply_props_getf_other. intros id r0 w0 Hl Er. subst r0.
  apply lookup_in_map in Hl. rewrite forallb_forall in H. specialize (H _ Hl). cbn [eref fst snd] in H.
  rewrite fref_eqb_refl in H. discriminate.
Qed.

Ltac getf_down2 :=
  repeat first
    [ rewrite getf_setf_same
    | rewrite getf_setf_other by reflexivity
    | rewrite getf_apply_other by reflexivity
    | rewrite getf_will_init_M ].

Definition will_block_s (wp : list aprop) (wt wpl : list byte) (a : pkt) : pkt :=
  let a7 := will_init a in
  let a8 := apply_props will_map true NoSub wp a7 in
  let a9 := setf (W F_topicName) (canon Bin (VS wt)) a8 in
  let a10 := setf (M F_willPayload) (canon Bin (VS wpl)) a9 in
  setf (W F_payload) (VS (getS (M F_willPayload) a10)) a10.

Definition will_bytes_s (w : awill) : list byte :=
  e_props (w_props w) ++ e_str (w_topic w) ++ e_str (w_payload w).

Lemma dif_will_spec_at w acc d pos rest steps :
  sprops_ok 100 (w_props w) -> len (e_props_raw (w_props w)) < 268435456 ->
  len (w_topic w) < 65536 -> len (w_payload w) < 65536 ->
  valS (getf (M F_willPayload) acc) = [] -> valN (getf (M F_willDelayInterval) acc) = 0 ->
  has (getN (M F_flags) acc) WillFlag = true ->
  at_pos d pos (will_bytes_s w ++ rest) ->
  exists steps',
    run_dec1 (DIf (CHas (M F_flags) WillFlag)
                  [DWillInit; DGetAny will_map true NoSub; DGet (W F_topicName) Bin;
                   DGet (M F_willPayload) Bin; DWillPayloadCopy]) (mk_state acc d pos steps) =
      Run (mk_state (will_block_s (w_props w) (w_topic w) (w_payload w) acc) d
                    (pos + length (will_bytes_s w)) steps')
    /\ at_pos d (pos + length (will_bytes_s w)) rest.
Proof.
  intros Hps HR Htopic Hwpl Hz Hzd Hc Hat. rewrite dif_step.
  change (eval_cond (CHas (M F_flags) WillFlag) (dp (mk_state acc d pos steps)) (env_of (mk_state acc d pos steps)))
    with (has (getN (M F_flags) acc) WillFlag). rewrite Hc.
  unfold will_bytes_s in *. rewrite (e_str_enc_bin _ Htopic), (e_str_enc_bin _ Hwpl) in *.
  pose proof (sprops_prop_ok _ will_map true NoSub _ table_will Hps) as Hok.
  pose proof (sprops_keyed _ _ Hps) as Hdup.
  set (wp := w_props w) in *. set (wtp := w_topic w) in *. set (wpl := w_payload w) in *.
  set (a7 := will_init acc).
  assert (D0 : run_dec1 DWillInit (mk_state acc d pos steps) = Run (mk_state a7 d pos steps)) by reflexivity.
  rewrite <- !app_assoc in Hat.
  destruct (dgetany_spec_at will_map true NoSub wp a7 d pos (enc_bin wtp ++ enc_bin wpl ++ rest) steps)
    as [st1 [D1 H1]]; try assumption; try reflexivity; try discriminate; try apply will_map_ok.
  { intros ap _ _ r w0 Hl Hb. apply lookup_in_map in Hl. unfold will_map in Hl. cbn [In] in Hl.
    destruct Hl as [Hl|Hl].
    - injection Hl as _ _ <-. discriminate Hb.
    - repeat (destruct Hl as [Hl|Hl]; [injection Hl as _ <- _; reflexivity|]). contradiction. }
  set (a8 := apply_props will_map true NoSub wp a7) in *.
  assert (Hw8 : hasWill a8 = true) by (unfold a8; rewrite hasWill_apply_props; reflexivity).
  destruct (dget_at (W F_topicName) Bin (VS wtp) a8 d (pos + length (e_props wp)) (enc_bin wpl ++ rest) st1)
    as [D2 H2]; try discriminate; try assumption.
  { intros _. right. unfold a8. rewrite getf_apply_other by reflexivity. reflexivity. }
  set (a9 := setf (W F_topicName) (canon Bin (VS wtp)) a8) in *.
  destruct (dget_at (M F_willPayload) Bin (VS wpl) a9 d
              (pos + length (e_props wp) + length (encode Bin (VS wtp))) rest (S st1)) as [D3 H3];
    try discriminate; try assumption; try exact I.
  { intros _. right. unfold a9, a8, a7. getf_down2. exact Hz. }
  set (a10 := setf (M F_willPayload) (canon Bin (VS wpl)) a9) in *.
  exists (S (S st1)). split.
  - cbn [run_dec]. rewrite D0, D1, D2, D3. cbn [run_dec1].
    assert (Hw10 : hasWill (dp (mk_state a10 d (pos + length (e_props wp) + length (encode Bin (VS wtp)) +
                     length (encode Bin (VS wpl))) (S (S st1)))) = true).
    { cbn [dp mk_state]. unfold a10, a9. rewrite !hasWill_setf. exact Hw8. }
    rewrite Hw10. unfold with_pkt, mk_state. cbn [dp ddata dpos derr dsteps].
    unfold will_block_s. cbv zeta. fold a7 a8 a9 a10. do 2 f_equal. rewrite !app_length. cbn [encode valS]. lia.
  - rewrite !app_length. cbn [encode valS] in H3. rewrite <- !Nat.add_assoc in *. exact H3.
Qed.

Lemma connect_flag_bits fl : fl < 256 ->
  has fl WillFlag = N.testbit fl 2 /\ has fl UsernameFlag = N.testbit fl 7 /\ has fl PasswordFlag = N.testbit fl 6
  /\ has fl CleanStart = N.testbit fl 1
  /\ ((fl / 8) mod 4 <> 3 ->
      has (will_fixed fl) DUP = false /\ has (will_fixed fl) RETAIN = N.testbit fl 5
      /\ qos_of_fixed (will_fixed fl) = (fl / 8) mod 4).
Proof.
  intros Hfl.
  assert (H : forallb (fun fl =>
     Bool.eqb (has fl WillFlag) (N.testbit fl 2) && Bool.eqb (has fl UsernameFlag) (N.testbit fl 7)
     && Bool.eqb (has fl PasswordFlag) (N.testbit fl 6) && Bool.eqb (has fl CleanStart) (N.testbit fl 1)
     && (((fl / 8) mod 4 =? 3) ||
         (negb (has (will_fixed fl) DUP) && Bool.eqb (has (will_fixed fl) RETAIN) (N.testbit fl 5)
          && (qos_of_fixed (will_fixed fl) =? (fl / 8) mod 4)))) all_N256 = true) by (vm_compute; reflexivity).
  pose proof (forall_N256 _ H fl Hfl) as H1. cbv beta in H1.
  apply andb_prop in H1 as [H1 H5]. apply andb_prop in H1 as [H1 H4]. apply andb_prop in H1 as [H1 H3].
  apply andb_prop in H1 as [H1 H2].
  split; [apply Bool.eqb_prop; exact H1|]. split; [apply Bool.eqb_prop; exact H2|].
  split; [apply Bool.eqb_prop; exact H3|]. split; [apply Bool.eqb_prop; exact H4|].
  intros Hq. rewrite (proj2 (N.eqb_neq _ _) Hq) in H5. cbn [orb] in H5.
  apply andb_prop in H5 as [H5 H8]. apply andb_prop in H5 as [H6 H7].
  split; [apply negb_true_iff; exact H6|]. split; [apply Bool.eqb_prop; exact H7|apply N.eqb_eq; exact H8].
Qed.

Definition opt_ok (o : option (list byte)) : Prop := match o with Some s => len s < 65536 | None => True end.

Record connect_frame_ok (flags ka : N) (ps : list aprop) (cid : list byte) (will : option awill)
       (user pass : option (list byte)) : Prop := {
  cf_flags : flags < 256;
  cf_wqos : (flags / 8) mod 4 <> 3;
  cf_ka : ka < 65536;
  cf_props : sprops_ok 1 ps /\ len (e_props_raw ps) < 268435456;
  cf_cid : len cid < 65536;
  cf_will : match will with
            | Some w => N.testbit flags 2 = true /\ sprops_ok 100 (w_props w)
                        /\ len (e_props_raw (w_props w)) < 268435456
                        /\ len (w_topic w) < 65536 /\ len (w_payload w) < 65536
            | None => N.testbit flags 2 = false
            end;
  cf_user : opt_ok user /\ (N.testbit flags 7 = match user with Some _ => true | None => false end);
  cf_pass : opt_ok pass /\ (N.testbit flags 6 = match pass with Some _ => true | None => false end)
}.

Lemma mqtt_name_bin : mqtt_name = enc_bin mqtt5.
Proof. reflexivity. Qed.

Theorem accept_connect flags ka ps cid will user pass :
  connect_frame_ok flags ka ps cid will user pass ->
  accepts {| af_type := 1; af_flags := 0; af_body := BConnect flags ka ps cid will user pass |}.
Proof.
  intros [Hfl Hwq Hka [Hps HR] Hcid Hwill [Hus Hub] [Hpa Hpb]].
  destruct (connect_flag_bits flags Hfl) as [Bw [Bu [Bp [Bc Bwill]]]].
  destruct (Bwill Hwq) as [Wdup [Wret Wqos]]. clear Bwill.
  pose proof (sprops_prop_ok _ connect_map false NoSub ps table_connect Hps) as Hok.
  pose proof (sprops_keyed _ ps Hps) as Hdup.
  assert (Hnd : nodup_refs connect_map = true) by apply connect_map_ok.
  set (fresh := setf (M F_fixed) (VN (ctor_fixed KConnect)) zero_pkt).
  set (a1 := setf (M F_protocolName) (canon Bin (VS mqtt5)) fresh).
  set (a2 := setf (M F_protocolVersion) (canon U8 (VN 5)) a1).
  set (a3 := setf (M F_flags) (canon U8 (VN flags)) a2).
  set (a4 := setf (M F_keepAlive) (canon U16 (VN ka)) a3).
  set (WILL := match will with Some w => will_bytes_s w | None => [] end).
  set (USER := e_opt user). set (PASS := e_opt pass).
  set (body := enc_bin mqtt5 ++ e_u8 5 ++ e_u8 flags ++ e_u16 ka ++ e_props ps ++ enc_bin cid ++ WILL ++ USER ++ PASS).
  assert (Ebody : e_body (BConnect flags ka ps cid will user pass) = body).
  { cbn [e_body]. rewrite mqtt_name_bin, (e_str_enc_bin cid Hcid). unfold body, WILL, will_bytes_s.
    destruct will; reflexivity. }
  destruct (dget_at (M F_protocolName) Bin (VS mqtt5) fresh body 0
              (e_u8 5 ++ e_u8 flags ++ e_u16 ka ++ e_props ps ++ enc_bin cid ++ WILL ++ USER ++ PASS) 0)
    as [D1 H1]; try discriminate; try exact I.
  { cbn. reflexivity. }
  { intros _. right. reflexivity. }
  { apply at_pos_0. }
  fold a1 in D1.
  destruct (dget_at (M F_protocolVersion) U8 (VN 5) a1 body (0 + length (encode Bin (VS mqtt5)))
              (e_u8 flags ++ e_u16 ka ++ e_props ps ++ enc_bin cid ++ WILL ++ USER ++ PASS) 1)
    as [D2 H2]; try discriminate; try exact I; try assumption.
  { cbn. reflexivity. }
  fold a2 in D2.
  destruct (dget_at (M F_flags) U8 (VN flags) a2 body
              (0 + length (encode Bin (VS mqtt5)) + length (encode U8 (VN 5)))
              (e_u16 ka ++ e_props ps ++ enc_bin cid ++ WILL ++ USER ++ PASS) 2)
    as [D3 H3]; try discriminate; try exact I; try assumption.
  fold a3 in D3.
  destruct (dget_at (M F_keepAlive) U16 (VN ka) a3 body
              (0 + length (encode Bin (VS mqtt5)) + length (encode U8 (VN 5)) + length (encode U8 (VN flags)))
              (e_props ps ++ enc_bin cid ++ WILL ++ USER ++ PASS) 3)
    as [D4 H4]; try discriminate; try exact I; try assumption.
  fold a4 in D4.
  set (pos4 := (0 + length (encode Bin (VS mqtt5)) + length (encode U8 (VN 5)) + length (encode U8 (VN flags))
                + length (encode U16 (VN ka)))%nat) in *.
  destruct (dgetany_spec_at connect_map false NoSub ps a4 body pos4 (enc_bin cid ++ WILL ++ USER ++ PASS) 4)
    as [st5 [D5 H5]]; try assumption; try reflexivity; try discriminate.
  { intros ap _ _ r w Hl _. apply lookup_in_map in Hl. unfold connect_map in Hl. cbn [In] in Hl.
    repeat (destruct Hl as [Hl|Hl]; [injection Hl as _ <- _; reflexivity|]). contradiction. }
  set (a5 := apply_props connect_map false NoSub ps a4) in *.
  set (pos5 := (pos4 + length (e_props ps))%nat) in *.
  destruct (dget_at (M F_clientID) Bin (VS cid) a5 body pos5 (WILL ++ USER ++ PASS) st5)
    as [D6 H6]; try discriminate; try exact I; try assumption.
  { intros _. right. unfold a5. getf_down2. reflexivity. }
  set (a6 := setf (M F_clientID) (canon Bin (VS cid)) a5) in *.
  set (pos6 := (pos5 + length (encode Bin (VS cid)))%nat) in *.
  assert (Hfl6 : getN (M F_flags) a6 = flags).
  { unfold getN, a6, a5. getf_down2. unfold a4. getf_down2. unfold a3. getf_down2. reflexivity. }
  (* the will *)
  set (aw := match will with
             | Some w => will_block_s (w_props w) (w_topic w) (w_payload w) a6
             | None => a6 end).
  assert (D7 : exists st7,
    run_dec1 (DIf (CHas (M F_flags) WillFlag)
                  [DWillInit; DGetAny will_map true NoSub; DGet (W F_topicName) Bin;
                   DGet (M F_willPayload) Bin; DWillPayloadCopy]) (mk_state a6 body pos6 (S st5)) =
      Run (mk_state aw body (pos6 + length WILL) st7)
    /\ at_pos body (pos6 + length WILL) (USER ++ PASS)).
  { unfold aw, WILL in *. destruct will as [w|].
    - destruct Hwill as [Hb2 [Hwps [HwR [Hwt Hwpl]]]].
      apply (dif_will_spec_at w a6 body pos6 (USER ++ PASS) (S st5)); try assumption.
      + unfold a6, a5. getf_down2. reflexivity.
      + unfold a6, a5. getf_down2. reflexivity.
      + rewrite Hfl6, Bw. exact Hb2.
    - exists (S st5). cbn [length]. rewrite Nat.add_0_r. split; [|exact H6].
      rewrite dif_step.
      change (eval_cond (CHas (M F_flags) WillFlag) (dp (mk_state a6 body pos6 (S st5)))
                        (env_of (mk_state a6 body pos6 (S st5)))) with (has (getN (M F_flags) a6) WillFlag).
      rewrite Hfl6, Bw, Hwill. reflexivity. }
  destruct D7 as [st7 [D7 H7]].
  set (pos7 := (pos6 + length WILL)%nat) in *.
  assert (Hflw : getN (M F_flags) aw = flags).
  { unfold aw. destruct will; [|exact Hfl6]. unfold getN, will_block_s. cbv zeta. getf_down2. exact Hfl6. }
  assert (Hzw : forall f, In f [F_username; F_password] -> valS (getf (M f) aw) = []).
  { intros f Hf. cbn [In] in Hf. unfold aw.
    destruct Hf as [<-|[<-|[]]]; (destruct will; [unfold will_block_s; cbv zeta|]; getf_down2;
      unfold a6, a5; getf_down2; reflexivity). }
  set (uv := match user with Some s => s | None => [] end).
  destruct (dif_bin_at UsernameFlag (M F_username) (VS uv) aw body pos7 PASS st7) as [st8 [D8 H8]].
  { unfold uv. cbn [valid_val valS]. destruct user; [exact Hus|reflexivity]. }
  { exact I. }
  { apply Hzw. cbn; tauto. }
  { rewrite Hflw, Bu, Hub. unfold USER, uv in *. destruct user as [s|]; cbn [e_opt] in *.
    - cbn [encode valS]. rewrite <- (e_str_enc_bin s Hus). exact H7.
    - exact H7. }
  rewrite Hflw, Bu, Hub in D8, H8.
  set (au := if match user with Some _ => true | None => false end
             then setf (M F_username) (canon Bin (VS uv)) aw else aw) in *.
  assert (EUSER : length (if match user with Some _ => true | None => false end then encode Bin (VS uv) else [])
                  = length USER).
  { unfold USER, uv. destruct user as [s|]; cbn [e_opt encode valS]; [rewrite (e_str_enc_bin s Hus)|]; reflexivity. }
  rewrite EUSER in D8, H8.
  set (pos8 := (pos7 + length USER)%nat) in *.
  assert (Hflu : getN (M F_flags) au = flags).
  { unfold au. destruct user; [|exact Hflw]. unfold getN. getf_down2. exact Hflw. }
  set (pv := match pass with Some s => s | None => [] end).
  destruct (dif_bin_at PasswordFlag (M F_password) (VS pv) au body pos8 [] st8) as [st9 [D9 H9]].
  { unfold pv. cbn [valid_val valS]. destruct pass; [exact Hpa|reflexivity]. }
  { exact I. }
  { unfold au. destruct user; getf_down2; apply Hzw; cbn; tauto. }
  { rewrite Hflu, Bp, Hpb, app_nil_r. unfold PASS, pv in *. destruct pass as [s|]; cbn [e_opt] in *.
    - cbn [encode valS]. rewrite <- (e_str_enc_bin s Hpa). exact H8.
    - exact H8. }
  rewrite Hflu, Bp, Hpb in D9.
  set (p' := if match pass with Some _ => true | None => false end
             then setf (M F_password) (canon Bin (VS pv)) au else au) in *.
  assert (Hdec : unmarshal KConnect fresh body = UOk p').
  { eapply unmarshal_of_run. cbn [dec_of]. unfold dec_connect.
    rewrite (run_dec_cons _ _ _ _ D1), (run_dec_cons _ _ _ _ D2), (run_dec_cons _ _ _ _ D3),
            (run_dec_cons _ _ _ _ D4), (run_dec_cons _ _ _ _ D5), (run_dec_cons _ _ _ _ D6),
            (run_dec_cons _ _ _ _ D7), (run_dec_cons _ _ _ _ D8), (run_dec_cons _ _ _ _ D9). reflexivity. }
  (* values *)
  assert (T : Forall (fun r => getf r p' = getf r a6)
            ([M F_fixed; M F_protocolName; M F_protocolVersion; M F_flags; M F_keepAlive; M F_clientID]
             ++ map fst (refs_of connect_map))).
  { unfold refs_of, connect_map. cbn [map app eref ewt fst snd].
    repeat (apply Forall_cons; [unfold p', au, aw; destruct pass, user, will;
                                try (unfold will_block_s; cbv zeta); getf_down2; reflexivity|]).
    apply Forall_nil. }
  cbn [map app refs_of connect_map eref ewt fst snd] in T.
  repeat match goal with H : Forall _ (_ :: _) |- _ =>
    let H1 := fresh "T" in pose proof (Forall_inv H) as H1; cbv beta in H1; apply Forall_inv_tail in H end.
  clear T.
  assert (Eflags : getf (M F_flags) a6 = VN flags) by (unfold a6, a5; getf_down2; reflexivity).
  assert (Ever : getf (M F_protocolVersion) a6 = VN 5) by (unfold a6, a5; getf_down2; reflexivity).
  assert (Ename : getf (M F_protocolName) a6 = VS mqtt5) by (unfold a6, a5; getf_down2; reflexivity).
  assert (Eka : getf (M F_keepAlive) a6 = VN ka) by (unfold a6, a5; getf_down2; reflexivity).
  assert (Ecid : getf (M F_clientID) a6 = VS cid) by (unfold a6; getf_down2; reflexivity).
  assert (Emap : forall f, getf (M f) a6 = getf (M f) a5 \/ f = F_clientID).
  { intros f. destruct (fld_eqb f F_clientID) eqn:E; [right; apply fld_eqb_true; exact E|left].
    unfold a6. apply getf_setf_other. exact E. }
  assert (Euser : OS (valS (getf (M F_username) p')) = opt_s user).
  { assert (E : getf (M F_username) p' = getf (M F_username) au)
      by (unfold p'; destruct pass; getf_down2; reflexivity).
    rewrite E. unfold au, uv. destruct user as [s|]; [getf_down2; reflexivity|].
    rewrite Hzw by (cbn; tauto). reflexivity. }
  assert (Epass : OS (valS (getf (M F_password) p')) = opt_s pass).
  { unfold p', pv. destruct pass as [s|]; [getf_down2; reflexivity|].
    assert (E : valS (getf (M F_password) au) = []).
    { unfold au. destruct user; getf_down2; apply Hzw; cbn; tauto. }
    rewrite E. reflexivity. }
  assert (Eu : uprops p' = pairs ps).
  { assert (E6 : uprops a6 = pairs ps).
    { unfold a6. rewrite uprops_setf. unfold a5. rewrite uprops_apply_props. reflexivity. }
    assert (Ew : uprops aw = pairs ps).
    { unfold aw. destruct will; [|exact E6]. unfold will_block_s. cbv zeta.
      rewrite !uprops_setf, uprops_apply_props. exact E6. }
    unfold p', au. destruct pass, user; rewrite ?uprops_setf; exact Ew. }
  assert (Hthru_w : forall f, getf (W f) p' = getf (W f) aw).
  { intros f. unfold p', au. destruct pass, user; reflexivity. }
  assert (Ehw : hasWill p' = match will with Some _ => true | None => false end).
  { assert (Ew : hasWill aw = match will with Some _ => true | None => false end).
    { unfold aw. destruct will.
      - unfold will_block_s. cbv zeta. rewrite !hasWill_setf, hasWill_apply_props. reflexivity.
      - unfold a6. rewrite hasWill_setf. unfold a5. rewrite hasWill_apply_props. reflexivity. }
    unfold p', au. destruct pass, user; rewrite ?hasWill_setf; exact Ew. }
  assert (Edelay : ON (valN (getf (M F_willDelayInterval) p')) =
                   match will with Some w => pnum 24 (w_props w) | None => ON 0 end).
  { assert (E : getf (M F_willDelayInterval) p' = getf (M F_willDelayInterval) aw)
      by (unfold p', au; destruct pass, user; getf_down2; reflexivity).
    rewrite E. unfold aw. destruct will as [w|].
    - destruct Hwill as [_ [Hwps _]].
      pose proof (sprops_prop_ok _ will_map true NoSub _ table_will Hwps) as Hokw.
      pose proof (sprops_keyed _ _ Hwps) as Hdupw.
      unfold will_block_s. cbv zeta. getf_down2.
      apply (obs_num will_map true NoSub (w_props w) (will_init a6) (proj2 (proj2 will_map_ok)) Hokw Hdupw
                     24 (M F_willDelayInterval) U32); try reflexivity; try discriminate; try exact I.
      rewrite getf_will_init_M. unfold a6, a5. getf_down2. reflexivity.
    - unfold a6, a5. getf_down2. reflexivity. }
  apply (accepts_intro _ KConnect fresh p'); [reflexivity| |reflexivity|].
  { cbn [af_body]. rewrite Ebody.
    assert (Hne : body <> []) by (unfold body, enc_bin, enc_u16; cbn [app]; discriminate).
    destruct body as [|b0 body0] eqn:Eb; [congruence|]. exact Hdec. }
  unfold snapshot, frame_obs. cbn [af_body]. unfold oN, oB, oS, getN, getB, getS.
  rewrite Euser, Epass, Eu, Edelay, Ehw, oprops_pairs.
  repeat match goal with H : getf ?r p' = getf ?r a6 |- _ => rewrite H; clear H end.
  rewrite Eflags, Ever, Ename, Eka, Ecid. cbn [valN valS]. rewrite Bc.
  assert (Hm5 : forall f, f <> F_clientID -> getf (M f) a6 = getf (M f) a5).
  { intros f Hf. destruct (Emap f) as [E|E]; [exact E|contradiction]. }
  rewrite !Hm5 by discriminate. unfold a5.
  rewrite (obs_num connect_map false NoSub ps a4 Hnd Hok Hdup 17 (M F_sessionExpiryInterval) U32) by (reflexivity || discriminate || exact I).
  rewrite (obs_num connect_map false NoSub ps a4 Hnd Hok Hdup 33 (M F_receiveMax) U16) by (reflexivity || discriminate || exact I).
  rewrite (obs_num connect_map false NoSub ps a4 Hnd Hok Hdup 39 (M F_maxPacketSize) U32) by (reflexivity || discriminate || exact I).
  rewrite (obs_num connect_map false NoSub ps a4 Hnd Hok Hdup 34 (M F_topicAliasMax) U16) by (reflexivity || discriminate || exact I).
  rewrite (obs_bool connect_map false NoSub ps a4 Hnd Hok Hdup 25 (M F_requestResponseInfo)) by (reflexivity || discriminate).
  rewrite (obs_bool connect_map false NoSub ps a4 Hnd Hok Hdup 23 (M F_requestProblemInfo)) by (reflexivity || discriminate).
  rewrite (obs_str connect_map false NoSub ps a4 Hnd Hok Hdup 21 (M F_authMethod)) by (reflexivity || discriminate).
  rewrite (obs_str connect_map false NoSub ps a4 Hnd Hok Hdup 22 (M F_authData)) by (reflexivity || discriminate).
  destruct will as [w|]; [|reflexivity].
  (* the will message *)
  destruct Hwill as [_ [Hwps [_ [Hwt Hwpl]]]].
  pose proof (sprops_prop_ok _ will_map true NoSub _ table_will Hwps) as Hokw.
  pose proof (sprops_keyed _ _ Hwps) as Hdupw.
  assert (Hndw : nodup_refs will_map = true) by apply will_map_ok.
  unfold snap_publish, will_pkt, oN, oB, oS, getN, getB, getS, getf. cbn [vals uprops subids].
  change (wvals p') with (fun f => getf (W f) p'). cbv beta. rewrite !Hthru_w.
  assert (Ewu : wuprops p' = pairs (w_props w)).
  { assert (E : wuprops p' = wuprops aw) by (unfold p', au; destruct pass, user; rewrite ?wuprops_setf; reflexivity).
    rewrite E. unfold aw, will_block_s. cbv zeta. rewrite !wuprops_setf, wuprops_apply_props. reflexivity. }
  assert (Ews : wsubids p' = []).
  { assert (E : wsubids p' = wsubids aw) by (unfold p', au; destruct pass, user; rewrite ?wsubids_setf; reflexivity).
    rewrite E. unfold aw, will_block_s. cbv zeta. rewrite !wsubids_setf.
    rewrite (proj_apply_props _ wsubids wsubids_setf); [reflexivity| | |]; intros; try reflexivity.
    apply append_ups_other. }
  rewrite Ewu, Ews, oprops_pairs.
  unfold aw, will_block_s. cbv zeta.
  assert (Efx : getf (W F_fixed) (will_init a6) = VN (will_fixed flags)).
  { rewrite getf_will_init_W, Hfl6. reflexivity. }
  getf_down2. unfold getS. getf_down2. rewrite Efx. cbn [valN valS canon]. rewrite Wdup, Wret, Wqos.
  rewrite (obs_bool will_map true NoSub (w_props w) (will_init a6) Hndw Hokw Hdupw 1 (W F_payloadFormat)) by (reflexivity || discriminate).
  rewrite (obs_num will_map true NoSub (w_props w) (will_init a6) Hndw Hokw Hdupw 2 (W F_messageExpiryInterval) U32) by (reflexivity || discriminate || exact I).
  rewrite (obs_str will_map true NoSub (w_props w) (will_init a6) Hndw Hokw Hdupw 8 (W F_responseTopic)) by (reflexivity || discriminate).
  rewrite (obs_str will_map true NoSub (w_props w) (will_init a6) Hndw Hokw Hdupw 9 (W F_correlationData)) by (reflexivity || discriminate).
  rewrite (obs_str will_map true NoSub (w_props w) (will_init a6) Hndw Hokw Hdupw 3 (W F_contentType)) by (reflexivity || discriminate).
  rewrite (getf_apply_other will_map true NoSub (w_props w) (will_init a6) (W F_topicAlias)) by reflexivity.
  rewrite !getf_will_init_W. cbn [upd fld_eqb fld_idx N.eqb Pos.eqb no_vals valN].
  reflexivity.
Qed.

(* ------------------------------------------------------------------ *)
(* PINGREQ, PINGRESP *)
Theorem accept_ping t : t = 12 \/ t = 13 -> accepts {| af_type := t; af_flags := 0; af_body := BPing |}.
Proof.
  intros [-> | ->].
  - apply (accepts_intro _ KPingReq (setf (M F_fixed) (VN 192) zero_pkt) (setf (M F_fixed) (VN 192) zero_pkt)); reflexivity.
  - apply (accepts_intro _ KPingResp (setf (M F_fixed) (VN 208) zero_pkt) (setf (M F_fixed) (VN 208) zero_pkt)); reflexivity.
Qed.

(* ------------------------------------------------------------------ *)
(* The valid frames, in the specification's terms.  The only restriction
   that is the library's and not the specification's is the last clause of
   DISCONNECT (known finding D13). *)
Definition frame_ok (f : aframe) : Prop :=
  let t := af_type f in
  let fl := af_flags f in
  match af_body f with
  | BConnect flags ka ps cid will user pass =>
      t = 1 /\ fl = 0 /\ connect_frame_ok flags ka ps cid will user pass
  | BConnack a rc ps =>
      t = 2 /\ fl = 0 /\ a <= 1 /\ rc < 256 /\ sprops_ok 2 ps /\ len (e_props_raw ps) < 268435456
  | BPublish topic pid ps payload =>
      t = 3 /\ fl < 16 /\ (fl / 2) mod 4 <> 3 /\ len topic < 65536
      /\ match pid with Some i => i < 65536 /\ (fl / 2) mod 4 <> 0 | None => (fl / 2) mod 4 = 0 end
      /\ sprops_ok 3 ps /\ len (e_props_raw ps) < 268435456
  | BAck pid form rc ps =>
      (t = 4 \/ t = 5 \/ t = 6 \/ t = 7) /\ fl = (if t =? 6 then 2 else 0)
      /\ pid < 65536 /\ rc < 256 /\ ack_frame_ok form rc ps t
  | BSubscribe pid ps fs =>
      t = 8 /\ fl = 2 /\ pid < 65536 /\ sprops_ok 8 ps /\ len (e_props_raw ps) < 268435456
      /\ Forall filter_ok fs
  | BSuback pid ps codes =>
      (t = 9 \/ t = 11) /\ fl = 0 /\ pid < 65536 /\ sprops_ok t ps /\ len (e_props_raw ps) < 268435456
      /\ Forall (fun n => n < 256) codes
  | BUnsubscribe pid ps fs =>
      t = 10 /\ fl = 2 /\ pid < 65536 /\ sprops_ok 10 ps /\ len (e_props_raw ps) < 268435456
      /\ Forall (fun f => len f < 65536) fs
  | BPing => (t = 12 \/ t = 13) /\ fl = 0
  | BDisc form rc ps => (t = 14 \/ t = 15) /\ fl = 0 /\ rc < 256 /\ disc_frame_ok t form rc ps
  end.

Theorem accepts_all f : frame_ok f -> accepts f.
Proof.
  destruct f as [t fl b]. unfold frame_ok. cbn [af_type af_flags af_body].
  destruct b as [flags ka ps cid will user pass|a rc ps|topic pid ps payload|pid form rc ps|pid ps fs|pid ps codes
                |pid ps fs| |form rc ps].
  - intros [-> [-> H]]. apply accept_connect. exact H.
  - intros [-> [-> [H1 [H2 [H3 H4]]]]]. apply accept_connack; assumption.
  - intros [-> [H1 [H2 [H3 [H4 [H5 H6]]]]]]. apply accept_publish; assumption.
  - intros [Ht [-> [H1 [H2 H3]]]].
    destruct Ht as [-> |[-> |[-> | ->]]].
    + apply (accept_ack KPubAck); try assumption; reflexivity.
    + apply (accept_ack KPubRec); try assumption; reflexivity.
    + apply (accept_ack KPubRel); try assumption; reflexivity.
    + apply (accept_ack KPubComp); try assumption; reflexivity.
  - intros [-> [-> [H1 [H2 [H3 H4]]]]]. apply accept_subscribe; assumption.
  - intros [Ht [-> [H1 [H2 [H3 H4]]]]]. destruct Ht as [-> | ->].
    + apply (accept_suback KSubAck); try assumption; reflexivity.
    + apply (accept_suback KUnsubAck); try assumption; reflexivity.
  - intros [-> [-> [H1 [H2 [H3 H4]]]]]. apply accept_unsubscribe; assumption.
  - intros [Ht ->]. apply accept_ping. exact Ht.
  - intros [Ht [-> [H1 H2]]]. destruct Ht as [-> | ->].
    + apply accept_disconnect; assumption.
    + apply accept_auth; assumption.
Qed.
