(* Running the regenerated statement list of buffer.get is Codec.get_with. *)
From MQ Require Import Model.BufIR.
From Coq Require Import String Lia Arith.
Local Open Scope nat_scope.

Section GetP.
Context {A : Type} (dc : list byte -> outcome A) (wd : A -> nat).

Lemma gexec_list_inner l : forall s,
  (fix gexec_list (l : list gs) (s : gst) : option (@gflow A) :=
     match l with
     | [] => Some (GNext s)
     | st' :: l' => match gexec dc wd st' s with Some (GNext s') => gexec_list l' s' | r => r end
     end) l s = gexec_list dc wd l s.
Proof.
  induction l as [|a l IH]; intros s; [reflexivity|].
  cbn [gexec_list]. destruct (gexec dc wd a s) as [[s'|s']|]; first [reflexivity | apply IH].
Qed.

Lemma gexec_if c body s :
  gexec dc wd (G_if c body) s = if ev_gc s c then gexec_list dc wd body s else Some (GNext s).
Proof. cbn [gexec]. destruct (ev_gc s c); [apply gexec_list_inner|reflexivity]. Qed.

Lemma gexec_unm body s :
  gexec dc wd (G_if_unmarshal_err body) s =
  if Nat.ltb (List.length (ddata (fst s))) (dpos (fst s)) then None
  else match dc (skipn (dpos (fst s)) (ddata (fst s))) with
       | Panic => None
       | Err e => gexec_list dc wd body (with_err e (fst s), snd s)
       | Ok v => Some (GNext (clear_err (fst s), Some v))
       end.
Proof.
  cbn [gexec]. destruct (Nat.ltb _ _); [reflexivity|].
  destruct (dc _); first [reflexivity | apply gexec_list_inner].
Qed.

Lemma gexec_adv s :
  gexec dc wd G_adv_width s =
  match snd s with Some v => Some (GNext (advance (wd v) (fst s), snd s)) | None => None end.
Proof. reflexivity. Qed.

Theorem get_is_prog (s0 : dstate) : run_get dc wd get_prog s0 = get_with dc wd s0.
Proof.
  destruct s0 as [p data pos e steps]. unfold run_get, get_with, get_prog, tick.
  cbn [derr ddata dpos dp dsteps].
  cbn [gexec_list]. rewrite gexec_if. cbn [ev_gc fst snd derr].
  destruct e as [e|]; [reflexivity|].
  rewrite gexec_if. cbn [ev_gc fst snd ddata dpos].
  destruct (Nat.leb (List.length data) pos) eqn:Hle; [reflexivity|].
  rewrite gexec_unm. cbn [fst snd ddata dpos].
  apply Nat.leb_gt in Hle.
  destruct (Nat.ltb (List.length data) pos) eqn:Hlt; [apply Nat.ltb_lt in Hlt; lia|].
  destruct (dc (skipn pos data)) as [v|e|]; [|reflexivity|reflexivity].
  cbn beta iota. rewrite gexec_adv. cbn [fst snd]. cbn beta iota.
  rewrite gexec_if. cbn [ev_gc fst snd ddata dpos advance clear_err].
  destruct (Nat.ltb (List.length data) (pos + wd v)); reflexivity.
Qed.
End GetP.

(* b.get(&field) for a field of wire type w, all of it from regenerated code:
   the statement list of buffer.get run with the statement list of
   T.UnmarshalBinary as the decoder and the value Wire.width (the run of
   T.width, Proofs/WireIRP.v) as the width - is Codec.get_val *)
From MQ Require Import Proofs.WireDecIRP.

Lemma get_with_ext {A} (dc1 dc2 : list byte -> outcome A) wd s :
  (forall d, dc1 d = dc2 d) -> get_with dc1 wd s = get_with dc2 wd s.
Proof. intros H. unfold get_with. rewrite H. reflexivity. Qed.

Theorem get_val_is_progs w old s :
  run_get (fun d => lift (value_of w) (run_wdec (dprog_of w) (wv_of w old) d)) (Wire.width w) get_prog s
  = get_val w old s.
Proof.
  rewrite get_is_prog. unfold get_val. apply get_with_ext. intros d. apply wire_dec_is_prog.
Qed.
