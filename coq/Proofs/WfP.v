(* WellFormed decides exactly the documented rules (C17). *)
From MQ Require Import Model.Api Proofs.BytesP.
From Coq Require Import ZArith Lia ZifyN ZifyNat ZifyBool.

Definition topic_empty (p : pkt) : Prop := getS (M F_topicName) p = [].
Definition qos (p : pkt) : N := qos_of_fixed (getN (M F_fixed) p).

Lemma wf_publish_iff p :
  wf_publish p <> None <->
  (topic_empty p /\ getN (M F_topicAlias) p = 0)
  \/ ((qos p = 1 \/ qos p = 2) /\ getN (M F_packetID) p = 0)
  \/ qos p = 3.
Proof.
  unfold wf_publish, topic_empty, qos.
  set (q := qos_of_fixed (getN (M F_fixed) p)).
  assert (Hq : q = 0 \/ q = 1 \/ q = 2 \/ q = 3).
  { unfold q, qos_of_fixed. repeat match goal with |- context [if ?c then _ else _] => destruct c end; auto. }
  destruct (getS (M F_topicName) p) as [|x t] eqn:Et; cbn [andb];
    destruct (N.eqb_spec (getN (M F_topicAlias) p) 0) as [Ea|Ea];
    destruct (N.eqb_spec (getN (M F_packetID) p) 0) as [Ep|Ep];
    destruct Hq as [Hq|[Hq|[Hq|Hq]]]; rewrite Hq; cbn;
    (split; [intros H; try congruence; auto; try (right; left; split; auto; fail); try (right; right; reflexivity)
            |intros [[H1 H2]|[[[H1|H1] H2]|H1]]; try discriminate; try congruence]).
Qed.

Lemma wf_filter_iff f : wf_filter f <> None <-> fst f = [] \/ N.land (snd f) 3 = 3.
Proof.
  unfold wf_filter, has, OptQoS3. destruct (fst f) as [|x t].
  - split; [left; reflexivity|discriminate].
  - destruct (N.eqb_spec (N.land (snd f) 3) 3) as [E|E].
    + split; [right; exact E|discriminate].
    + split; [congruence|intros [H|H]; [discriminate|contradiction]].
Qed.

Lemma wf_filters_iff l : wf_filters l <> None <-> Exists (fun f => wf_filter f <> None) l.
Proof.
  induction l as [|f l IH]; cbn.
  - split; [congruence|intros H; inversion H].
  - destruct (wf_filter f) eqn:E.
    + split; [intros _; left; congruence|discriminate].
    + rewrite IH. split; [intros H; right; exact H|intros H; inversion H; [congruence|assumption]].
Qed.

Lemma wf_subscribe_iff p :
  wf_subscribe p <> None <->
  filters p = [] \/ (exists v, subid p = Some v /\ 268435455 < v)
  \/ Exists (fun f => wf_filter f <> None) (filters p).
Proof.
  unfold wf_subscribe. destruct (filters p) as [|f l] eqn:Ef.
  - split; [left; reflexivity|discriminate].
  - destruct (subid p) as [v|].
    + destruct (N.ltb_spec 268435455 v).
      * split; [intros _; right; left; exists v; auto|discriminate].
      * rewrite wf_filters_iff. split; [intros H0; right; right; exact H0|].
        intros [H0|[[v' [Q1 Q2]]|H0]]; [discriminate H0| |exact H0].
        injection Q1 as <-. lia.
    + rewrite wf_filters_iff. split; [intros H0; right; right; exact H0|].
      intros [H0|[[v' [Q1 Q2]]|H0]]; [discriminate H0|discriminate|exact H0].
Qed.
