(* C05: a decoded packet never holds more list elements (user properties,
   subscription identifiers, topic filters, reason codes) than the frame
   has bytes: every append is paid for by a byte of input, except the one an
   exiting filter loop makes after an error - and then no packet is
   returned. *)
From MQ Require Import Model.Codec Proofs.BytesP Proofs.WireP Proofs.DecP.
From Coq Require Import ZArith Lia ZifyN ZifyNat ZifyBool.

Definition lsize (p : pkt) : nat :=
  (length (filters p) + length (ufilters p) + length (rcodes p) + length (uprops p)
   + length (wuprops p) + length (subids p) + length (wsubids p))%nat.

Lemma lsize_setf r v p : lsize (setf r v p) = lsize p.
Proof. destruct r; reflexivity. Qed.

(* data unchanged, position within the data and not moved back, and the
   lists grew by no more than the position advanced *)
Definition postL (s : dstate) (r : res) : Prop :=
  match r with
  | Run s' => (dpos s' <= length (ddata s'))%nat /\ ddata s' = ddata s /\ (dpos s <= dpos s')%nat
              /\ (lsize (dp s') + dpos s <= lsize (dp s) + dpos s')%nat
  | _ => True
  end.

Lemma postL_trans s s1 r :
  ddata s1 = ddata s -> (dpos s <= dpos s1)%nat ->
  (lsize (dp s1) + dpos s <= lsize (dp s) + dpos s1)%nat ->
  postL s1 r -> postL s r.
Proof.
  intros Hd Hp Hl. destruct r as [s'| |]; cbn; auto.
  intros [I [D [P L]]]. split; [exact I|]. split; [congruence|]. split; lia.
Qed.

Lemma postL_refl s : (dpos s <= length (ddata s))%nat -> postL s (Run s).
Proof. intros H. cbn. split; [exact H|]. split; [reflexivity|]. split; lia. Qed.

Lemma get_postL r t s : (dpos s <= length (ddata s))%nat -> postL s (get r t s).
Proof.
  intros Hp. unfold get. destruct (getf_opt r (dp s)) as [old|]; [|exact I].
  pose proof (get_val_spec t old s) as G.
  destruct (get_val t old s) as [v s'|s'|]; [| |contradiction];
    destruct G as [[Gp Gd Gs Gl] _]; specialize (Gl Hp); cbn [postL dp ddata dpos with_pkt];
    rewrite ?lsize_setf, Gp, Gd; repeat split; lia.
Qed.

Lemma lsize_add_uprop will kv p p' : add_uprop will kv p = Some p' -> lsize p' = S (lsize p).
Proof.
  unfold add_uprop. destruct will; [destruct (hasWill p); [|discriminate]|]; intros H; injection H as <-;
    unfold lsize; cbn [filters ufilters rcodes uprops wuprops subids wsubids set_uprops set_wuprops];
    rewrite app_length; cbn [length]; lia.
Qed.

Lemma getany_loop_L : forall fuel m will sm endp id s,
  (dpos s <= length (ddata s))%nat ->
  postL s (getany_loop fuel m will sm endp id s).
Proof.
  induction fuel as [|fuel IH]; intros m will sm endp id s Hp; [exact I|].
  cbn [getany_loop].
  destruct (N.of_nat (dpos s) <? endp); [|apply postL_refl; exact Hp].
  pose proof (get_val_spec U8 (VN id) s) as G.
  destruct (get_val U8 (VN id) s) as [v s1|s1|]; [| |contradiction].
  2:{ destruct G as [[Gp Gd Gs Gl] _]. specialize (Gl Hp). cbn. rewrite Gp, Gd. repeat split; lia. }
  destruct G as [[Gp Gd Gs Gl] [He [Hlt [_ [Hpos1 Hpos2]]]]]. specialize (Gl Hp).
  assert (Hadv : (dpos s < dpos s1)%nat).
  { destruct (derr s1) eqn:E1.
    - rewrite Hpos2 by discriminate. lia.
    - rewrite Hpos1 by reflexivity. rewrite width_u8_1. lia. }
  assert (Hp1 : (dpos s1 <= length (ddata s1))%nat) by (rewrite Gd; lia).
  (* continuing from a state reached from s1 whose lists grew by at most one *)
  assert (K : forall s2 id', (dpos s2 <= length (ddata s2))%nat -> ddata s2 = ddata s1 ->
               (dpos s1 <= dpos s2)%nat -> (lsize (dp s2) + dpos s1 <= S (lsize (dp s)) + dpos s2)%nat ->
               postL s (getany_loop fuel m will sm endp id' s2)).
  { intros s2 id' I2 D2 P2 L2.
    apply (postL_trans s s2); [congruence|lia|lia|]. apply IH. exact I2. }
  set (idv := valN v).
  destruct (match sm with
            | SubOpt => if idv =? SubscriptionID then None else lookup_prop m idv
            | _ => lookup_prop m idv end) as [[r t]|].
  - pose proof (get_postL r t s1 Hp1) as P.
    destruct (get r t s1) as [s2| |]; [|exact I|exact I].
    cbn [postL] in P. destruct P as [I2 [D2 [P2 L2]]]. apply K; try assumption. rewrite Gp in L2. lia.
  - destruct (match sm with SubOpt => idv =? SubscriptionID | _ => false end).
    + set (s1' := with_pkt (set_subid (dp s1) (Some 0)) s1).
      assert (Hp1' : (dpos s1' <= length (ddata s1'))%nat) by exact Hp1.
      assert (Ls1' : lsize (dp s1') = lsize (dp s)) by (unfold s1'; cbn [dp with_pkt]; rewrite Gp; reflexivity).
      pose proof (get_val_spec Vb (VN 0) s1') as G2.
      destruct (get_val Vb (VN 0) s1') as [v2 s2|s2|]; [| |contradiction];
        destruct G2 as [[Gp2 Gd2 Gs2 Gl2] _]; specialize (Gl2 Hp1').
      * apply K.
        -- cbn [ddata dpos with_pkt]. rewrite Gd2. lia.
        -- cbn [ddata with_pkt]. exact Gd2.
        -- cbn [dpos with_pkt]. change (dpos s1') with (dpos s1) in Gl2. lia.
        -- cbn [dp dpos with_pkt]. change (dpos s1') with (dpos s1) in Gl2.
           assert (E : lsize (set_subid (dp s2) (Some (valN v2))) = lsize (dp s2)) by reflexivity.
           rewrite E, Gp2, Ls1'. lia.
      * apply K.
        -- rewrite Gd2. lia.
        -- exact Gd2.
        -- change (dpos s1') with (dpos s1) in Gl2. lia.
        -- change (dpos s1') with (dpos s1) in Gl2. rewrite Gp2, Ls1'. lia.
    + destruct (idv =? UserProperty).
      * pose proof (get_up_spec s1) as G2.
        destruct (get_with dec_userprop width_userprop s1) as [kv s2|s2|]; [| |contradiction];
          destruct G2 as [[Gp2 Gd2 Gs2 Gl2] _]; specialize (Gl2 Hp1);
          (destruct (add_uprop will _ (dp s2)) as [p'|] eqn:Ea; [|exact I]);
          (apply K; [cbn [ddata dpos with_pkt]; rewrite Gd2; lia|cbn [ddata with_pkt]; exact Gd2
                    |cbn [dpos with_pkt]; lia|]);
          cbn [dp dpos with_pkt]; rewrite (lsize_add_uprop _ _ _ _ Ea), Gp2, Gp; lia.
      * destruct (idv =? SubscriptionID).
        -- pose proof (get_val_spec Vb (VN 0) s1) as G2.
           assert (Esub : forall q n, lsize (set_subids q (subids q ++ [n])) = S (lsize q)).
           { intros q n. unfold lsize. cbn [filters ufilters rcodes uprops wuprops subids wsubids set_subids].
             rewrite app_length. cbn [length]. lia. }
           destruct (get_val Vb (VN 0) s1) as [v2 s2|s2|]; [| |contradiction];
             destruct G2 as [[Gp2 Gd2 Gs2 Gl2] _]; specialize (Gl2 Hp1);
             destruct sm;
             (apply K; [cbn [ddata dpos with_pkt]; rewrite ?Gd2; lia|cbn [ddata with_pkt]; exact Gd2
                       |cbn [dpos with_pkt]; lia|]);
             cbn [dp dpos with_pkt]; rewrite ?Esub, Gp2, Gp; lia.
        -- apply K; [cbn [ddata dpos with_err]; exact Hp1|reflexivity|cbn; lia|cbn [dp dpos with_err]; rewrite Gp; lia].
Qed.

Lemma getany_L m will sm s : (dpos s <= length (ddata s))%nat -> postL s (getany m will sm s).
Proof.
  intros Hp. unfold getany. destruct (at_end s); [apply postL_refl; exact Hp|].
  pose proof (get_val_spec Vb (VN 0) s) as G.
  destruct (get_val Vb (VN 0) s) as [v s1|s1|]; [| |contradiction];
    destruct G as [[Gp Gd Gs Gl] _]; specialize (Gl Hp);
    (apply (postL_trans s s1); [exact Gd|lia|rewrite Gp; lia|]); apply getany_loop_L; rewrite Gd; lia.
Qed.

(* the filter loops: every append is paid for, except one made while leaving
   with an error *)
Definition postE (s : dstate) (r : res) : Prop :=
  match r with
  | Run s' => (dpos s' <= length (ddata s'))%nat /\ ddata s' = ddata s /\ (dpos s <= dpos s')%nat
              /\ (lsize (dp s') + dpos s <= lsize (dp s) + dpos s' + (match derr s' with Some _ => 1 | None => 0 end))%nat
  | _ => True
  end.

Lemma postE_trans s s1 r :
  ddata s1 = ddata s -> (dpos s <= dpos s1)%nat ->
  (lsize (dp s1) + dpos s <= lsize (dp s) + dpos s1)%nat ->
  postE s1 r -> postE s r.
Proof.
  intros Hd Hp Hl. destruct r as [s'| |]; cbn; auto.
  intros [I [D [P L]]]. split; [exact I|]. split; [congruence|]. split; lia.
Qed.

Lemma postE_refl s : (dpos s <= length (ddata s))%nat -> postE s (Run s).
Proof. intros H. cbn. split; [exact H|]. split; [reflexivity|]. split; [lia|]. destruct (derr s); lia. Qed.

Lemma lsize_filters q l : (lsize (set_filters q l) + length (filters q) = lsize q + length l)%nat.
Proof. unfold lsize. cbn [filters ufilters rcodes uprops wuprops subids wsubids set_filters]. lia. Qed.
Lemma lsize_ufilters q l : (lsize (set_ufilters q l) + length (ufilters q) = lsize q + length l)%nat.
Proof. unfold lsize. cbn [filters ufilters rcodes uprops wuprops subids wsubids set_ufilters]. lia. Qed.
Lemma lsize_rcodes q l : (lsize (set_rcodes q l) + length (rcodes q) = lsize q + length l)%nat.
Proof. unfold lsize. cbn [filters ufilters rcodes uprops wuprops subids wsubids set_rcodes]. lia. Qed.

Lemma filter_loop_E : forall fuel s, (dpos s <= length (ddata s))%nat -> postE s (filter_loop fuel s).
Proof.
  induction fuel as [|fuel IH]; intros s Hp; [exact I|].
  cbn [filter_loop]. destruct (at_end s); [apply postE_refl; exact Hp|].
  pose proof (get_val_spec Bin (VS []) s) as G.
  destruct (get_val Bin (VS []) s) as [v s1|s1|]; [| |contradiction].
  - destruct G as [[Gp Gd Gs Gl] [He [Hlt [_ [Hpos1 Hpos2]]]]]. specialize (Gl Hp).
    assert (Hadv : (dpos s < dpos s1)%nat).
    { destruct (derr s1) eqn:E1.
      - rewrite Hpos2 by discriminate. lia.
      - rewrite Hpos1 by reflexivity. unfold width, encode, enc_bin, enc_u16. rewrite app_length. cbn [length]. lia. }
    assert (Hp1 : (dpos s1 <= length (ddata s1))%nat) by (rewrite Gd; lia).
    pose proof (get_val_spec U8 (VN 0) s1) as G2.
    destruct (get_val U8 (VN 0) s1) as [v2 s2|s2|]; [| |contradiction];
      destruct G2 as [[Gp2 Gd2 Gs2 Gl2] _]; specialize (Gl2 Hp1).
    + set (s3 := with_pkt (set_filters (dp s2) (filters (dp s2) ++ [(valS v, valN v2)])) s2).
      assert (L3 : lsize (dp s3) = S (lsize (dp s))).
      { unfold s3. cbn [dp with_pkt]. pose proof (lsize_filters (dp s2) (filters (dp s2) ++ [(valS v, valN v2)])) as E.
        rewrite app_length in E. cbn [length] in E. rewrite Gp2, Gp in *. lia. }
      replace (derr s3) with (derr s2) by reflexivity.
      assert (R3 : postE s (Run s3)).
      { cbn [postE]. change (dpos s3) with (dpos s2). change (ddata s3) with (ddata s2). rewrite Gd2, L3.
        split; [lia|]. split; [congruence|]. split; [lia|]. destruct (derr s3); lia. }
      destruct (derr s2); [exact R3|]. destruct (at_end s3); [exact R3|].
      apply (postE_trans s s3); [unfold s3; cbn [ddata with_pkt]; congruence|change (dpos s3) with (dpos s2); lia
                                |rewrite L3; change (dpos s3) with (dpos s2); lia|].
      apply IH. change (dpos s3) with (dpos s2). change (ddata s3) with (ddata s2). rewrite Gd2. lia.
    + set (s3 := with_pkt (set_filters (dp s2) (filters (dp s2) ++ [(valS v, 0)])) s2).
      assert (L3 : lsize (dp s3) = S (lsize (dp s))).
      { unfold s3. cbn [dp with_pkt]. pose proof (lsize_filters (dp s2) (filters (dp s2) ++ [(valS v, 0)])) as E.
        rewrite app_length in E. cbn [length] in E. rewrite Gp2, Gp in *. lia. }
      replace (derr s3) with (derr s2) by reflexivity.
      assert (R3 : postE s (Run s3)).
      { cbn [postE]. change (dpos s3) with (dpos s2). change (ddata s3) with (ddata s2). rewrite Gd2, L3.
        split; [lia|]. split; [congruence|]. split; [lia|]. destruct (derr s3); lia. }
      destruct (derr s2); [exact R3|]. destruct (at_end s3); [exact R3|].
      apply (postE_trans s s3); [unfold s3; cbn [ddata with_pkt]; congruence|change (dpos s3) with (dpos s2); lia
                                |rewrite L3; change (dpos s3) with (dpos s2); lia|].
      apply IH. change (dpos s3) with (dpos s2). change (ddata s3) with (ddata s2). rewrite Gd2. lia.
  - (* the filter could not be read: an error is set *)
    destruct G as [[Gp Gd Gs Gl] [He Hq]]. specialize (Gl Hp).
    assert (Hp1 : (dpos s1 <= length (ddata s1))%nat) by (rewrite Gd; lia).
    pose proof (get_val_spec U8 (VN 0) s1) as G2.
    destruct (get_val U8 (VN 0) s1) as [v2 s2|s2|]; [| |contradiction].
    + destruct G2 as [_ [He2 _]]. congruence.
    + destruct G2 as [[Gp2 Gd2 Gs2 Gl2] [He2 Hq2]]. specialize (Gl2 Hp1).
      set (s3 := with_pkt (set_filters (dp s2) (filters (dp s2) ++ [([], 0)])) s2).
      assert (L3 : lsize (dp s3) = S (lsize (dp s))).
      { unfold s3. cbn [dp with_pkt]. pose proof (lsize_filters (dp s2) (filters (dp s2) ++ [([], 0)])) as E.
        rewrite app_length in E. cbn [length] in E. rewrite Gp2, Gp in *. lia. }
      replace (derr s3) with (derr s2) by reflexivity.
      destruct (derr s2) eqn:E2; [|congruence].
      cbn [postE]. change (derr s3) with (derr s2). rewrite E2. change (dpos s3) with (dpos s2).
      change (ddata s3) with (ddata s2). rewrite L3, Gd2. split; [lia|]. split; [congruence|]. split; lia.
Qed.

Lemma ufilter_loop_E : forall fuel s, (dpos s <= length (ddata s))%nat -> postE s (ufilter_loop fuel s).
Proof.
  induction fuel as [|fuel IH]; intros s Hp; [exact I|].
  cbn [ufilter_loop]. destruct (at_end s); [apply postE_refl; exact Hp|].
  pose proof (get_val_spec Bin (VS []) s) as G.
  destruct (get_val Bin (VS []) s) as [v s1|s1|]; [| |contradiction].
  - destruct G as [[Gp Gd Gs Gl] [He [Hlt [_ [Hpos1 Hpos2]]]]]. specialize (Gl Hp).
    assert (Hadv : (dpos s < dpos s1)%nat).
    { destruct (derr s1) eqn:E1.
      - rewrite Hpos2 by discriminate. lia.
      - rewrite Hpos1 by reflexivity. unfold width, encode, enc_bin, enc_u16. rewrite app_length. cbn [length]. lia. }
    set (s3 := with_pkt (set_ufilters (dp s1) (ufilters (dp s1) ++ [valS v])) s1).
    assert (L3 : lsize (dp s3) = S (lsize (dp s))).
    { unfold s3. cbn [dp with_pkt]. pose proof (lsize_ufilters (dp s1) (ufilters (dp s1) ++ [valS v])) as E.
      rewrite app_length in E. cbn [length] in E. rewrite Gp in *. lia. }
    replace (derr s3) with (derr s1) by reflexivity.
    assert (R3 : postE s (Run s3)).
    { cbn [postE]. change (dpos s3) with (dpos s1). change (ddata s3) with (ddata s1). rewrite Gd, L3.
      split; [lia|]. split; [reflexivity|]. split; [lia|]. destruct (derr s3); lia. }
    destruct (derr s1); [exact R3|]. destruct (at_end s3); [exact R3|].
    apply (postE_trans s s3); [change (ddata s3) with (ddata s1); exact Gd|change (dpos s3) with (dpos s1); lia
                              |rewrite L3; change (dpos s3) with (dpos s1); lia|].
    apply IH. change (dpos s3) with (dpos s1). change (ddata s3) with (ddata s1). rewrite Gd. lia.
  - destruct G as [[Gp Gd Gs Gl] [He Hq]]. specialize (Gl Hp).
    set (s3 := with_pkt (set_ufilters (dp s1) (ufilters (dp s1) ++ [[]])) s1).
    assert (L3 : lsize (dp s3) = S (lsize (dp s))).
    { unfold s3. cbn [dp with_pkt]. pose proof (lsize_ufilters (dp s1) (ufilters (dp s1) ++ [[]])) as E.
      rewrite app_length in E. cbn [length] in E. rewrite Gp in *. lia. }
    replace (derr s3) with (derr s1) by reflexivity.
    destruct (derr s1) eqn:E1; [|congruence].
    cbn [postE]. change (derr s3) with (derr s1). rewrite E1. change (dpos s3) with (dpos s1).
    change (ddata s3) with (ddata s1). rewrite L3, Gd. split; [lia|]. split; [reflexivity|]. split; lia.
Qed.

(* the reason codes: as many as bytes are left *)
Lemma rcodes_loop_len : forall n acc s s',
  rcodes_loop n acc s = Run s' ->
  rcodes (dp s') = rcodes (dp s') /\ length (rcodes (dp s')) = (length acc + n)%nat
  /\ ddata s' = ddata s
  /\ (forall q, lsize (dp s') + length (rcodes q) = lsize (set_rcodes (dp s) (rcodes q)) + length (rcodes (dp s')))%nat.
Proof.
  induction n as [|n IH]; intros acc s s' H.
  - cbn [rcodes_loop] in H. injection H as <-. cbn [dp ddata with_pkt rcodes set_rcodes].
    split; [reflexivity|]. split; [lia|]. split; [reflexivity|]. intros q.
    pose proof (lsize_rcodes (dp s) acc). pose proof (lsize_rcodes (dp s) (rcodes q)). lia.
  - cbn [rcodes_loop] in H.
    pose proof (get_val_spec U8 (VN 0) s) as G.
    destruct (get_val U8 (VN 0) s) as [v s1|s1|]; [| |discriminate];
      destruct G as [[Gp Gd Gs Gl] _];
      destruct (IH _ _ _ H) as [_ [Hl [Hd Hq]]];
      (split; [reflexivity|]); (split; [rewrite Hl, app_length; cbn [length]; lia|]);
      (split; [congruence|]); intros q; rewrite <- Gp; apply Hq.
Qed.

(* ------------------------------------------------------------------ *)
(* decoder programs whose list loops come last (all sixteen skeletons) *)
Fixpoint plain1 (d : dec) : bool :=
  match d with
  | DGet _ _ | DGetAny _ _ _ | DWillInit | DWillPayloadCopy | DUndefinedData _ => true
  | DIf _ ds => (fix all (l : list dec) : bool := match l with [] => true | x :: l' => plain1 x && all l' end) ds
  | DFilterLoop | DUnsubFilterLoop | DReasonCodes => false
  end.
Fixpoint plain (ds : list dec) : bool :=
  match ds with [] => true | d :: ds' => plain1 d && plain ds' end.

Lemma lsize_will_init p : (lsize (will_init p) <= lsize p)%nat.
Proof. unfold lsize, will_init. cbn. lia. Qed.

Lemma plain1_L : forall d s, plain1 d = true -> (dpos s <= length (ddata s))%nat -> postL s (run_dec1 d s).
Proof.
  fix IH 1. intros d s Hd Hp.
  assert (IHl : forall ds s, (fix all (l : list dec) : bool :=
                               match l with [] => true | x :: l' => plain1 x && all l' end) ds = true ->
                 (dpos s <= length (ddata s))%nat -> postL s (run_dec ds s)).
  { induction ds as [|x ds IHds]; intros s0 Hx Hp0; [apply postL_refl; exact Hp0|].
    apply andb_prop in Hx as [Hx1 Hx2]. cbn [run_dec].
    pose proof (IH x s0 Hx1 Hp0) as P. destruct (run_dec1 x s0) as [s1| |]; [|exact I|exact I].
    cbn [postL] in P. destruct P as [I1 [D1 [P1 L1]]].
    apply (postL_trans s0 s1); try assumption. apply IHds; assumption. }
  destruct d as [r w|m will sm|c ds| | | | | |cp]; try discriminate Hd.
  - apply get_postL. exact Hp.
  - apply getany_L. exact Hp.
  - change (run_dec1 (DIf c ds) s) with (if eval_cond c (dp s) (env_of s) then run_dec ds s else Run s).
    destruct (eval_cond c (dp s) (env_of s)); [apply IHl; assumption|apply postL_refl; exact Hp].
  - cbn [run_dec1 postL dp ddata dpos with_pkt]. pose proof (lsize_will_init (dp s)). repeat split; lia.
  - cbn [run_dec1]. destruct (hasWill (dp s)); [|exact I]. cbn [postL dp ddata dpos with_pkt]. rewrite lsize_setf. repeat split; lia.
  - cbn [run_dec1 postL dp ddata dpos with_pkt]. rewrite lsize_setf. repeat split; lia.
Qed.

Lemma plain_L : forall ds s, plain ds = true -> (dpos s <= length (ddata s))%nat -> postL s (run_dec ds s).
Proof.
  induction ds as [|x ds IH]; intros s Hx Hp; [apply postL_refl; exact Hp|].
  cbn [plain] in Hx. apply andb_prop in Hx as [Hx1 Hx2]. cbn [run_dec].
  pose proof (plain1_L x s Hx1 Hp) as P. destruct (run_dec1 x s) as [s1| |]; [|exact I|exact I].
  cbn [postL] in P. destruct P as [I1 [D1 [P1 L1]]].
  apply (postL_trans s s1); try assumption. apply IH; assumption.
Qed.

Lemma run_dec_app' a b s : run_dec (a ++ b) s = match run_dec a s with Run s' => run_dec b s' | x => x end.
Proof.
  revert s. induction a as [|d a IH]; intros s; [reflexivity|]. cbn [app run_dec].
  destruct (run_dec1 d s); try reflexivity. apply IH.
Qed.

Definition last_ok (l : list dec) : bool :=
  match l with
  | [] | [DFilterLoop] | [DUnsubFilterLoop] | [DReasonCodes] => true
  | _ => false
  end.

Lemma bound_prog pre last p0 data : plain pre = true -> last_ok last = true ->
  match run_dec (pre ++ last) {| dp := p0; ddata := data; dpos := 0; derr := None; dsteps := 0 |} with
  | Run s => (lsize (dp s) <= lsize p0 + length data + match derr s with Some _ => 1 | None => 0 end)%nat
  | _ => True
  end.
Proof.
  intros Hpre Hlast. rewrite run_dec_app'.
  set (s0 := {| dp := p0; ddata := data; dpos := 0; derr := None; dsteps := 0 |}).
  pose proof (plain_L pre s0 Hpre ltac:(cbn; lia)) as P.
  destruct (run_dec pre s0) as [s1| |]; [|exact I|exact I].
  cbn [postL] in P. destruct P as [I1 [D1 [P1 L1]]].
  change (dp s0) with p0 in L1. change (dpos s0) with 0%nat in L1. change (ddata s0) with data in D1.
  destruct last as [|l0 [|l1 rest]]; try discriminate Hlast.
  - cbn [run_dec]. rewrite D1 in I1. destruct (derr s1); lia.
  - destruct l0; try discriminate Hlast; cbn [run_dec run_dec1].
    + pose proof (filter_loop_E (S (length (ddata s1))) s1 I1) as E.
      destruct (filter_loop (S (length (ddata s1))) s1) as [s2| |]; [|exact I|exact I].
      cbn [postE] in E. destruct E as [I2 [D2 [P2 L2]]]. rewrite D2, D1 in I2. destruct (derr s2); lia.
    + pose proof (ufilter_loop_E (S (length (ddata s1))) s1 I1) as E.
      destruct (ufilter_loop (S (length (ddata s1))) s1) as [s2| |]; [|exact I|exact I].
      cbn [postE] in E. destruct E as [I2 [D2 [P2 L2]]]. rewrite D2, D1 in I2. destruct (derr s2); lia.
    + destruct (Nat.leb (dpos s1) (length (ddata s1))); [|exact I].
      destruct (rcodes_loop (length (ddata s1) - dpos s1) [] s1) as [s2| |] eqn:ER; [|exact I|exact I].
      destruct (rcodes_loop_len _ _ _ _ ER) as [_ [Hl [Hd Hq]]]. specialize (Hq (dp s1)).
      pose proof (lsize_rcodes (dp s1) (rcodes (dp s1))) as E. cbn [length] in Hl. rewrite D1 in *.
      destruct (derr s2); lia.
  - destruct l0; discriminate Hlast.
Qed.

(* every skeleton has that shape *)
Definition split_of (k : kind) : list dec * list dec :=
  match k with
  | KSubscribe => ([DGet (M F_packetID) U16; DGetAny [] false SubOpt], [DFilterLoop])
  | KUnsubscribe => ([DGet (M F_packetID) U16; DGetAny [] false NoSub], [DUnsubFilterLoop])
  | KSubAck | KUnsubAck => ([DGet (M F_packetID) U16; DGetAny ack_map false NoSub], [DReasonCodes])
  | k => (dec_of k, [])
  end.

Lemma split_ok k : dec_of k = fst (split_of k) ++ snd (split_of k)
  /\ plain (fst (split_of k)) = true /\ last_ok (snd (split_of k)) = true.
Proof. destruct k; cbn [split_of fst snd]; rewrite ?app_nil_r; repeat split; reflexivity. Qed.

Theorem unmarshal_bound k p0 data :
  match unmarshal k p0 data with
  | UOk p => (lsize p <= lsize p0 + length data)%nat
  | UErr _ p => (lsize p <= lsize p0 + length data + 1)%nat
  | _ => True
  end.
Proof.
  destruct (split_ok k) as [E [Hp Hl]].
  pose proof (bound_prog _ _ p0 data Hp Hl) as B. rewrite <- E in B.
  unfold unmarshal, unmarshal_steps.
  destruct (run_dec (dec_of k) _) as [s| |]; cbn [fst]; try exact I.
  destruct (derr s); lia.
Qed.
