(* The guarded reader and the decoder interpreter never panic and
   never run out of fuel: generic in the IR program. *)
From MQ Require Import Model.Codec Proofs.BytesP.
From Coq Require Import ZArith Lia ZifyN ZifyNat ZifyBool.
Ltac Zify.zify_post_hook ::= Z.div_mod_to_equations.

(* ---------------- wire decoders do not panic on non-empty data ------ *)

Lemma slice_some {A} (d : list A) lo hi : (lo <= hi)%nat -> (hi <= length d)%nat ->
  slice d lo hi = Some (firstn (hi - lo) (skipn lo d)).
Proof.
  intros H1 H2. unfold slice.
  rewrite (proj2 (Nat.leb_le lo hi)) by assumption.
  rewrite (proj2 (Nat.leb_le hi (length d))) by assumption. reflexivity.
Qed.

Lemma dec_bin_cases old d :
  (exists e, dec_bin old d = Err e) \/
  (dec_bin old d = Ok old /\ (2 <= length d)%nat) \/
  (exists s, dec_bin old d = Ok s /\ (length s + 2 <= length d)%nat /\ (0 < length s)%nat).
Proof.
  unfold dec_bin.
  set (l := match dec_u16 d with Ok n => n | _ => 0 end).
  assert (Hl : l < 65536).
  { unfold l, dec_u16. destruct d as [|a [|b t]]; try lia.
    pose proof (b2n_lt a); pose proof (b2n_lt b). lia. }
  destruct (N.ltb_spec (len d) (l + 2)) as [H|H]; [left; eexists; reflexivity|].
  destruct (N.eqb_spec l 0) as [Hz|Hz].
  - right; left. split; [reflexivity|]. unfold len in H. lia.
  - rewrite slice_some by (unfold len in H; lia).
    right; right. eexists. split; [reflexivity|].
    rewrite firstn_length, skipn_length. unfold len in H. lia.
Qed.

Lemma dec_bin_no_panic old d : dec_bin old d <> Panic.
Proof.
  destruct (dec_bin_cases old d) as [[e E]|[[E _]|[s [E _]]]]; rewrite E; discriminate.
Qed.

Lemma vb_mem_no_panic d : forall m v, vb_mem_loop d m v <> Panic.
Proof.
  induction d as [|c d IH]; intros m v; cbn [vb_mem_loop]; [discriminate|].
  destruct (128 * 128 * 128 <? m); [discriminate|].
  destruct (b2n c <? 128); [discriminate|]. apply IH.
Qed.

Lemma decode_no_panic w old d : d <> [] -> decode w old d <> Panic.
Proof.
  intros Hd. destruct d as [|b d]; [congruence|].
  destruct w; cbn [decode].
  - cbn. discriminate.
  - unfold dec_u16. destruct d; discriminate.
  - unfold dec_u32. destruct d as [|? [|? [|? ?]]]; discriminate.
  - unfold dec_bool. destruct (b2n b =? 0); [discriminate|]. destruct (b2n b =? 1); discriminate.
  - pose proof (dec_bin_no_panic (valS old) (b :: d)).
    destruct (dec_bin (valS old) (b :: d)); congruence.
  - cbn. discriminate.
  - unfold dec_vb. pose proof (vb_mem_no_panic (b :: d) 1 0).
    destruct (vb_mem_loop (b :: d) 1 0); congruence.
Qed.

Lemma dec_userprop_no_panic d : dec_userprop d <> Panic.
Proof.
  unfold dec_userprop.
  destruct (dec_bin_cases [] d) as [[e E]|[[E H]|[s [E [H _]]]]]; rewrite E; try discriminate.
  - rewrite slice_some by (simpl; lia).
    match goal with |- context [dec_bin [] ?x] =>
      pose proof (dec_bin_no_panic [] x) as Q; destruct (dec_bin [] x); [discriminate|discriminate|congruence] end.
  - rewrite slice_some by lia.
    match goal with |- context [dec_bin [] ?x] =>
      pose proof (dec_bin_no_panic [] x) as Q; destruct (dec_bin [] x); [discriminate|discriminate|congruence] end.
Qed.

(* ---------------- buffer.get ---------------------------------------- *)

(* what one buffer.get does to the reader, whatever the wire type *)
Record get_spec (s s' : dstate) : Prop := {
  gs_pkt : dp s' = dp s;
  gs_data : ddata s' = ddata s;
  gs_steps : dsteps s' = S (dsteps s);
  gs_pos_le : (dpos s <= length (ddata s) -> dpos s <= dpos s' <= length (ddata s))%nat
}.

Lemma get_with_spec {A} (dc : list byte -> outcome A) (wd : A -> nat) s :
  (forall d, d <> [] -> dc d <> Panic) ->
  match get_with dc wd s with
  | GOk v s' => get_spec s s' /\ derr s = None /\ (dpos s < length (ddata s))%nat
                /\ dc (skipn (dpos s) (ddata s)) = Ok v
                /\ (derr s' = None -> dpos s' = (dpos s + wd v)%nat)
                /\ (derr s' <> None -> dpos s' = length (ddata s))
  | GNo s' => get_spec s s' /\ derr s' <> None /\ dpos s' = dpos s
  | GPanic => False
  end.
Proof.
  intros Hdc. unfold get_with.
  assert (T : get_spec s (tick s)) by (constructor; cbn; auto; lia).
  replace (derr (tick s)) with (derr s) by reflexivity.
  destruct (derr s) eqn:He.
  { split; [exact T|]. cbn. try rewrite He. split; [discriminate|reflexivity]. }
  replace (ddata (tick s)) with (ddata s) by reflexivity.
  replace (dpos (tick s)) with (dpos s) by reflexivity.
  destruct (Nat.leb_spec (length (ddata s)) (dpos s)) as [Hle|Hlt].
  { split; [constructor; cbn; auto; lia|]. cbn. split; [discriminate|reflexivity]. }
  assert (Hne : skipn (dpos s) (ddata s) <> []).
  { intros E. apply (f_equal (@length byte)) in E. rewrite skipn_length in E. simpl in E. lia. }
  specialize (Hdc _ Hne).
  destruct (dc (skipn (dpos s) (ddata s))) as [v|e|] eqn:Edc; [|
    split; [constructor; cbn; auto; lia|]; cbn; split; [discriminate|reflexivity] | congruence].
  replace (ddata (advance (wd v) (tick s))) with (ddata s) by reflexivity.
  replace (dpos (advance (wd v) (tick s))) with (dpos s + wd v)%nat by reflexivity.
  destruct (Nat.ltb_spec (length (ddata s)) (dpos s + wd v)) as [Hc|Hc].
  - split; [constructor; cbn; auto; lia|]. cbn. try rewrite He.
    repeat split; auto; try lia. intros Q; discriminate Q.
  - split; [constructor; cbn; auto; lia|]. cbn. try rewrite He.
    repeat split; auto; try lia. intros Q; congruence.
Qed.

Lemma get_val_spec w old s :
  match get_val w old s with
  | GOk v s' => get_spec s s' /\ derr s = None /\ (dpos s < length (ddata s))%nat
                /\ decode w old (skipn (dpos s) (ddata s)) = Ok v
                /\ (derr s' = None -> dpos s' = (dpos s + width w v)%nat)
                /\ (derr s' <> None -> dpos s' = length (ddata s))
  | GNo s' => get_spec s s' /\ derr s' <> None /\ dpos s' = dpos s
  | GPanic => False
  end.
Proof. apply get_with_spec. intros d Hd. apply decode_no_panic; assumption. Qed.

Lemma get_up_spec s :
  match get_with dec_userprop width_userprop s with
  | GOk v s' => get_spec s s' /\ derr s = None /\ (dpos s < length (ddata s))%nat
                /\ dec_userprop (skipn (dpos s) (ddata s)) = Ok v
                /\ (derr s' = None -> dpos s' = (dpos s + width_userprop v)%nat)
                /\ (derr s' <> None -> dpos s' = length (ddata s))
  | GNo s' => get_spec s s' /\ derr s' <> None /\ dpos s' = dpos s
  | GPanic => False
  end.
Proof. apply get_with_spec. intros d _. apply dec_userprop_no_panic. Qed.

(* ---------------- invariant ----------------------------------------- *)

(* w: the will message is known to be allocated *)
Definition inv (w : bool) (s : dstate) : Prop :=
  (w = true -> hasWill (dp s) = true) /\ (dpos s <= length (ddata s))%nat.

Definition ref_ok (w : bool) (r : fref) : bool :=
  match r with M _ => true | W _ => w end.

Lemma hasWill_setf r v p : hasWill (setf r v p) = hasWill p.
Proof. destruct r; reflexivity. Qed.

Lemma getf_opt_ok w r p : ref_ok w r = true -> (w = true -> hasWill p = true) ->
  exists v, getf_opt r p = Some v.
Proof.
  intros Hr Hw. destruct r as [f|f]; cbn; [eexists; reflexivity|].
  cbn in Hr. rewrite (Hw Hr). eexists; reflexivity.
Qed.

(* after a step: still in the invariant, data unchanged, position not moved back *)
Definition post (w : bool) (s : dstate) (r : res) : Prop :=
  match r with
  | Run s' => inv w s' /\ ddata s' = ddata s /\ (dpos s <= dpos s')%nat
              /\ (dsteps s <= dsteps s')%nat
  | RPanic => False
  | RFuel => True
  end.

Lemma get_post w r wt0 s : ref_ok w r = true -> inv w s -> post w s (get r wt0 s).
Proof.
  intros Hr [Hw Hp]. unfold get.
  destruct (getf_opt_ok w r (dp s) Hr Hw) as [old E]. rewrite E.
  pose proof (get_val_spec wt0 old s) as G.
  destruct (get_val wt0 old s) as [v s'|s'|]; [| |contradiction].
  - destruct G as [[Gp Gd Gs Gl] _]. specialize (Gl Hp).
    unfold post, inv. cbn [dp ddata dpos dsteps with_pkt].
    rewrite hasWill_setf, Gp, Gd. repeat split; auto; lia.
  - destruct G as [[Gp Gd Gs Gl] _]. specialize (Gl Hp).
    unfold post, inv. rewrite Gp, Gd. repeat split; auto; lia.
Qed.

Lemma get_not_fuel r t s : get r t s <> RFuel.
Proof.
  unfold get. destruct (getf_opt r (dp s)); [|discriminate].
  destruct (get_val t v s); discriminate.
Qed.

(* like post, and the fuel was sufficient *)
Definition post_nf (w : bool) (s : dstate) (r : res) : Prop :=
  match r with
  | Run s' => inv w s' /\ ddata s' = ddata s /\ (dpos s <= dpos s')%nat
              /\ (dsteps s <= dsteps s')%nat
  | _ => False
  end.

Lemma post_nf_trans w s s1 r :
  ddata s1 = ddata s -> (dpos s <= dpos s1)%nat -> (dsteps s <= dsteps s1)%nat ->
  post_nf w s1 r -> post_nf w s r.
Proof.
  intros Hd Hp Hs. destruct r as [s'| |]; cbn; auto.
  intros [I [D [P S']]]. split; [exact I|]. split; [congruence|]. split; lia.
Qed.

Lemma inv_with_pkt w s p' : inv w s -> hasWill p' = hasWill (dp s) -> inv w (with_pkt p' s).
Proof. intros [Hw Hp] E. split; cbn; [rewrite E; exact Hw|exact Hp]. Qed.

Lemma inv_with_err w s e : inv w s -> inv w (with_err e s).
Proof. intros [Hw Hp]. split; cbn; assumption. Qed.

Lemma get_spec_inv w s s' : get_spec s s' -> inv w s -> inv w s'.
Proof.
  intros [Gp Gd Gs Gl] [Hw Hp]. split; [rewrite Gp; exact Hw|]. rewrite Gd. specialize (Gl Hp). lia.
Qed.

Definition map_ok (w : bool) (m : list (N * fref * wt)) : bool :=
  forallb (fun e => ref_ok w (snd (fst e))) m.

Lemma lookup_ok w m id r t : map_ok w m = true -> lookup_prop m id = Some (r, t) -> ref_ok w r = true.
Proof.
  induction m as [|[[i r'] t'] m IH]; cbn; [discriminate|].
  intros H. apply andb_prop in H as [H1 H2].
  destruct (i =? id); [intros Q; injection Q as <- <-; exact H1|apply IH; exact H2].
Qed.

Lemma width_u8_1 v : width U8 v = 1%nat.
Proof. reflexivity. Qed.

Lemma getany_loop_post : forall fuel m will sm endp id s w,
  map_ok w m = true -> (will = true -> w = true) -> inv w s ->
  (length (ddata s) - dpos s < fuel)%nat ->
  post_nf w s (getany_loop fuel m will sm endp id s).
Proof.
  induction fuel as [|fuel IH]; intros m will sm endp id s w Hm Hwill Hinv Hfuel; [lia|].
  cbn [getany_loop].
  destruct (N.of_nat (dpos s) <? endp); [|cbn; split; [exact Hinv|]; split; [reflexivity|]; split; lia].
  pose proof (get_val_spec U8 (VN id) s) as G.
  destruct (get_val U8 (VN id) s) as [v s1|s1|]; [| |contradiction].
  2:{ destruct G as [G _]. cbn. pose proof (get_spec_inv w s s1 G Hinv) as I1.
      destruct G as [Gp Gd Gs Gl]. destruct Hinv as [_ Hp]. specialize (Gl Hp).
      split; [exact I1|]. split; [exact Gd|]. split; lia. }
  destruct G as [G [He [Hlt [_ [Hpos1 Hpos2]]]]].
  pose proof (get_spec_inv w s s1 G Hinv) as I1.
  destruct G as [Gp Gd Gs Gl]. destruct Hinv as [Hw Hp]. specialize (Gl Hp).
  assert (Hadv : (dpos s < dpos s1)%nat).
  { destruct (derr s1) eqn:E1.
    - rewrite Hpos2 by discriminate. lia.
    - rewrite Hpos1 by reflexivity. rewrite width_u8_1. lia. }
  assert (Hf1 : (length (ddata s1) - dpos s1 < fuel)%nat) by (rewrite Gd; lia).
  (* everything below continues from a state s2 reached from s1 *)
  assert (K : forall s2 id', inv w s2 -> ddata s2 = ddata s1 -> (dpos s1 <= dpos s2)%nat ->
                             (dsteps s1 <= dsteps s2)%nat ->
               post_nf w s (getany_loop fuel m will sm endp id' s2)).
  { intros s2 id' I2 D2 P2 S2.
    apply (post_nf_trans w s s2); [congruence|lia|lia|].
    apply IH; auto. rewrite D2. lia. }
  set (idv := valN v).
  destruct (match sm with
            | SubOpt => if idv =? SubscriptionID then None else lookup_prop m idv
            | _ => lookup_prop m idv end) as [[r t]|] eqn:EL.
  - (* a field of the packet *)
    assert (Hr : ref_ok w r = true).
    { destruct sm; try (apply (lookup_ok w m idv r t Hm EL)).
      destruct (idv =? SubscriptionID); [discriminate|apply (lookup_ok w m idv r t Hm EL)]. }
    pose proof (get_post w r t s1 Hr I1) as P.
    destruct (get r t s1) as [s2| |] eqn:EG; [|contradiction|].
    + destruct P as [I2 [D2 [P2 S2]]]. apply K; auto.
    + exfalso. exact (get_not_fuel _ _ _ EG).
  - destruct (match sm with SubOpt => idv =? SubscriptionID | _ => false end).
    + (* SUBSCRIBE's subscription identifier *)
      set (s1' := with_pkt (set_subid (dp s1) (Some 0)) s1).
      assert (I1' : inv w s1') by (apply inv_with_pkt; [exact I1|reflexivity]).
      pose proof (get_val_spec Vb (VN 0) s1') as G2.
      destruct (get_val Vb (VN 0) s1') as [v2 s2|s2|]; [| |contradiction].
      * destruct G2 as [G2 _]. pose proof (get_spec_inv w s1' s2 G2 I1') as I2.
        destruct G2 as [Gp2 Gd2 Gs2 Gl2]. destruct I1' as [_ Hp1']. specialize (Gl2 Hp1').
        apply K; [apply inv_with_pkt; [exact I2|reflexivity]|exact Gd2|exact (proj1 Gl2)|cbn in *; lia].
      * destruct G2 as [G2 _]. pose proof (get_spec_inv w s1' s2 G2 I1') as I2.
        destruct G2 as [Gp2 Gd2 Gs2 Gl2]. destruct I1' as [_ Hp1']. specialize (Gl2 Hp1').
        apply K; [exact I2|exact Gd2|exact (proj1 Gl2)|cbn in *; lia].
    + destruct (idv =? UserProperty).
      * pose proof (get_up_spec s1) as G2.
        destruct (get_with dec_userprop width_userprop s1) as [kv s2|s2|]; [| |contradiction].
        -- destruct G2 as [G2 _]. pose proof (get_spec_inv w s1 s2 G2 I1) as I2.
           destruct G2 as [Gp2 Gd2 Gs2 Gl2]. destruct I1 as [_ Hp1]. specialize (Gl2 Hp1).
           unfold add_uprop. destruct will.
           ++ rewrite (proj1 I2 (Hwill eq_refl)).
              apply K; [apply inv_with_pkt; [exact I2|reflexivity]|exact Gd2|exact (proj1 Gl2)|cbn in *; lia].
           ++ apply K; [apply inv_with_pkt; [exact I2|reflexivity]|exact Gd2|exact (proj1 Gl2)|cbn in *; lia].
        -- destruct G2 as [G2 _]. pose proof (get_spec_inv w s1 s2 G2 I1) as I2.
           destruct G2 as [Gp2 Gd2 Gs2 Gl2]. destruct I1 as [_ Hp1]. specialize (Gl2 Hp1).
           unfold add_uprop. destruct will.
           ++ rewrite (proj1 I2 (Hwill eq_refl)).
              apply K; [apply inv_with_pkt; [exact I2|reflexivity]|exact Gd2|exact (proj1 Gl2)|cbn in *; lia].
           ++ apply K; [apply inv_with_pkt; [exact I2|reflexivity]|exact Gd2|exact (proj1 Gl2)|cbn in *; lia].
      * destruct (idv =? SubscriptionID).
        -- pose proof (get_val_spec Vb (VN 0) s1) as G2.
           destruct (get_val Vb (VN 0) s1) as [v2 s2|s2|]; [| |contradiction];
             destruct G2 as [G2 _]; pose proof (get_spec_inv w s1 s2 G2 I1) as I2;
             destruct G2 as [Gp2 Gd2 Gs2 Gl2]; destruct I1 as [_ Hp1]; specialize (Gl2 Hp1);
             destruct sm;
             (apply K; [try (apply inv_with_pkt; [exact I2|reflexivity]); exact I2
                       |exact Gd2|exact (proj1 Gl2)|cbn in *; lia]).
        -- apply K; [apply inv_with_err; exact I1|reflexivity|cbn; lia|cbn; lia].
Qed.

Lemma post_nf_refl w s : inv w s -> post_nf w s (Run s).
Proof. intros I. cbn. split; [exact I|]. split; [reflexivity|]. split; lia. Qed.

Lemma getany_post m will sm s w :
  map_ok w m = true -> (will = true -> w = true) -> inv w s ->
  post_nf w s (getany m will sm s).
Proof.
  intros Hm Hwill I. unfold getany.
  destruct (at_end s); [apply post_nf_refl; exact I|].
  pose proof (get_val_spec Vb (VN 0) s) as G.
  destruct (get_val Vb (VN 0) s) as [v s1|s1|]; [| |contradiction];
    destruct G as [G _]; pose proof (get_spec_inv w s s1 G I) as I1;
    destruct G as [Gp Gd Gs Gl]; destruct I as [Hw Hp]; specialize (Gl Hp);
    (apply (post_nf_trans w s s1); [exact Gd|lia|lia|]);
    (apply getany_loop_post; auto; rewrite Gd; lia).
Qed.

Lemma filter_loop_post : forall fuel s w, inv w s ->
  (length (ddata s) - dpos s < fuel)%nat -> post_nf w s (filter_loop fuel s).
Proof.
  induction fuel as [|fuel IH]; intros s w I Hfuel; [lia|].
  cbn [filter_loop].
  destruct (at_end s); [apply post_nf_refl; exact I|].
  pose proof (get_val_spec Bin (VS []) s) as G.
  destruct (get_val Bin (VS []) s) as [v s1|s1|]; [| |contradiction].
  - destruct G as [G [He [Hlt [_ [Hpos1 Hpos2]]]]].
    pose proof (get_spec_inv w s s1 G I) as I1.
    destruct G as [Gp Gd Gs Gl]. destruct I as [Hw Hp]. specialize (Gl Hp).
    pose proof (get_val_spec U8 (VN 0) s1) as G2.
    destruct (get_val U8 (VN 0) s1) as [v2 s2|s2|]; [| |contradiction].
    + destruct G2 as [G2 [He2 [Hlt2 [_ [Hq1 Hq2]]]]].
      pose proof (get_spec_inv w s1 s2 G2 I1) as I2.
      destruct G2 as [Gp2 Gd2 Gs2 Gl2]. destruct I1 as [Hw1 Hp1]. specialize (Gl2 Hp1).
      set (s3 := with_pkt (set_filters (dp s2) (filters (dp s2) ++ [(valS v, valN v2)])) s2).
      assert (I3 : inv w s3) by (apply inv_with_pkt; [exact I2|reflexivity]).
      replace (derr s3) with (derr s2) by reflexivity.
      destruct (derr s2) eqn:E2.
      * cbn. split; [exact I3|]. split; [cbn; congruence|]. split; cbn; lia.
      * destruct (at_end s3).
        -- cbn. split; [exact I3|]. split; [cbn; congruence|]. split; cbn; lia.
        -- apply (post_nf_trans w s s3); [cbn; congruence|cbn; lia|cbn; lia|].
           apply IH; [exact I3|]. cbn. rewrite Gd2, Gd.
           rewrite Hq1 by reflexivity. rewrite width_u8_1. lia.
    + destruct G2 as [G2 [He2 Hq]].
      pose proof (get_spec_inv w s1 s2 G2 I1) as I2.
      destruct G2 as [Gp2 Gd2 Gs2 Gl2]. destruct I1 as [Hw1 Hp1]. specialize (Gl2 Hp1).
      set (s3 := with_pkt (set_filters (dp s2) (filters (dp s2) ++ [(valS v, 0)])) s2).
      assert (I3 : inv w s3) by (apply inv_with_pkt; [exact I2|reflexivity]).
      replace (derr s3) with (derr s2) by reflexivity.
      destruct (derr s2) eqn:E2; [|congruence].
      cbn. split; [exact I3|]. split; [cbn; congruence|]. split; cbn; lia.
  - destruct G as [G [He Hq]].
    pose proof (get_spec_inv w s s1 G I) as I1.
    destruct G as [Gp Gd Gs Gl]. destruct I as [Hw Hp]. specialize (Gl Hp).
    pose proof (get_val_spec U8 (VN 0) s1) as G2.
    destruct (get_val U8 (VN 0) s1) as [v2 s2|s2|]; [| |contradiction].
    + destruct G2 as [_ [He2 _]]. congruence.
    + destruct G2 as [G2 [He2 Hq2]].
      pose proof (get_spec_inv w s1 s2 G2 I1) as I2.
      destruct G2 as [Gp2 Gd2 Gs2 Gl2]. destruct I1 as [Hw1 Hp1]. specialize (Gl2 Hp1).
      set (s3 := with_pkt (set_filters (dp s2) (filters (dp s2) ++ [([], 0)])) s2).
      assert (I3 : inv w s3) by (apply inv_with_pkt; [exact I2|reflexivity]).
      replace (derr s3) with (derr s2) by reflexivity.
      destruct (derr s2) eqn:E2; [|congruence].
      cbn. split; [exact I3|]. split; [cbn; congruence|]. split; cbn; lia.
Qed.

Lemma ufilter_loop_post : forall fuel s w, inv w s ->
  (length (ddata s) - dpos s < fuel)%nat -> post_nf w s (ufilter_loop fuel s).
Proof.
  induction fuel as [|fuel IH]; intros s w I Hfuel; [lia|].
  cbn [ufilter_loop].
  destruct (at_end s) eqn:Eend; [apply post_nf_refl; exact I|].
  pose proof (get_val_spec Bin (VS []) s) as G.
  destruct (get_val Bin (VS []) s) as [v s1|s1|]; [| |contradiction].
  - destruct G as [G [He [Hlt [Hdec [Hpos1 Hpos2]]]]].
    pose proof (get_spec_inv w s s1 G I) as I1.
    destruct G as [Gp Gd Gs Gl]. destruct I as [Hw Hp]. specialize (Gl Hp).
    set (s3 := with_pkt (set_ufilters (dp s1) (ufilters (dp s1) ++ [valS v])) s1).
    assert (I3 : inv w s3) by (apply inv_with_pkt; [exact I1|reflexivity]).
    replace (derr s3) with (derr s1) by reflexivity.
    destruct (derr s1) eqn:E1.
    + cbn. split; [exact I3|]. split; [cbn; congruence|]. split; cbn; lia.
    + destruct (at_end s3).
      * cbn. split; [exact I3|]. split; [cbn; congruence|]. split; cbn; lia.
      * apply (post_nf_trans w s s3); [cbn; congruence|cbn; lia|cbn; lia|].
        apply IH; [exact I3|]. cbn. rewrite Gd.
        rewrite Hpos1 by reflexivity.
        assert (2 <= width Bin v)%nat.
        { unfold width, encode, enc_bin, enc_u16. rewrite app_length. simpl. lia. }
        lia.
  - destruct G as [G [He Hq]].
    pose proof (get_spec_inv w s s1 G I) as I1.
    destruct G as [Gp Gd Gs Gl]. destruct I as [Hw Hp]. specialize (Gl Hp).
    set (s3 := with_pkt (set_ufilters (dp s1) (ufilters (dp s1) ++ [[]])) s1).
    assert (I3 : inv w s3) by (apply inv_with_pkt; [exact I1|reflexivity]).
    replace (derr s3) with (derr s1) by reflexivity.
    destruct (derr s1) eqn:E1; [|congruence].
    cbn. split; [exact I3|]. split; [cbn; congruence|]. split; cbn; lia.
Qed.

Lemma rcodes_loop_post : forall n acc s w, inv w s -> post_nf w s (rcodes_loop n acc s).
Proof.
  induction n as [|n IH]; intros acc s w I.
  - cbn. split; [apply inv_with_pkt; [exact I|reflexivity]|]. split; [reflexivity|]. split; cbn; lia.
  - cbn [rcodes_loop].
    pose proof (get_val_spec U8 (VN 0) s) as G.
    destruct (get_val U8 (VN 0) s) as [v s1|s1|]; [| |contradiction];
      destruct G as [G _]; pose proof (get_spec_inv w s s1 G I) as I1;
      destruct G as [Gp Gd Gs Gl]; destruct I as [Hw Hp]; specialize (Gl Hp);
      (apply (post_nf_trans w s s1); [exact Gd|lia|lia|]); apply IH; exact I1.
Qed.

(* ---------------- static safety of a decoder program ---------------- *)

Fixpoint cond_ok (c : cond) : bool :=
  match c with
  | CHas (M _) _ | CNonEmpty (M _) | CIsZero (M _) => true
  | CHas (W _) _ | CNonEmpty (W _) | CIsZero (W _) => false
  | CQoS12 | CDataLenGt _ | CMoreData => true
  | CNot c => cond_ok c
  | CAnd a b => cond_ok a && cond_ok b
  end.

(* [safe1 d w]: with the will known to be allocated iff w, instruction d
   dereferences the will only where it is allocated; the result is the
   will status afterwards. *)
Fixpoint safe1 (d : dec) (w : bool) {struct d} : option bool :=
  let safe_list := fix safe_list (ds : list dec) (w : bool) : option bool :=
    match ds with
    | [] => Some w
    | d' :: ds' => match safe1 d' w with Some w' => safe_list ds' w' | None => None end
    end in
  match d with
  | DGet r _ => if ref_ok w r then Some w else None
  | DGetAny m will _ => if map_ok w m && implb will w then Some w else None
  | DIf c ds => if cond_ok c then
                  match safe_list ds w with Some _ => Some w | None => None end
                else None
  | DWillInit => Some true
  | DWillPayloadCopy => if w then Some w else None
  | DFilterLoop | DUnsubFilterLoop | DReasonCodes | DUndefinedData _ => Some w
  end.

Fixpoint safe_list (ds : list dec) (w : bool) : option bool :=
  match ds with
  | [] => Some w
  | d :: ds' => match safe1 d w with Some w' => safe_list ds' w' | None => None end
  end.

Lemma inv_weaken w s : inv w s -> inv false s.
Proof. intros [_ H]. split; [discriminate|exact H]. Qed.

Lemma post_nf_weaken w s r : post_nf w s r -> post_nf false s r.
Proof. destruct r; cbn; auto. intros [I R]. split; [exact (inv_weaken _ _ I)|exact R]. Qed.

Lemma post_nf_chain w0 w1 s s1 r :
  post_nf w0 s (Run s1) -> post_nf w1 s1 r -> post_nf w1 s r.
Proof.
  intros [I [D [P S0]]] H. apply (post_nf_trans w1 s s1); auto.
Qed.

Lemma safe1_true d w' : safe1 d true = Some w' -> w' = true.
Proof.
  destruct d; cbn [safe1]; intros H;
    repeat match type of H with
    | (if ?c then _ else _) = _ => destruct c; try discriminate
    | (match ?c with _ => _ end) = _ => destruct c; try discriminate
    end; injection H as <-; reflexivity.
Qed.

Lemma safe_list_true_inner ds w2 :
  (fix safe_list (ds : list dec) (w : bool) {struct ds} : option bool :=
     match ds with
     | [] => Some w
     | d' :: ds' => match safe1 d' w with Some w' => safe_list ds' w' | None => None end
     end) ds true = Some w2 -> w2 = true.
Proof.
  induction ds as [|d ds IH]; intros H; [injection H as <-; reflexivity|].
  destruct (safe1 d true) as [w1|] eqn:H1; [|discriminate].
  rewrite (safe1_true d w1 H1) in H. apply IH. exact H.
Qed.

Lemma run_dec1_post : forall d w w' s,
  safe1 d w = Some w' -> inv w s -> post_nf w' s (run_dec1 d s).
Proof.
  fix IH 1. intros d w w' s Hs I. destruct d as [r t|m will sm|c ds| | | | | |]; cbn [safe1] in Hs.
  - destruct (ref_ok w r) eqn:Hr; [|discriminate]. injection Hs as <-.
    cbn [run_dec1]. pose proof (get_post w r t s Hr I) as P.
    destruct (get r t s) eqn:EG; cbn in *; auto. exact (get_not_fuel _ _ _ EG).
  - destruct (map_ok w m && implb will w) eqn:Hm; [|discriminate]. injection Hs as <-.
    apply andb_prop in Hm as [Hm Hw]. cbn [run_dec1].
    apply getany_post; auto. intros ->. destruct w; [reflexivity|discriminate].
  - destruct (cond_ok c); [|discriminate].
    cbn [run_dec1].
    match type of Hs with (match ?X with _ => _ end) = _ => destruct X as [w2|] eqn:Hl end; [|discriminate].
    injection Hs as <-.
    destruct (eval_cond c (dp s) (env_of s)); [|apply post_nf_refl; exact I].
    (* the nested list *)
    assert (L : forall ds w w2 s, 
      (fix safe_list (ds : list dec) (w : bool) {struct ds} : option bool :=
         match ds with
         | [] => Some w
         | d' :: ds' => match safe1 d' w with Some w' => safe_list ds' w' | None => None end
         end) ds w = Some w2 -> inv w s ->
      post_nf w2 s ((fix run_list (ds : list dec) (s : dstate) {struct ds} : res :=
         match ds with
         | [] => Run s
         | d' :: ds' => match run_dec1 d' s with Run s' => run_list ds' s' | x => x end
         end) ds s)).
    { clear -IH. induction ds as [|d ds IHds]; intros w w2 s Hl I.
      - injection Hl as <-. apply post_nf_refl; exact I.
      - destruct (safe1 d w) as [w1|] eqn:H1; [|discriminate].
        pose proof (IH d w w1 s H1 I) as P.
        destruct (run_dec1 d s) as [s1| |]; try contradiction.
        apply (post_nf_chain w1 w2 s s1); [exact P|].
        apply (IHds w1 w2 s1 Hl). exact (proj1 P). }
    pose proof (L ds w w2 s Hl I) as P.
    match goal with |- post_nf w s ?X => destruct X as [s1| |] end; try contradiction.
    destruct P as [I2 [D2 [P2 S2]]]. split; [|split; [exact D2|split; [exact P2|exact S2]]].
    (* hasWill is only ever set, never cleared: keep the incoming status *)
    destruct w; [|exact (inv_weaken _ _ I2)].
    rewrite (safe_list_true_inner ds w2 Hl) in I2. exact I2.
  - injection Hs as <-. cbn [run_dec1]. cbn. split; [|split; [reflexivity|split; lia]].
    split; [reflexivity|apply I].
  - destruct w; [|discriminate]. injection Hs as <-. cbn [run_dec1].
    rewrite (proj1 I eq_refl). cbn. split; [|split; [reflexivity|split; lia]].
    apply inv_with_pkt; [exact I|reflexivity].
  - injection Hs as <-. cbn [run_dec1]. apply filter_loop_post; [exact I|lia].
  - injection Hs as <-. cbn [run_dec1]. apply ufilter_loop_post; [exact I|lia].
  - injection Hs as <-. cbn [run_dec1].
    rewrite (proj2 (Nat.leb_le _ _) (proj2 I)). apply rcodes_loop_post. exact I.
  - injection Hs as <-. cbn [run_dec1]. cbn. split; [|split; [reflexivity|split; lia]].
    apply inv_with_pkt; [exact I|reflexivity].
Qed.

Lemma run_dec_post : forall ds w w' s,
  safe_list ds w = Some w' -> inv w s -> post_nf w' s (run_dec ds s).
Proof.
  induction ds as [|d ds IH]; intros w w' s Hl I.
  - injection Hl as <-. apply post_nf_refl; exact I.
  - cbn [safe_list] in Hl. destruct (safe1 d w) as [w1|] eqn:H1; [|discriminate].
    pose proof (run_dec1_post d w w1 s H1 I) as P. cbn [run_dec].
    destruct (run_dec1 d s) as [s1| |]; try contradiction.
    apply (post_nf_chain w1 w' s s1); [exact P|]. apply (IH w1 w' s1 Hl). exact (proj1 P).
Qed.

(* every packet type's decoder skeleton passes the static check *)
Lemma all_skeletons_safe : forall k, exists w', safe_list (dec_of k) false = Some w'.
Proof. intros k; destruct k; vm_compute; eexists; reflexivity. Qed.

(* UnmarshalBinary never panics and its loops never exhaust their fuel,
   for every packet type, every receiver state and every byte string *)
Theorem unmarshal_total k p0 data :
  unmarshal k p0 data <> UPanic /\ unmarshal k p0 data <> UFuel.
Proof.
  destruct (all_skeletons_safe k) as [w' Hs].
  unfold unmarshal, unmarshal_steps.
  set (s0 := {| dp := p0; ddata := data; dpos := 0; derr := None; dsteps := 0 |}).
  assert (I : inv false s0) by (split; [discriminate|cbn; lia]).
  pose proof (run_dec_post (dec_of k) false w' s0 Hs I) as P.
  destruct (run_dec (dec_of k) s0) as [s1| |]; try contradiction.
  cbn. destruct (derr s1); split; discriminate.
Qed.

(* the same for any decoder program that passes the static check: this
   is what a regenerated skeleton has to satisfy *)
Theorem program_total ds p0 data w' :
  safe_list ds false = Some w' ->
  exists s', run_dec ds {| dp := p0; ddata := data; dpos := 0; derr := None; dsteps := 0 |} = Run s'
             /\ ddata s' = data /\ (dpos s' <= length data)%nat.
Proof.
  intros Hs.
  set (s0 := {| dp := p0; ddata := data; dpos := 0; derr := None; dsteps := 0 |}).
  assert (I : inv false s0) by (split; [discriminate|cbn; lia]).
  pose proof (run_dec_post ds false w' s0 Hs I) as P.
  destruct (run_dec ds s0) as [s1| |]; try contradiction.
  exists s1. destruct P as [[_ Hp] [D _]]. split; [reflexivity|]. split; [exact D|].
  rewrite D in Hp. exact Hp.
Qed.
