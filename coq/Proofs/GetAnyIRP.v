(* Running the regenerated statement list of buffer.getAny is Codec.getany. *)
From MQ Require Import Model.GetAnyIR.
From Coq Require Import String Lia Arith.
Local Open Scope nat_scope.

Section G.
Variable E : genv.

Lemma aexec_list_inner l : forall a,
  (fix aexec_list (l : list astmt) (a : ast) : ares :=
     match l with
     | [] => AF (ANext a)
     | st' :: l' => match aexec E st' a with AF (ANext a') => aexec_list l' a' | r => r end
     end) l a = aexec_list E l a.
Proof.
  induction l as [|x l IH]; intros a; [reflexivity|].
  cbn [aexec_list]. destruct (aexec E x a) as [[a'|a'|a']| |]; first [reflexivity | apply IH].
Qed.

Fixpoint aloop (body : list astmt) (f : nat) (a : ast) : ares :=
  match f with
  | O => AFuel
  | S f' =>
    if (N.of_nat (dpos (a_s a)) <? a_end a)%N then
      match aexec_list E body a with
      | AF (ANext a') | AF (ACont a') => aloop body f' a'
      | r => r
      end
    else AF (ANext a)
  end.

Lemma aexec_for body a :
  aexec E (A_for_lt_end body) a = aloop body (getany_fuel (a_s a)) a.
Proof.
  cbn [aexec]. generalize (getany_fuel (a_s a)). intros f. revert a.
  induction f as [|f IH]; intros a; [reflexivity|].
  cbn [aloop]. destruct (N.of_nat (dpos (a_s a)) <? a_end a)%N; [|reflexivity].
  rewrite aexec_list_inner.
  destruct (aexec_list E body a) as [[a'|a'|a']| |]; first [reflexivity | apply IH].
Qed.

Lemma aexec_hasField body a :
  aexec E (A_if_hasField body) a = match a_field a with Some _ => aexec_list E body a | None => AF (ANext a) end.
Proof. cbn [aexec]. destruct (a_field a); [apply aexec_list_inner|reflexivity]. Qed.

Lemma aexec_addSub body a :
  aexec E (A_if_addSub body) a = match g_add_sub E with Some _ => aexec_list E body a | None => AF (ANext a) end.
Proof. cbn [aexec]. destruct (g_add_sub E); [apply aexec_list_inner|reflexivity]. Qed.

Fixpoint apick (a : ast) (cs : list (N * list astmt)) (default : list astmt) : ares :=
  match cs with
  | [] => aexec_list E default a
  | (k, body) :: cs' => if (a_id a =? k)%N then aexec_list E body a else apick a cs' default
  end.

Lemma aexec_switch cases default a : aexec E (A_switch_id cases default) a = apick a cases default.
Proof.
  cbn [aexec]. induction cases as [|[k body] cs IH]; cbn [apick].
  - apply aexec_list_inner.
  - destruct (a_id a =? k)%N; [apply aexec_list_inner|apply IH].
Qed.

Lemma aexec_list_cons x l a :
  aexec_list E (x :: l) a = match aexec E x a with AF (ANext a') => aexec_list E l a' | r => r end.
Proof. reflexivity. Qed.
Lemma aexec_list_nil a : aexec_list E [] a = AF (ANext a).
Proof. reflexivity. Qed.
End G.

Ltac asel := cbn [a_s a_plen a_end a_id a_field a_p a_sub with_s].
Ltac ahead :=
  first [ rewrite aexec_list_cons;
          first [ rewrite aexec_for | rewrite aexec_hasField | rewrite aexec_addSub | rewrite aexec_switch | cbn [aexec] ]
        | rewrite aexec_list_nil; cbn [aexec] ]; asel.

(* facts about the guarded reader *)
Lemma get_with_no_err {A} (dc : list byte -> outcome A) wd s s1 :
  get_with dc wd s = GNo s1 -> exists e, derr s1 = Some e.
Proof.
  unfold get_with. destruct (derr (tick s)) as [e|] eqn:He.
  - intros H. injection H as <-. eauto.
  - destruct (Nat.leb _ _).
    + intros H. injection H as <-. cbn. eauto.
    + destruct (dc _) as [v|e|]; try discriminate.
      * destruct (Nat.ltb _ _); discriminate.
      * intros H. injection H as <-. cbn. eauto.
Qed.

Lemma get_u8_ok_no_err old s v s1 : get_val U8 old s = GOk v s1 -> derr s1 = None.
Proof.
  unfold get_val, get_with. destruct (derr (tick s)) as [e|] eqn:He; [discriminate|].
  destruct (Nat.leb (List.length (ddata (tick s))) (dpos (tick s))) eqn:Hl; [discriminate|].
  destruct (decode U8 old _) as [x|e|]; try discriminate.
  assert (W : width U8 x = 1) by reflexivity. rewrite W.
  apply Nat.leb_gt in Hl.
  destruct (Nat.ltb _ _) eqn:Hc.
  - apply Nat.ltb_lt in Hc. cbn [advance ddata dpos] in Hc. lia.
  - intros H. injection H as _ <-. cbn [advance derr]. exact He.
Qed.

Lemma get_with_data {A} (dc : list byte -> outcome A) wd s :
  match get_with dc wd s with
  | GOk _ s1 | GNo s1 => ddata s1 = ddata s
  | GPanic => True
  end.
Proof.
  unfold get_with. destruct (derr (tick s)); [reflexivity|].
  destruct (Nat.leb _ _); [reflexivity|].
  destruct (dc _); try reflexivity; try exact I.
  destruct (Nat.ltb _ _); reflexivity.
Qed.

Definition gbody : list astmt :=
  [A_get_id; A_if_err_ret; A_lookup_field;
   A_if_hasField [A_get_field; A_continue];
   A_switch_id [(UserProperty, [A_get_userprop; A_addProp]);
                (SubscriptionID, [A_get_sub; A_if_addSub [A_call_addSub]])]
               [A_set_err_unknown]].

Definition res_of (r : ares) : res :=
  match r with
  | AF (ANext a) | AF (ARet a) | AF (ACont a) => Run (a_s a)
  | APanic => RPanic
  | AFuel => RFuel
  end.

Section Loop.
Variables (m : list (N * fref * wt)) (will : bool) (sm : submode).
Let E := env_of_mode m will sm.

Lemma aloop_ok f : forall s pl endp id fld p sub,
  res_of (aloop E gbody f (mka s pl endp id fld p sub)) = getany_loop f m will sm endp id s.
Proof.
  induction f as [|f IH]; intros s pl endp id fld p sub; [reflexivity|].
  cbn [aloop getany_loop a_s a_end].
  destruct (N.of_nat (dpos s) <? endp)%N; [|reflexivity].
  unfold gbody at 1. ahead.
  destruct (get_val U8 (VN id) s) as [v s1|s1|] eqn:Hg; [| |reflexivity].
  2:{ (* the identifier could not be read: b.err is set, getAny returns *)
      ahead. destruct (get_with_no_err _ _ _ _ Hg) as [e He]. rewrite He. reflexivity. }
  ahead. rewrite (get_u8_ok_no_err _ _ _ _ Hg). ahead.
  set (id' := valN v).
  (* fields[id] *)
  destruct sm eqn:Hsm; unfold E; cbn [env_of_mode g_field g_add_prop g_add_sub].
  - (* NoSub *)
    destruct (lookup_prop m id') as [[r w]|] eqn:Hl.
    + ahead. ahead. destruct (Codec.get r w s1) as [s2| |]; [|reflexivity|reflexivity].
      ahead. apply IH.
    + ahead. ahead. cbn [apick a_id]. fold id'.
      destruct (id' =? UserProperty)%N.
      * ahead. destruct (get_with dec_userprop width_userprop s1) as [kv s2|s2|]; [| |reflexivity];
        ahead; cbn [env_of_mode g_add_prop];
        (destruct (add_uprop will _ (dp s2)) as [p'|]; [|reflexivity]); ahead; apply IH.
      * destruct (id' =? SubscriptionID)%N.
        -- ahead. destruct (get_val Vb (VN 0) s1) as [v2 s2|s2|]; [| |reflexivity];
           ahead; cbn [env_of_mode g_add_sub]; ahead; apply IH.
        -- ahead. ahead. apply IH.
  - (* AddSub *)
    destruct (lookup_prop m id') as [[r w]|] eqn:Hl.
    + ahead. ahead. destruct (Codec.get r w s1) as [s2| |]; [|reflexivity|reflexivity].
      ahead. apply IH.
    + ahead. ahead. cbn [apick a_id]. fold id'.
      destruct (id' =? UserProperty)%N.
      * ahead. destruct (get_with dec_userprop width_userprop s1) as [kv s2|s2|]; [| |reflexivity];
        ahead; cbn [env_of_mode g_add_prop];
        (destruct (add_uprop will _ (dp s2)) as [p'|]; [|reflexivity]); ahead; apply IH.
      * destruct (id' =? SubscriptionID)%N.
        -- ahead. destruct (get_val Vb (VN 0) s1) as [v2 s2|s2|]; [| |reflexivity];
           ahead; cbn [env_of_mode g_add_sub]; repeat ahead; cbn [env_of_mode g_add_sub]; repeat ahead; apply IH.
        -- ahead. ahead. apply IH.
  - (* SubOpt *)
    destruct (id' =? SubscriptionID)%N eqn:Hid.
    + ahead. ahead.
      destruct (get_val Vb (VN 0) (with_pkt (set_subid (dp s1) (Some 0%N)) s1)) as [v2 s2|s2|]; [| |reflexivity];
      ahead; apply IH.
    + destruct (lookup_prop m id') as [[r w]|] eqn:Hl.
      * ahead. ahead. destruct (Codec.get r w s1) as [s2| |]; [|reflexivity|reflexivity].
        ahead. apply IH.
      * ahead. ahead. cbn [apick a_id]. fold id'. rewrite Hid.
        destruct (id' =? UserProperty)%N.
        -- ahead. destruct (get_with dec_userprop width_userprop s1) as [kv s2|s2|]; [| |reflexivity];
           ahead; cbn [env_of_mode g_add_prop];
           (destruct (add_uprop will _ (dp s2)) as [p'|]; [|reflexivity]); ahead; apply IH.
        -- ahead. ahead. apply IH.
Qed.

Theorem getany_is_prog s : run_getany getany_prog E s = getany m will sm s.
Proof.
  unfold run_getany, getany, getany_prog. fold gbody. ahead.
  destruct (at_end s); [reflexivity|].
  ahead.
  pose proof (get_with_data (decode Vb (VN 0)) (width Vb) s) as Hd. fold (get_val Vb (VN 0) s) in Hd.
  destruct (get_val Vb (VN 0) s) as [v s1|s1|]; [| |reflexivity];
  ahead; ahead; rewrite aexec_list_cons, aexec_for; asel; unfold getany_fuel; rewrite Hd;
  match goal with |- context [aloop ?E0 gbody ?f ?a] =>
    pose proof (aloop_ok f s1 (a_plen a) (a_end a) 0%N None ([], []) 0%N) as H end;
  asel; cbn [a_plen a_end] in H;
  match goal with |- context [aloop ?E0 gbody ?f ?a] => destruct (aloop E0 gbody f a) as [[a'|a'|a']| |] end;
  cbn [res_of] in H; rewrite <- H; try reflexivity; ahead; reflexivity.
Qed.
End Loop.
