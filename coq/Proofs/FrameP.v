(* One frame, any delivery: consequences of StreamP.read_packet_frame. *)
From MQ Require Import Model.Stream Proofs.BytesP Proofs.VbP Proofs.StreamP Proofs.DecP Proofs.ReadP.
From Coq Require Import ZArith Lia ZifyN ZifyNat ZifyBool.

(* what a frame decodes to is defined for every frame *)
Lemma decode_frame_defined b0 body : exists po eo, decode_frame b0 body = Some (po, eo).
Proof.
  unfold decode_frame. destruct (fresh_pkt (b2n b0)) as [k p0].
  destruct body as [|x body]; [do 2 eexists; reflexivity|].
  destruct (unmarshal_total k p0 (x :: body)) as [U1 U2].
  destruct (unmarshal k p0 (x :: body)); try congruence; do 2 eexists; reflexivity.
Qed.

(* For every frame (first byte, any terminated 1-4 byte remaining
   length, body of that length - well formed content or not), every
   continuation rest of the stream and every way the reader delivers
   them: ReadPacket obtains exactly the bytes of the frame, its result
   is a function of the frame alone, and the reader is left exactly at
   the first byte after the frame. *)
Lemma frame_exact : forall b0 hdr body rest s,
  wf_vb hdr = true -> len body = vb_value hdr ->
  sbytes s = b0 :: hdr ++ body ++ rest ->
  avail (len (b0 :: hdr ++ body)) s = true ->
  exists po eo tr,
    decode_frame b0 body = Some (po, eo) /\
    read_packet s = RP {| r_pkt := po; r_err := eo;
                          r_rest := sdrop (len (b0 :: hdr ++ body)) s;
                          r_trace := tr; r_got := b0 :: hdr ++ body |} /\
    sbytes (sdrop (len (b0 :: hdr ++ body)) s) = rest.
Proof.
  intros b0 hdr body rest s W L Hs Hav.
  destruct (decode_frame_defined b0 body) as [po [eo D]].
  destruct (read_packet_frame b0 hdr body rest s po eo W L Hs Hav D) as [tr E].
  exists po, eo, tr. split; [exact D|]. split; [exact E|].
  rewrite sbytes_sdrop by exact Hav. rewrite Hs.
  replace (b0 :: hdr ++ body ++ rest) with ((b0 :: hdr ++ body) ++ rest)
    by (cbn; rewrite <- app_assoc; reflexivity).
  rewrite skipn_app_le by (unfold len; lia).
  replace (N.to_nat (len (b0 :: hdr ++ body)) - length (b0 :: hdr ++ body))%nat with 0%nat
    by (unfold len; lia).
  reflexivity.
Qed.

(* successive calls: frame after frame, in order *)
Fixpoint frames_bytes (fs : list (byte * list byte * list byte)) : list byte :=
  match fs with
  | [] => []
  | (b0, hdr, body) :: fs' => (b0 :: hdr ++ body) ++ frames_bytes fs'
  end.

Fixpoint read_all (n : nat) (s : script) : list (option (option (kind * pkt) * option err)) :=
  match n with
  | O => []
  | S n' => match read_packet s with
            | RP r => Some (r_pkt r, r_err r) :: read_all n' (r_rest r)
            | _ => [None]
            end
  end.

Definition framed (f : byte * list byte * list byte) : Prop :=
  let '(b0, hdr, body) := f in wf_vb hdr = true /\ len body = vb_value hdr.

Lemma frame_sequence : forall fs rest s,
  Forall framed fs -> sbytes s = frames_bytes fs ++ rest ->
  avail (len (frames_bytes fs)) s = true ->
  read_all (length fs) s = map (fun f => let '(b0, _, body) := f in decode_frame b0 body) fs.
Proof.
  induction fs as [|[[b0 hdr] body] fs IH]; intros rest s Hf Hs Hav; [reflexivity|].
  inversion Hf as [|? ? Hfr Hf']; subst. cbn in Hfr. destruct Hfr as [W L].
  cbn [frames_bytes] in *. rewrite <- app_assoc in Hs.
  rewrite len_app in Hav.
  assert (Hav1 : avail (len (b0 :: hdr ++ body)) s = true).
  { apply (avail_mono s _ _ Hav). lia. }
  destruct (frame_exact b0 hdr body (frames_bytes fs ++ rest) s W L) as [po [eo [tr [D [E R]]]]].
  { rewrite Hs. cbn. rewrite <- app_assoc. reflexivity. }
  { exact Hav1. }
  cbn [length read_all map]. rewrite E. cbn [r_pkt r_err r_rest]. rewrite D.
  f_equal.
  apply (IH rest); [exact Hf'|exact R|].
  apply avail_sdrop. exact Hav.
Qed.

(* Any two readers that deliver the same frame - whatever follows it,
   however the bytes are split over Read calls (down to one byte at a
   time), with zero-length reads in between, and with an error (io.EOF
   included) reported in the same call as the last byte or later -
   give the same packet or the same rejection, namely that of the
   single-chunk reader. *)
Lemma frame_fragmentation : forall b0 hdr body rest rest' s s',
  wf_vb hdr = true -> len body = vb_value hdr ->
  sbytes s = b0 :: hdr ++ body ++ rest -> avail (len (b0 :: hdr ++ body)) s = true ->
  sbytes s' = b0 :: hdr ++ body ++ rest' -> avail (len (b0 :: hdr ++ body)) s' = true ->
  exists r r', read_packet s = RP r /\ read_packet s' = RP r' /\
               r_pkt r = r_pkt r' /\ r_err r = r_err r' /\ r_got r = r_got r'.
Proof.
  intros b0 hdr body rest rest' s s' W L Hs Ha Hs' Ha'.
  destruct (frame_exact b0 hdr body rest s W L Hs Ha) as [po [eo [tr [D [E _]]]]].
  destruct (frame_exact b0 hdr body rest' s' W L Hs' Ha') as [po' [eo' [tr' [D' [E' _]]]]].
  rewrite D in D'. injection D' as <- <-.
  do 2 eexists. split; [exact E|]. split; [exact E'|]. repeat split; reflexivity.
Qed.

(* the single-chunk reader is one such delivery *)
Lemma one_delivers bs : sbytes (one bs) = bs ++ [] /\ avail (len bs) (one bs) = true.
Proof.
  split; [reflexivity|]. cbn. rewrite (proj2 (N.leb_le _ _)) by lia. reflexivity.
Qed.

