(* Shape of every encoder: first byte, remaining length, body (C10). *)
From MQ Require Import Model.Stream Proofs.BytesP Proofs.VbP.
From Coq Require Import ZArith Lia ZifyN ZifyNat ZifyBool.

Lemma run_enc_app a b p : run_enc (a ++ b) p = opt_app (run_enc a p) (run_enc b p).
Proof.
  induction a as [|e a IH]; cbn [app run_enc].
  - destruct (run_enc b p); reflexivity.
  - rewrite IH. destruct (run_enc1 e p), (run_enc a p), (run_enc b p); cbn; try reflexivity.
    rewrite app_assoc. reflexivity.
Qed.

(* the list interpreter nested inside run_enc1 is run_enc *)
Lemma run_list_eq p : forall es,
  (fix run_list (es : list enc) : option (list byte) :=
     match es with
     | [] => Some []
     | e' :: es' => opt_app (run_enc1 e' p) (run_list es')
     end) es = run_enc es p.
Proof. induction es as [|e es IH]; [reflexivity|]. cbn [run_enc]. rewrite IH. reflexivity. Qed.

Lemma run_enc1_vblen es p : run_enc1 (EVbLen es) p = option_map (fun bs => enc_vb (len bs)) (run_enc es p).
Proof. cbn [run_enc1]. rewrite run_list_eq. reflexivity. Qed.

(* every writable packet type's fill is: first byte, vbint of the dry
   run of the rest, the rest *)
Definition body_of (k : kind) : option (list enc) :=
  match k with
  | KUndefined => None
  | KConnect => Some (connect_vh ++ connect_payload)
  | KConnAck => Some connack_vh
  | KPublish => Some (publish_vh ++ publish_payload)
  | KPubAck | KPubRec | KPubRel | KPubComp => Some ack_vh
  | KSubscribe => Some (subscribe_vh ++ [EFilters])
  | KSubAck | KUnsubAck => Some (suback_vh ++ [EReasonCodes])
  | KUnsubscribe => Some (unsubscribe_vh ++ [EUnsubFilters])
  | KPingReq | KPingResp => Some []
  | KDisconnect => Some disconnect_vh
  | KAuth => Some auth_vh
  end.

Lemma enc_of_shape k : k <> KUndefined -> k <> KPingReq -> k <> KPingResp ->
  exists b, body_of k = Some b /\ enc_of k = Some ([EFill (M F_fixed) U8; EVbLen b] ++ b).
Proof.
  intros H0 H1 H2. destruct k; try congruence; eexists; split; reflexivity.
Qed.

Lemma ping_frame p : run_enc enc_ping p = Some (n2b (getN (M F_fixed) p) :: enc_vb (len (@nil byte)) ++ []).
Proof. reflexivity. Qed.

Theorem encode_frame k p bs : encode_pkt k p = Some bs ->
  exists body, bs = n2b (getN (M F_fixed) p) :: enc_vb (len body) ++ body.
Proof.
  unfold encode_pkt. intros H.
  destruct (kind_eqb k KPingReq || kind_eqb k KPingResp) eqn:Hp.
  { assert (E : enc_of k = Some enc_ping) by (destruct k; try discriminate; reflexivity).
    rewrite E, ping_frame in H. injection H as <-. exists []. reflexivity. }
  assert (H0 : k <> KUndefined) by (intros ->; discriminate H).
  destruct (enc_of_shape k H0) as [b [Hb He]]; try (intros ->; discriminate Hp).
  rewrite He, run_enc_app in H. cbn [run_enc] in H. rewrite run_enc1_vblen in H.
  cbn [run_enc1 getf_opt option_map] in H.
  destruct (run_enc b p) as [body|]; cbn [option_map opt_app] in H; [|discriminate H].
  injection H as <-. exists body. unfold encode, enc_u8.
  rewrite app_nil_r. reflexivity.
Qed.
