(* Running the regenerated statement lists of wiretypes.go's encoder methods
   (Model/WireIR.v) is the positional model of Model/Fill.v, for every value,
   buffer and position. *)
From MQ Require Import Model.WireIR Proofs.FillP.
From Coq Require Import String Lia.
Local Open Scope nat_scope.

Lemma exec_list_inner E l : forall s,
  (fix exec_list (l : list ws) (s : wst) : option wflow :=
     match l with
     | [] => Some (Next s)
     | st' :: l' => match exec E st' s with Some (Next s') => exec_list l' s' | r => r end
     end) l s = exec_list E l s.
Proof.
  induction l as [|a l IH]; intros s; [reflexivity|].
  cbn [exec_list]. destruct (exec E a s) as [[s'|s' r|s']|]; try reflexivity. apply IH.
Qed.

Lemma exec_if E c th el s :
  exec E (S_if c th el) s = if ev_c E s c then exec_list E th s else exec_list E el s.
Proof. cbn [exec]. destruct (ev_c E s c); apply exec_list_inner. Qed.

Fixpoint for_loop (E : wenv) (body : list ws) (f : nat) (s : wst) : option wflow :=
  match f with
  | O => Some (Next s)
  | S f' =>
    match exec_list E body s with
    | Some (Next s') => for_loop E body f' s'
    | Some (Brk s') => Some (Next s')
    | r => r
    end
  end.

Lemma exec_for E body s : exec E (S_for body) s = for_loop E body loop_fuel s.
Proof.
  cbn [exec]. generalize loop_fuel. intros f. revert s.
  induction f as [|f IH]; intros s; [reflexivity|].
  cbn [for_loop]. rewrite exec_list_inner.
  destruct (exec_list E body s) as [[s'|s' r|s']|]; try reflexivity. apply IH.
Qed.

Opaque loop_fuel.

Ltac get_prog :=
  match goal with |- context [prog ?name] =>
    let p := eval vm_compute in (prog name) in change (prog name) with p end.

Ltac sel := cbn [s_buf s_i s_n s_x s_eb set_buf set_i e_v e_id e_self_fill e_self_width
                 wv_n wv_b wv_s wv_k wv_v ev_c ev_i ev_b call_k wenv_of env_userprop valN valB valS fst snd].

Lemma exec_list_cons E a l s :
  exec_list E (a :: l) s = match exec E a s with Some (Next s') => exec_list E l s' | r => r end.
Proof. reflexivity. Qed.
Lemma exec_list_nil E s : exec_list E [] s = Some (Next s).
Proof. reflexivity. Qed.

(* one statement at the head of the list (the rest stays folded); conditionals
   and loops are left to the caller *)
Ltac head :=
  first [ rewrite exec_list_cons; first [ rewrite exec_if | rewrite exec_for | cbn [exec] ]
        | rewrite exec_list_nil; cbn [exec] ]; sel.

Lemma run_u16_fill n id buf i :
  run_fill (prog "wuint16.fill") (wenv_of U16 (VN n) id) buf i = fill_u16 n buf i.
Proof.
  unfold run_fill, fill_u16. get_prog. head.
  destruct (Nat.leb (i + 2) (List.length buf)).
  - head. destruct (put_at buf i (enc_u16 n)); [|reflexivity]. head. head. reflexivity.
  - head. head. reflexivity.
Qed.

Lemma run_u8_fill name n id buf i : name = "bits.fill"%string \/ name = "Ident.fill"%string ->
  run_fill (prog name) (wenv_of U8 (VN n) id) buf i = fill_u8 n buf i.
Proof.
  intros [->| ->]; unfold run_fill, fill_u8, ret; get_prog; head;
  (destruct (Nat.leb (i + 1) (List.length buf));
   [ head; destruct (poke buf i (n2b n)); [|reflexivity]; head; head; reflexivity
   | head; head; reflexivity ]).
Qed.

Lemma run_bool_fill b id buf i :
  run_fill (prog "wbool.fill") (wenv_of WBool (VB b) id) buf i = fill_bool b buf i.
Proof.
  unfold run_fill, fill_bool, ret. get_prog. head.
  destruct (Nat.leb (i + 1) (List.length buf)).
  - head. destruct b; head; sel; change (n2b 1) with x01; change (n2b 0) with x00;
    match goal with |- context [poke ?x ?y ?z] => destruct (poke x y z) end; try reflexivity; head; head; reflexivity.
  - head. head. reflexivity.
Qed.

Lemma run_u32_fill n id buf i :
  run_fill (prog "wuint32.fill") (wenv_of U32 (VN n) id) buf i = fill_u32 n buf i.
Proof.
  unfold run_fill, fill_u32, ret. get_prog. head.
  destruct (Nat.leb (i + 4) (List.length buf)).
  - head. destruct (put_at buf i (enc_u32 n)); [|reflexivity]. head. head. reflexivity.
  - head. head. reflexivity.
Qed.

Lemma run_bin_fill s id buf i :
  run_fill (prog "bindata.fill") (wenv_of Bin (VS s) id) buf i = fill_bin s buf i.
Proof.
  unfold run_fill, fill_bin. get_prog. head.
  destruct (Nat.leb (i + (2 + List.length s)) (List.length buf)).
  - head. destruct (fill_u16 (len s mod 65536) buf i) as [[b1 n1]|]; [|reflexivity].
    head. destruct (copy_at b1 (i + n1) s) as [[b2 n2]|]; [|reflexivity]. head. head. reflexivity.
  - head. head. reflexivity.
Qed.

Lemma run_raw_fill s id buf i :
  run_fill (prog "rawdata.fill") (wenv_of Raw (VS s) id) buf i = fill_raw s buf i.
Proof.
  unfold run_fill, fill_raw. get_prog. head.
  destruct (Nat.leb (i + List.length s) (List.length buf)).
  - head. destruct (copy_at buf i s) as [[b2 n2]|]; reflexivity.
  - head. head. reflexivity.
Qed.

Lemma run_raw_fillprop s id buf i :
  run_fill (prog "rawdata.fillProp") (wenv_of Raw (VS s) id) buf i = None.
Proof. reflexivity. Qed.

Lemma run_ident_fillprop n id buf i :
  run_fill (prog "Ident.fillProp") (wenv_of U8 (VN n) id) buf i = Some (buf, 0).
Proof. reflexivity. Qed.

(* width methods: nothing is written, the model's width is returned *)
Lemma run_widths buf i id :
  (forall n, run_fill (prog "bits.width") (wenv_of U8 (VN n) id) buf i = Some (buf, 1)) /\
  (forall n, run_fill (prog "Ident.width") (wenv_of U8 (VN n) id) buf i = Some (buf, 1)) /\
  (forall b, run_fill (prog "wbool.width") (wenv_of WBool (VB b) id) buf i = Some (buf, 1)) /\
  (forall n, run_fill (prog "wuint16.width") (wenv_of U16 (VN n) id) buf i = Some (buf, 2)) /\
  (forall n, run_fill (prog "wuint32.width") (wenv_of U32 (VN n) id) buf i = Some (buf, 4)) /\
  (forall s, run_fill (prog "bindata.width") (wenv_of Bin (VS s) id) buf i = Some (buf, 2 + List.length s)) /\
  (forall s, run_fill (prog "rawdata.width") (wenv_of Raw (VS s) id) buf i = Some (buf, List.length s)) /\
  (forall n, run_fill (prog "vbint.width") (wenv_of Vb (VN n) id) buf i = Some (buf, dry_count (fill_vb n [] 0))) /\
  (forall kv, run_fill (prog "UserProp.width") (env_userprop kv id) buf i = Some (buf, width_userprop kv)).
Proof. repeat split; intros; reflexivity. Qed.

(* every fillProp: nothing for the zero value, else the identifier byte and the value *)
Lemma run_prop_tail E buf i :
  exec_list E prop_tail (mkst buf i 0 0%N 0%N) =
  match id_then (e_id E) (e_self_fill E) buf i with
  | Some (b, n) => Some (Ret (mkst b (i + n) i 0%N 0%N) n)
  | None => None
  end.
Proof.
  unfold prop_tail, id_then. head. head.
  destruct (fill_u8 (e_id E) buf i) as [[b1 n1]|]; [|reflexivity].
  head. destruct (e_self_fill E b1 (i + n1)) as [[b2 n2]|]; [|reflexivity].
  head. replace (i + n1 + n2) with (i + (i + n1 + n2 - i)) at 1 by lia. reflexivity.
Qed.

Lemma run_fillprop w v id buf i : w <> Raw ->
  run_fill (prog (go_type w ++ ".fillProp")) (wenv_of w v id) buf i = wfill_prop w id v buf i.
Proof.
  intros Hw. unfold run_fill, wfill_prop.
  destruct w; try congruence; cbn [go_type append]; get_prog; fold prop_tail;
  cbn [exec_list]; rewrite exec_if; sel; unfold is_zero;
  match goal with |- context [if ?c then _ else _] => destruct c eqn:Hz end;
  try (cbn [exec_list exec ev_i]; reflexivity);
  try (destruct (valS v) eqn:Hs; [cbn [exec_list exec ev_i]; reflexivity|]);
  cbn [exec_list]; rewrite run_prop_tail; sel; unfold wfill; try rewrite Hs;
  match goal with |- context [id_then ?a ?f ?b ?j] => destruct (id_then a f b j) as [[b' n']|] end; reflexivity.
Qed.

Lemma run_bits_fillopt n id buf i :
  run_fill (prog "bits.fillOpt") (wenv_of U8 (VN n) id) buf i = fill_opt n buf i.
Proof.
  unfold run_fill, fill_opt. get_prog. head.
  destruct (n =? 0)%N.
  - cbn [exec_list exec ev_i]. reflexivity.
  - head. head. destruct (fill_u8 n buf i) as [[b1 n1]|]; reflexivity.
Qed.

Lemma run_userprop_fill kv id buf i :
  run_fill (prog "UserProp.fill") (env_userprop kv id) buf i = fill_userprop kv buf i.
Proof.
  unfold run_fill, fill_userprop. get_prog. head.
  destruct (fill_bin (fst kv) buf i) as [[b1 n1]|]; [|reflexivity].
  head. destruct (fill_bin (snd kv) b1 (i + n1)) as [[b2 n2]|]; [|reflexivity].
  head. reflexivity.
Qed.

Lemma run_userprop_fillprop kv id buf i :
  run_fill (prog "UserProp.fillProp") (env_userprop kv id) buf i = fill_userprop_prop id kv buf i.
Proof.
  unfold run_fill, fill_userprop_prop. get_prog. fold prop_tail.
  cbn [exec_list]. rewrite exec_if. sel.
  destruct (fst kv) eqn:Hk.
  - cbn [exec_list exec ev_i]. reflexivity.
  - cbn [exec_list]. rewrite run_prop_tail. sel.
    destruct (id_then id (fill_userprop kv) buf i) as [[b' n']|]; reflexivity.
Qed.

(* vbint.fill: the loop *)
Lemma lor128 x : N.lor (x mod 128) 128 = (x mod 128 + 128)%N.
Proof.
  assert (H0 : N.land (x mod 128) 128 = 0%N); [|rewrite <- N.lxor_lor, N.add_nocarry_lxor by exact H0; reflexivity].
  apply N.bits_inj. intros k.
  rewrite N.land_spec, N.bits_0. change 128%N with (2 ^ 7)%N.
  destruct (N.ltb_spec k 7).
  - rewrite N.pow2_bits_false by lia. apply Bool.andb_false_r.
  - rewrite N.mod_pow2_bits_high by lia. reflexivity.
Qed.

Definition vb_body : list ws :=
  [S_eb_mod; S_x_div; S_if C_xpos [S_eb_or128] [];
   S_if (C_lt I_i I_lendata) [S_poke I_i B_eb] [];
   S_inc_i; S_if C_xzero [S_break] []].

Lemma for_vb E f : forall x buf i n0 eb0,
  match for_loop E vb_body f (mkst buf i n0 x eb0) with
  | Some (Next s') => vb_fill_loop f x buf i = Some (s_buf s', s_i s') /\ s_n s' = n0
  | None => vb_fill_loop f x buf i = None
  | _ => False
  end.
Proof.
  induction f as [|f IH]; intros x buf i n0 eb0; [cbn; auto|].
  cbn [for_loop vb_fill_loop]. unfold vb_body at 1.
  head. head. head.
  assert (Hz : ((x / 128 =? 0) = negb (0 <? x / 128))%N).
  { destruct (x / 128)%N; reflexivity. }
  destruct (0 <? x / 128)%N eqn:Hpos.
  - head. head. rewrite lor128. head.
    destruct (Nat.ltb i (List.length buf)).
    + head. destruct (poke buf i (n2b (x mod 128 + 128))) as [b'|]; [|reflexivity].
      head. head. head. rewrite Hz. cbn [negb]. head.
      fold vb_body. apply IH.
    + head. head. head. rewrite Hz. cbn [negb]. head. fold vb_body. apply IH.
  - head. head.
    destruct (Nat.ltb i (List.length buf)).
    + head. destruct (poke buf i (n2b (x mod 128))) as [b'|]; [|reflexivity].
      head. head. head. rewrite Hz. cbn [negb]. repeat head. cbn. auto.
    + head. head. head. rewrite Hz. cbn [negb]. repeat head. cbn. auto.
Qed.

Lemma run_vb_fill n id buf i :
  run_fill (prog "vbint.fill") (wenv_of Vb (VN n) id) buf i = fill_vb n buf i.
Proof.
  unfold run_fill, fill_vb. get_prog. fold vb_body. head. head.
  rewrite exec_list_cons, exec_for.
  Transparent loop_fuel. unfold loop_fuel. Opaque loop_fuel.
  match goal with |- context [for_loop ?E vb_body 10 ?s] =>
    pose proof (for_vb E 10 n buf i i 0%N) as H;
    destruct (for_loop E vb_body 10 s) as [[s'|s' r|s']|] end.
  - destruct H as [H1 H2]. rewrite H1. head. rewrite H2. reflexivity.
  - contradiction.
  - contradiction.
  - rewrite H. reflexivity.
Qed.

(* ------------------------------------------------------------------ *)
(* all wire types at once                                               *)

Theorem wire_fill_is_prog w v id buf i :
  run_fill (prog (go_type w ++ ".fill")) (wenv_of w v id) buf i = wfill w v buf i.
Proof.
  destruct w; cbn [go_type append wfill].
  - exact (run_u8_fill _ (valN v) id buf i (or_introl eq_refl)).
  - exact (run_u16_fill (valN v) id buf i).
  - exact (run_u32_fill (valN v) id buf i).
  - exact (run_bool_fill (valB v) id buf i).
  - exact (run_bin_fill (valS v) id buf i).
  - exact (run_raw_fill (valS v) id buf i).
  - exact (run_vb_fill (valN v) id buf i).
Qed.

Theorem wire_fillprop_is_prog w v id buf i :
  run_fill (prog (go_type w ++ ".fillProp")) (wenv_of w v id) buf i = wfill_prop w id v buf i.
Proof.
  destruct w; try reflexivity; apply run_fillprop; discriminate.
Qed.

Theorem wire_width_is_prog w v id buf i :
  run_fill (prog (go_type w ++ ".width")) (wenv_of w v id) buf i = Some (buf, e_self_width (wenv_of w v id)).
Proof. destruct w; reflexivity. Qed.

Theorem ident_is_prog n id buf i :
  run_fill (prog "Ident.fill") (wenv_of U8 (VN n) id) buf i = fill_u8 n buf i /\
  run_fill (prog "Ident.fillProp") (wenv_of U8 (VN n) id) buf i = Some (buf, 0) /\
  run_fill (prog "Ident.width") (wenv_of U8 (VN n) id) buf i = Some (buf, 1).
Proof. split; [exact (run_u8_fill _ n id buf i (or_intror eq_refl))|split; reflexivity]. Qed.

Theorem userprop_is_prog kv id buf i :
  run_fill (prog "UserProp.fill") (env_userprop kv id) buf i = fill_userprop kv buf i /\
  run_fill (prog "UserProp.fillProp") (env_userprop kv id) buf i = fill_userprop_prop id kv buf i /\
  run_fill (prog "UserProp.width") (env_userprop kv id) buf i = Some (buf, width_userprop kv).
Proof.
  split; [apply run_userprop_fill|split; [apply run_userprop_fillprop|reflexivity]].
Qed.

(* the width the guards of fill use is the number of bytes the type contributes *)
Lemma self_width_is_length w v id : w <> Vb ->
  e_self_width (wenv_of w v id) = List.length (encode w v).
Proof.
  intros Hw. destruct w; try congruence; cbn [wenv_of e_self_width encode]; try reflexivity.
Qed.

(* the width methods return the number of bytes the type contributes - the
   amount buffer.get advances by after a decode (Wire.width) *)
Theorem wire_width_is_width w v id buf i :
  run_fill (prog (go_type w ++ ".width")) (wenv_of w v id) buf i = Some (buf, Wire.width w v).
Proof.
  rewrite wire_width_is_prog. unfold Wire.width. f_equal. f_equal.
  destruct w; try (apply self_width_is_length; discriminate).
  cbn [wenv_of e_self_width encode].
  destruct (fill_vb_ok (valN v) [] 0) as (b' & E & _). rewrite E. reflexivity.
Qed.
