(* String() never panics: the only partial step is the encoder's dry
   run dereferencing Connect.will under the will flag (C19). *)
From MQ Require Import Model.Render Proofs.BytesP Proofs.DecP Proofs.FrameFieldP Proofs.EncP.
From Coq Require Import ZArith Lia.
From Coq Require Import List. Import ListNotations.
Open Scope N_scope.

(* the representation invariant of CONNECT: will flag set => will allocated *)
Definition Inv (p : pkt) : Prop :=
  has (getN (M F_flags) p) WillFlag = true -> hasWill p = true.

(* ---- encoders are total when the will is allocated ---- *)
Lemma opt_app_some a b : a <> None -> b <> None -> opt_app a b <> None.
Proof. destruct a, b; cbn; congruence. Qed.

Lemma run_enc1_haswill p : hasWill p = true -> forall e, run_enc1 e p <> None.
Proof.
  intros Hw. fix IH 1. intros e.
  assert (IHl : forall es, run_enc es p <> None).
  { induction es as [|e' es IHes]; [discriminate|]. cbn [run_enc]. apply opt_app_some; [apply IH|exact IHes]. }
  assert (G : forall r, getf_opt r p <> None) by (intros [f|f]; cbn; [|rewrite Hw]; discriminate).
  destruct e; cbn [run_enc1]; rewrite ?run_list_eq; try discriminate.
  - specialize (G r). destruct (getf_opt r p); [discriminate|congruence].
  - specialize (G r). destruct (getf_opt r p); [discriminate|congruence].
  - specialize (G r). destruct (getf_opt r p); [discriminate|congruence].
  - specialize (IHl es). destruct (run_enc es p); [discriminate|congruence].
  - destruct (eval_cond c p no_env); apply IHl.
  - pose proof (IHl sub). destruct (run_enc sub p) as [[|? ?]|]; [apply IHl|apply IHl|congruence].
  - rewrite Hw. destruct will; discriminate.
  - destruct (subid p); discriminate.
Qed.

(* ---- encoders that name no will field (except under the will flag) ---- *)
Definition is_will_guard (c : cond) : bool :=
  match c with CHas (M F_flags) m => m =? WillFlag | _ => false end.

Fixpoint nwr (skip : bool) (e : enc) {struct e} : bool :=
  let nwr_list := fix nwr_list (es : list enc) : bool :=
    match es with [] => true | e' :: es' => nwr skip e' && nwr_list es' end in
  match e with
  | EFill (W _) _ | EFillProp (W _) _ _ | EFillOpt (W _) => false
  | EFill (M _) _ | EFillProp (M _) _ _ | EFillOpt (M _) => true
  | EVbLen es => nwr_list es
  | EIf c a b => if skip && is_will_guard c then nwr_list b else nwr_list a && nwr_list b
  | EIfEmpty s a b => nwr_list s && nwr_list a && nwr_list b
  | EUserProps will => negb will
  | _ => true
  end.
Fixpoint nwr_list (skip : bool) (es : list enc) : bool :=
  match es with [] => true | e :: es' => nwr skip e && nwr_list skip es' end.

Lemma nwr_inner skip : forall es,
  (fix nwr_list (es : list enc) : bool :=
     match es with [] => true | e' :: es' => nwr skip e' && nwr_list es' end) es = nwr_list skip es.
Proof. induction es as [|e es IH]; [reflexivity|]. cbn [nwr_list]. rewrite IH. reflexivity. Qed.

Lemma run_enc1_nwr p skip :
  (skip = true -> has (getN (M F_flags) p) WillFlag = false) ->
  forall e, nwr skip e = true -> run_enc1 e p <> None.
Proof.
  intros Hs. fix IH 1. intros e.
  assert (IHl : forall es, nwr_list skip es = true -> run_enc es p <> None).
  { induction es as [|e' es IHes]; [discriminate|]. cbn [run_enc nwr_list]. intros H.
    apply andb_prop in H as [H1 H2]. apply opt_app_some; [apply IH; exact H1|apply IHes; exact H2]. }
  destruct e; cbn [nwr run_enc1]; rewrite ?run_list_eq, ?nwr_inner; try discriminate.
  - destruct r; cbn; intros H; discriminate.
  - destruct r; cbn; intros H; discriminate.
  - destruct r; cbn; intros H; discriminate.
  - intros H. specialize (IHl es H). destruct (run_enc es p); [discriminate|congruence].
  - destruct (skip && is_will_guard c) eqn:G.
    + apply andb_prop in G as [G1 G2]. intros H.
      destruct c as [[f|f] m| | | | | | |]; try discriminate G2.
      destruct f; try discriminate G2. cbn in G2. apply N.eqb_eq in G2. subst m.
      cbn [eval_cond]. rewrite (Hs G1). apply IHl. exact H.
    + intros H. apply andb_prop in H as [H1 H2]. destruct (eval_cond c p no_env); apply IHl; assumption.
  - intros H. apply andb_prop in H as [H H3]. apply andb_prop in H as [H1 H2].
    pose proof (IHl sub H1) as Q. destruct (run_enc sub p) as [[|? ?]|]; [apply IHl; assumption|apply IHl; assumption|congruence].
  - destruct will; cbn; intros H; discriminate.
  - intros _. destruct (subid p); discriminate.
Qed.

Lemma skeletons_nwr : forall k es, enc_of k = Some es ->
  nwr_list (kind_eqb k KConnect) es = true.
Proof. intros k es; destruct k; cbn [enc_of]; intros H; try discriminate; injection H as <-; vm_compute; reflexivity. Qed.

Lemma run_enc_haswill p es : hasWill p = true -> run_enc es p <> None.
Proof.
  intros Hw. induction es as [|e es IH]; [discriminate|]. cbn [run_enc].
  apply opt_app_some; [apply run_enc1_haswill; exact Hw|exact IH].
Qed.

Lemma run_enc_nwr p skip es :
  (skip = true -> has (getN (M F_flags) p) WillFlag = false) ->
  nwr_list skip es = true -> run_enc es p <> None.
Proof.
  intros Hs. induction es as [|e es IH]; [discriminate|]. cbn [run_enc nwr_list]. intros Hn.
  apply andb_prop in Hn as [H1 H2].
  apply opt_app_some; [apply (run_enc1_nwr p _ Hs); exact H1|apply IH; exact H2].
Qed.

Theorem encode_total k p : k <> KUndefined -> (k = KConnect -> Inv p) -> encode_pkt k p <> None.
Proof.
  intros Hk HI. unfold encode_pkt. destruct (enc_of k) as [es|] eqn:E; [|destruct k; try congruence; discriminate].
  pose proof (skeletons_nwr k es E) as Hn.
  destruct (hasWill p) eqn:Hw; [apply run_enc_haswill; exact Hw|].
  apply (run_enc_nwr p (kind_eqb k KConnect)); [|exact Hn].
  intros Hc. assert (H : k = KConnect) by (destruct k; try discriminate; reflexivity).
  specialize (HI H). unfold Inv in HI. destruct (has (getN (M F_flags) p) WillFlag); [|reflexivity].
  rewrite HI in Hw by reflexivity. discriminate.
Qed.

Theorem string_total k p : (k = KConnect -> Inv p) -> string_toks k p <> None.
Proof.
  intros HI. unfold string_toks, size_toks.
  destruct k; try discriminate;
    match goal with |- context [encode_pkt ?k p] =>
      pose proof (encode_total k p ltac:(discriminate) HI) as H;
      destruct (encode_pkt k p); [discriminate|congruence] end.
Qed.

(* ---- the invariant holds for every packet a program can hold ---- *)
Lemma Inv_zero : Inv zero_pkt.
Proof. unfold Inv. cbn. discriminate. Qed.

Lemma Inv_ctor k : Inv (ctor k).
Proof. unfold Inv. destruct k; cbn; discriminate. Qed.

(* ---- setters keep the invariant ---- *)
Lemma has_lor v m : N.land m WillFlag = 0 -> has (N.lor v m) WillFlag = has v WillFlag.
Proof. intros H. unfold has. rewrite N.land_lor_distr_l, H, N.lor_0_r. reflexivity. Qed.

Lemma has_land v c : N.land c WillFlag = WillFlag -> has (N.land v c) WillFlag = has v WillFlag.
Proof. intros H. unfold has. rewrite <- N.land_assoc, H. reflexivity. Qed.

Lemma has_toggle v m on : (m = CleanStart \/ m = UsernameFlag \/ m = PasswordFlag) ->
  has (toggle v m on) WillFlag = has v WillFlag.
Proof.
  intros H. unfold toggle. destruct on.
  - apply has_lor. destruct H as [H|[H|H]]; subst m; reflexivity.
  - apply has_land. destruct H as [H|[H|H]]; subst m; reflexivity.
Qed.

Lemma getN_setf_other f g v p : fld_eqb f g = false -> getN (M f) (setf (M g) v p) = getN (M f) p.
Proof. intros H. unfold getN. cbn. unfold upd. rewrite H. reflexivity. Qed.

Lemma Inv_setf g v p : fld_eqb F_flags g = false -> Inv p -> Inv (setf (M g) v p).
Proof.
  intros H I. unfold Inv in *. rewrite getN_setf_other by exact H.
  replace (hasWill (setf (M g) v p)) with (hasWill p) by reflexivity. exact I.
Qed.

Lemma Inv_toggle m on p : (m = CleanStart \/ m = UsernameFlag \/ m = PasswordFlag) ->
  Inv p -> Inv (toggleF F_flags m on p).
Proof.
  intros Hm I. unfold Inv, toggleF, setN in *.
  replace (getN (M F_flags) (setf (M F_flags) (VN (toggle (getN (M F_flags) p) m on)) p))
    with (toggle (getN (M F_flags) p) m on) by reflexivity.
  rewrite has_toggle by exact Hm. exact I.
Qed.

Theorem Inv_step c p : applicable KConnect c = true -> Inv p -> Inv (step c p).
Proof.
  intros Ha I. destruct c; try discriminate Ha; cbn [step];
    try (apply Inv_setf; [reflexivity|exact I]);
    try (apply Inv_toggle; [auto|exact I]);
    try (apply Inv_toggle; [auto|apply Inv_setf; [reflexivity|exact I]]).
  - (* SetWill *) unfold Inv. intros _. reflexivity.
  - (* AddUserProp *) exact I.
Qed.

(* ---- decoding a CONNECT establishes the invariant, also when it fails ---- *)
Lemma run_dec_app a b s :
  run_dec (a ++ b) s = match run_dec a s with Run s' => run_dec b s' | x => x end.
Proof.
  revert s. induction a as [|d a IH]; intros s; [reflexivity|]. cbn [app run_dec].
  destruct (run_dec1 d s); [apply IH|reflexivity|reflexivity].
Qed.

Lemma run_dec_inner : forall ds s,
  (fix run_list (ds : list dec) (s : dstate) {struct ds} : res :=
     match ds with
     | [] => Run s
     | d' :: ds' => match run_dec1 d' s with Run s' => run_list ds' s' | x => x end
     end) ds s = run_dec ds s.
Proof. induction ds as [|d ds IH]; intros s; [reflexivity|]. cbn [run_dec]. destruct (run_dec1 d s); auto. Qed.

Definition connect_pre : list dec :=
  [DGet (M F_protocolName) Bin; DGet (M F_protocolVersion) U8; DGet (M F_flags) U8;
   DGet (M F_keepAlive) U16; DGetAny connect_map false NoSub; DGet (M F_clientID) Bin].
Definition connect_will : list dec :=
  [DWillInit; DGetAny will_map true NoSub; DGet (W F_topicName) Bin;
   DGet (M F_willPayload) Bin; DWillPayloadCopy].
Definition connect_post : list dec :=
  [DIf (CHas (M F_flags) UsernameFlag) [DGet (M F_username) Bin];
   DIf (CHas (M F_flags) PasswordFlag) [DGet (M F_password) Bin]].

Lemma dec_connect_split :
  dec_connect = connect_pre ++ [DIf (CHas (M F_flags) WillFlag) connect_will] ++ connect_post.
Proof. reflexivity. Qed.

Lemma flags_kept ds s : nw_field F_flags ds = true ->
  match run_dec ds s with Run s' => getN (M F_flags) (dp s') = getN (M F_flags) (dp s) | _ => True end.
Proof.
  intros H. pose proof (field_kept F_flags ds s H) as K.
  destruct (run_dec ds s); [|exact I|exact I]. unfold keeps, Rfield_s, Rfield in K. unfold getN. cbn. rewrite K. reflexivity.
Qed.

Lemma will_kept' ds s :
  match run_dec ds s with Run s' => hasWill (dp s) = true -> hasWill (dp s') = true | _ => True end.
Proof. pose proof (will_kept ds s) as K. destruct (run_dec ds s); [exact K|exact I|exact I]. Qed.

Theorem Inv_unmarshal_connect p0 data :
  match unmarshal KConnect p0 data with
  | UOk p | UErr _ p => Inv p
  | _ => True
  end.
Proof.
  unfold unmarshal, unmarshal_steps. cbn [dec_of]. rewrite dec_connect_split.
  set (s0 := {| dp := p0; ddata := data; dpos := 0; derr := None; dsteps := 0 |}).
  rewrite run_dec_app.
  destruct (run_dec connect_pre s0) as [s1| |]; [|exact I|exact I].
  rewrite run_dec_app. cbn [run_dec run_dec1]. rewrite run_dec_inner.
  cbn [eval_cond].
  destruct (has (getN (M F_flags) (dp s1)) WillFlag) eqn:Hf.
  - (* will flag set: the will is allocated first, and stays *)
    change connect_will with ([DWillInit] ++ tl connect_will). rewrite run_dec_app.
    cbn [run_dec run_dec1].
    set (s2 := with_pkt (will_init (dp s1)) s1).
    assert (H2 : hasWill (dp s2) = true) by reflexivity.
    pose proof (will_kept' (tl connect_will) s2) as K3.
    destruct (run_dec (tl connect_will) s2) as [s3| |]; [|exact I|exact I].
    specialize (K3 H2).
    pose proof (will_kept' connect_post s3) as K4.
    destruct (run_dec connect_post s3) as [s4| |]; [|exact I|exact I].
    specialize (K4 K3). cbn. destruct (derr s4); intros _; exact K4.
  - (* will flag clear, and nothing after writes the flags *)
    pose proof (flags_kept connect_post s1 ltac:(vm_compute; reflexivity)) as K4.
    destruct (run_dec connect_post s1) as [s4| |]; [|exact I|exact I].
    cbn. unfold Inv. destruct (derr s4); rewrite K4, Hf; discriminate.
Qed.
