(* The interpretation of the regenerated dump item lists (Model/DumpIR.v, tied
   to the source by gen/SyncDump.v) is Render.dump_toks, the function the
   theorems of C18 and C19 are about. *)
From MQ Require Import Model.Api Model.AccIR Model.Render Model.DumpIR.
From Coq Require Import List String.

Lemma run_dump_is_dump_toks k p : run_dump k p = dump_toks k p.
Proof.
  destruct k; unfold run_dump; cbn [dump_ir map List.concat]; rewrite ?app_nil_r; try reflexivity.
  (* CONNECT: the will message is dumped by Publish's item list *)
  cbn [run_ditem dump_ir run_ditems0 map List.concat]. rewrite ?app_nil_r. reflexivity.
Qed.
