(* Running the regenerated statement list of vbint.ReadFrom is Stream.vb_stream. *)
From MQ Require Import Model.ReadIR Proofs.WireDecIRP Proofs.BytesP.
From Coq Require Import String Lia Arith ZArith ZifyN ZifyNat ZifyBool.
Local Open Scope nat_scope.

Lemma rexec_list_inner l : forall s,
  (fix rexec_list (l : list rs) (s : rst) : rres :=
     match l with
     | [] => RF (RNext s)
     | st' :: l' => match rexec st' s with RF (RNext s') => rexec_list l' s' | r => r end
     end) l s = rexec_list l s.
Proof.
  induction l as [|a l IH]; intros s; [reflexivity|].
  cbn [rexec_list]. destruct (rexec a s) as [[s'|s' e|s']|s'|]; first [reflexivity | apply IH].
Qed.

Lemma rexec_if c body s : rexec (R_if c body) s = if ev_rc s c then rexec_list body s else RF (RNext s).
Proof. cbn [rexec]. destruct (ev_rc s c); [apply rexec_list_inner|reflexivity]. Qed.

Fixpoint rloop (body : list rs) (f : nat) (s : rst) : rres :=
  match f with
  | O => RFuelF
  | S f' =>
    match rexec_list body s with
    | RF (RNext s') => rloop body f' s'
    | RF (RBrk s') => RF (RNext s')
    | r => r
    end
  end.

Lemma rexec_for body s : rexec (R_for body) s = rloop body read_fuel s.
Proof.
  cbn [rexec]. generalize read_fuel. intros f. revert s.
  induction f as [|f IH]; intros s; [reflexivity|].
  cbn [rloop]. rewrite rexec_list_inner.
  destruct (rexec_list body s) as [[s'|s' e|s']|s'|]; first [reflexivity | apply IH].
Qed.

Lemma rexec_list_cons a l s :
  rexec_list (a :: l) s = match rexec a s with RF (RNext s') => rexec_list l s' | r => r end.
Proof. reflexivity. Qed.
Lemma rexec_list_nil s : rexec_list [] s = RF (RNext s).
Proof. reflexivity. Qed.

Ltac rsel := cbn [q_s q_tr q_got q_data q_i q_mult q_value q_eb q_v ev_rc].
Ltac rhead :=
  first [ rewrite rexec_list_cons; first [ rewrite rexec_if | rewrite rexec_for | cbn [rexec] ]
        | rewrite rexec_list_nil; cbn [rexec] ]; rsel.

Definition vb_rbody : list rs :=
  [R_readfull_or_ret; R_inc_i; R_eb_data0; R_value_acc;
   R_if (RC_mult_gt 2097152) [R_ret_err ESizeExceeded];
   R_if RC_eb_hi0 [R_break];
   R_mult_step].

Lemma rloop_vb f : forall mult value s tr got i eb d0,
  match rloop vb_rbody f (mkr s tr got [d0] i mult value eb None) with
  | RFuelF => vb_stream_loop f mult value s tr got = None
  | RF (RNext q) => vb_stream_loop f mult value s tr got = Some (Ok (q_value q), q_s q, q_tr q, q_got q) /\ q_v q = None
  | RF (RRet q (Some e)) => vb_stream_loop f mult value s tr got = Some (Err e, q_s q, q_tr q, q_got q)
  | RPanicF q => vb_stream_loop f mult value s tr got = Some (Panic, q_s q, q_tr q, q_got q)
  | _ => False
  end.
Proof.
  induction f as [|f IH]; intros mult value s tr got i eb d0; [reflexivity|].
  cbn [rloop vb_stream_loop]. unfold vb_rbody at 1. rhead.
  change (len [d0]) with 1%N.
  destruct (read_full 1 s) as [[[[bs [e|]] s'] t]|]; [| |reflexivity].
  - repeat rhead. reflexivity.
  - repeat rhead.
    destruct bs as [|b [|b2 bs']]; [reflexivity| |reflexivity].
    repeat rhead. rewrite byte_low7.
    change (128 * 128 * 128)%N with 2097152%N.
    destruct (2097152 <? mult)%N; [repeat rhead; reflexivity|].
    repeat rhead. rewrite byte_hi0.
    destruct (b2n b <? 128)%N.
    + repeat rhead. split; reflexivity.
    + repeat rhead. fold vb_rbody.
      exact (IH (mult * 128)%N (value + b2n b mod 128 * mult)%N s' (tr ++ t) (got ++ [b]) (S i) (b2n b) b).
Qed.

Definition drop_count (r : option (outcome N * script * list N * list byte * nat))
  : option (outcome N * script * list N * list byte) :=
  match r with Some (o, s, t, g, _) => Some (o, s, t, g) | None => None end.

Theorem vb_read_is_prog s : drop_count (run_vbread vb_read_prog s) = vb_stream s.
Proof.
  unfold run_vbread, vb_stream, vb_read_prog. fold vb_rbody.
  rhead. rhead. rhead. rhead. rewrite rexec_list_cons, rexec_for.
  change read_fuel with 6.
  pose proof (rloop_vb 6 1%N 0%N s [] [] 0 0%N x00) as H.
  destruct (rloop vb_rbody 6 _) as [[q|q [e|]|q]|q|].
  - destruct H as [H1 H2]. rewrite H1. repeat rhead. reflexivity.
  - rewrite H. reflexivity.
  - contradiction.
  - contradiction.
  - rewrite H. reflexivity.
  - rewrite H. reflexivity.
Qed.

(* the count ReadFrom returns is the number of bytes it took from the reader *)
Local Open Scope N_scope.

Lemma read_call_len n s bs e s' : read_call n s = (bs, e, s') -> len bs <= n.
Proof.
  unfold read_call. destruct s as [|[c ce] s0].
  - intros H. injection H as <- _ _. rewrite len_nil. lia.
  - destruct (len c <=? n) eqn:E.
    + intros H. injection H as <- _ _. apply N.leb_le in E. exact E.
    + intros H. injection H as <- _ _. unfold len. rewrite firstn_length. lia.
Qed.

Lemma read_full_loop_len : forall fuel need acc s tr bs e s' tr',
  len acc <= need ->
  read_full_loop fuel need acc s tr = Some (bs, e, s', tr') ->
  len bs <= need /\ (e = None -> len bs = need) /\ (e <> None -> len bs < need).
Proof.
  induction fuel as [|fuel IH]; intros need acc s tr bs e s' tr' Hacc H; [discriminate|].
  cbn [read_full_loop] in H.
  destruct (read_call (need - len acc) s) as [[cb ce] cs] eqn:Hc.
  apply read_call_len in Hc.
  assert (La : len (acc ++ cb) <= need) by (rewrite len_app; lia).
  destruct (need <=? len (acc ++ cb)) eqn:Hd.
  - injection H as <- <- _ _. apply N.leb_le in Hd. repeat split; try lia. congruence.
  - apply N.leb_gt in Hd. destruct ce as [ce|].
    + destruct ce; injection H as <- <- _ _; repeat split; try lia; try discriminate; congruence.
    + eapply IH; eassumption.
Qed.

Local Open Scope nat_scope.

Lemma read_full_1 s bs e s' t : read_full 1 s = Some (bs, e, s', t) ->
  match e with None => List.length bs = 1 | Some _ => bs = [] end.
Proof.
  unfold read_full. intros H. apply read_full_loop_len in H; [|rewrite len_nil; lia].
  destruct H as (H1 & H2 & H3). destruct e as [e|].
  - assert (len bs < 1)%N by (apply H3; discriminate). destruct bs; [reflexivity|]. rewrite len_cons in H. lia.
  - specialize (H2 eq_refl). unfold len in H2. lia.
Qed.

Definition count_ok (r : rres) : Prop :=
  match r with
  | RF (RNext q) | RF (RRet q _) | RF (RBrk q) | RPanicF q => q_i q = List.length (q_got q)
  | RFuelF => True
  end.

Lemma rloop_vb_count f : forall mult value s tr got i eb d0 v,
  i = List.length got ->
  count_ok (rloop vb_rbody f (mkr s tr got [d0] i mult value eb v)).
Proof.
  induction f as [|f IH]; intros mult value s tr got i eb d0 v Hi; [exact I|].
  cbn [rloop]. unfold vb_rbody at 1. rhead.
  change (len [d0]) with 1%N.
  destruct (read_full 1 s) as [[[[bs [e|]] s'] t]|] eqn:Hr; [| |exact I].
  - apply read_full_1 in Hr. subst bs. repeat rhead. cbn [count_ok q_i q_got]. rewrite app_nil_r. exact Hi.
  - apply read_full_1 in Hr.
    destruct bs as [|b [|b2 bs']]; try discriminate Hr.
    repeat rhead.
    destruct (2097152 <? mult)%N; [repeat rhead; cbn [count_ok q_i q_got]; rewrite app_length; cbn; lia|].
    repeat rhead.
    destruct (N.land (b2n b) 128 =? 0)%N.
    + repeat rhead. cbn [count_ok q_i q_got]. rewrite app_length. cbn. lia.
    + repeat rhead. fold vb_rbody. apply IH. rewrite app_length. cbn. lia.
Qed.

Theorem vb_read_count s o s' t g n :
  run_vbread vb_read_prog s = Some (o, s', t, g, n) -> n = List.length g.
Proof.
  unfold run_vbread, vb_read_prog. fold vb_rbody.
  rhead. rhead. rhead. rhead. rewrite rexec_list_cons, rexec_for.
  change read_fuel with 6.
  pose proof (rloop_vb_count 6 1%N 0%N s [] [] 0 0%N x00 None eq_refl) as H.
  destruct (rloop vb_rbody 6 _) as [[q|q e|q]|q|]; cbn [count_ok] in H.
  - repeat rhead. intros E. injection E as _ _ _ <- <-. exact H.
  - destruct e as [e|]; [|destruct (q_v q)]; intros E; injection E as _ _ _ <- <-; exact H.
  - intros E; injection E as _ _ _ <- <-; exact H.
  - intros E; injection E as _ _ _ <- <-; exact H.
  - discriminate.
Qed.

(* the allocation switch of ReadRemaining, as regenerated, is Stream.fresh_pkt
   for every first byte (a sweep over the 256 bytes) *)
Lemma dispatch_is_fresh (x : byte) : dispatch_run (b2n x) = fresh_pkt (b2n x).
Proof. destruct x; vm_compute; reflexivity. Qed.
