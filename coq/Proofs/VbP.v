(* Variable byte integers: the encoder loop of vbint.fill and the
   in-memory decoder vbint.UnmarshalBinary (Wire.v). *)
From MQ Require Import Model.Wire Proofs.BytesP.
From Coq Require Import ZArith Lia ZifyN ZifyNat ZifyBool.
Ltac Zify.zify_post_hook ::= Z.div_mod_to_equations.

(* ---- what MQTT 1.5.5 defines, independently of the code ---- *)
Definition cont (b : byte) : bool := 128 <=? b2n b.
Fixpoint vb_value (bs : list byte) : N :=
  match bs with [] => 0 | b :: r => b2n b mod 128 + 128 * vb_value r end.
(* 1..4 bytes, continuation bit on all but the last *)
Definition wf_vb (bs : list byte) : bool :=
  match bs with
  | [a] => negb (cont a)
  | [a; b] => cont a && negb (cont b)
  | [a; b; c] => cont a && cont b && negb (cont c)
  | [a; b; c; d] => cont a && cont b && cont c && negb (cont d)
  | _ => false
  end.
Definition vb_len (n : N) : nat :=
  if n <? 128 then 1 else if n <? 16384 then 2 else if n <? 2097152 then 3 else 4.

Lemma vb_enc_step f x :
  vb_enc_loop (S f) x =
  if 0 <? x / 128 then n2b (x mod 128 + 128) :: vb_enc_loop f (x / 128)
  else [n2b (x mod 128)].
Proof. reflexivity. Qed.

Lemma ltb_t a b : a < b -> (a <? b) = true.  Proof. intros; apply N.ltb_lt; assumption. Qed.
Lemma ltb_f a b : b <= a -> (a <? b) = false. Proof. intros; apply N.ltb_ge; assumption. Qed.

Lemma enc_vb_1 n : n < 128 -> enc_vb n = [n2b n].
Proof.
  intros H. unfold enc_vb. rewrite vb_enc_step.
  rewrite ltb_f by lia. rewrite N.mod_small by lia. reflexivity.
Qed.

Lemma enc_vb_2 n : 128 <= n < 16384 ->
  enc_vb n = [n2b (n mod 128 + 128); n2b (n / 128)].
Proof.
  intros H. unfold enc_vb. rewrite vb_enc_step. rewrite ltb_t by lia.
  rewrite vb_enc_step. rewrite ltb_f by lia.
  rewrite (N.mod_small (n / 128)) by lia. reflexivity.
Qed.

Lemma enc_vb_3 n : 16384 <= n < 2097152 ->
  enc_vb n = [n2b (n mod 128 + 128); n2b (n / 128 mod 128 + 128); n2b (n / 128 / 128)].
Proof.
  intros H. unfold enc_vb. rewrite vb_enc_step. rewrite ltb_t by lia.
  rewrite vb_enc_step. rewrite ltb_t by lia.
  rewrite vb_enc_step. rewrite ltb_f by lia.
  rewrite (N.mod_small (n / 128 / 128)) by lia. reflexivity.
Qed.

Lemma enc_vb_4 n : 2097152 <= n < 268435456 ->
  enc_vb n = [n2b (n mod 128 + 128); n2b (n / 128 mod 128 + 128);
              n2b (n / 128 / 128 mod 128 + 128); n2b (n / 128 / 128 / 128)].
Proof.
  intros H. unfold enc_vb. rewrite vb_enc_step. rewrite ltb_t by lia.
  rewrite vb_enc_step. rewrite ltb_t by lia.
  rewrite vb_enc_step. rewrite ltb_t by lia.
  rewrite vb_enc_step. rewrite ltb_f by lia.
  rewrite (N.mod_small (n / 128 / 128 / 128)) by lia. reflexivity.
Qed.

Lemma enc_vb_cases n : n < 268435456 ->
  (n < 128 /\ enc_vb n = [n2b n]) \/
  (128 <= n < 16384 /\ enc_vb n = [n2b (n mod 128 + 128); n2b (n / 128)]) \/
  (16384 <= n < 2097152 /\
   enc_vb n = [n2b (n mod 128 + 128); n2b (n / 128 mod 128 + 128); n2b (n / 128 / 128)]) \/
  (2097152 <= n < 268435456 /\
   enc_vb n = [n2b (n mod 128 + 128); n2b (n / 128 mod 128 + 128);
               n2b (n / 128 / 128 mod 128 + 128); n2b (n / 128 / 128 / 128)]).
Proof.
  intros H.
  destruct (N.ltb_spec n 128); [left; split; [lia | apply enc_vb_1; lia]|].
  destruct (N.ltb_spec n 16384); [right; left; split; [lia | apply enc_vb_2; lia]|].
  destruct (N.ltb_spec n 2097152); [right; right; left; split; [lia | apply enc_vb_3; lia]|].
  right; right; right; split; [lia | apply enc_vb_4; lia].
Qed.

Lemma enc_vb_length n : n < 268435456 -> length (enc_vb n) = vb_len n.
Proof.
  intros H. unfold vb_len.
  destruct (enc_vb_cases n H) as [[H1 E]|[[H1 E]|[[H1 E]|[H1 E]]]]; rewrite E; simpl length.
  - rewrite ltb_t by lia; reflexivity.
  - rewrite ltb_f, ltb_t by lia; reflexivity.
  - rewrite ltb_f, ltb_f, ltb_t by lia; reflexivity.
  - rewrite ltb_f, ltb_f, ltb_f by lia; reflexivity.
Qed.

Ltac bsimp :=
  repeat match goal with
  | |- context [b2n (n2b ?x)] => rewrite (b2n_n2b_small x) by lia
  end.

Lemma enc_vb_wf n : n < 268435456 -> wf_vb (enc_vb n) = true /\ vb_value (enc_vb n) = n.
Proof.
  intros H.
  destruct (enc_vb_cases n H) as [[H1 E]|[[H1 E]|[[H1 E]|[H1 E]]]]; rewrite E;
    unfold wf_vb, vb_value, cont; bsimp; split; lia.
Qed.

(* the decoder's view of one step *)
Lemma vb_mem_step b d mult value :
  vb_mem_loop (b :: d) mult value =
  if 128 * 128 * 128 <? mult then Err ESizeExceeded
  else if b2n b <? 128 then Ok (value + (b2n b mod 128) * mult)
  else vb_mem_loop d (mult * 128) (value + (b2n b mod 128) * mult).
Proof. reflexivity. Qed.

Lemma dec_vb_cons b d : dec_vb (b :: d) = vb_mem_loop (b :: d) 1 0.
Proof. reflexivity. Qed.

(* a well-formed encoding followed by anything decodes to its value *)
Lemma dec_vb_wf bs rest : wf_vb bs = true -> dec_vb (bs ++ rest) = Ok (vb_value bs).
Proof.
  unfold wf_vb, cont. intros H.
  destruct bs as [|a [|b [|c [|d [|e t]]]]]; try discriminate;
    cbn [app]; rewrite dec_vb_cons; repeat rewrite vb_mem_step;
    cbn [vb_value];
    repeat match goal with
    | |- context [?x <? ?y] =>
        (rewrite (ltb_t x y) by lia) || (rewrite (ltb_f x y) by lia)
    end; f_equal; lia.
Qed.

Theorem dec_enc_vb n rest : n < 268435456 -> dec_vb (enc_vb n ++ rest) = Ok n.
Proof.
  intros H. destruct (enc_vb_wf n H) as [W V]. rewrite (dec_vb_wf _ rest W), V. reflexivity.
Qed.

(* the guarded reader advances by width(), recomputed from the value *)
Lemma width_vb n : width Vb (VN n) = length (enc_vb n).
Proof. reflexivity. Qed.

(* bytes are determined by their number *)
Lemma byte_of_parts b c d : d < 128 -> b2n b = 128 * c + d -> c <= 1 -> b = n2b (128 * c + d).
Proof. intros Hd Hb Hc. rewrite <- Hb. symmetry. apply n2b_b2n. Qed.

(* among well-formed encodings of n, the code's is the shortest, and the
   only one of its length *)
Lemma wf_vb_minimal n bs' : n < 268435456 -> wf_vb bs' = true -> vb_value bs' = n ->
  (length (enc_vb n) <= length bs')%nat /\ (length bs' = length (enc_vb n) -> bs' = enc_vb n).
Proof.
  intros H W V. rewrite (enc_vb_length n H). unfold vb_len.
  unfold wf_vb, cont in W.
  destruct bs' as [|a [|b [|c [|d [|e t]]]]]; try discriminate; cbn [vb_value] in V;
    simpl length;
    pose proof (b2n_lt a) as Ha.
  - (* 1 byte *)
    assert (n < 128) by lia. rewrite ltb_t by lia. split; [lia|]. intros _.
    rewrite enc_vb_1 by lia. f_equal. apply b2n_inj. bsimp. lia.
  - pose proof (b2n_lt b) as Hb.
    destruct (N.ltb_spec n 128); [split; [lia|intros Q; discriminate Q]|].
    assert (n < 16384) by lia. rewrite ltb_t by lia. split; [lia|]. intros _.
    rewrite enc_vb_2 by lia. repeat f_equal; apply b2n_inj; bsimp; lia.
  - pose proof (b2n_lt b) as Hb. pose proof (b2n_lt c) as Hc.
    destruct (N.ltb_spec n 128); [split; [lia|intros Q; discriminate Q]|].
    destruct (N.ltb_spec n 16384); [split; [lia|intros Q; discriminate Q]|].
    assert (n < 2097152) by lia. rewrite ltb_t by lia. split; [lia|]. intros _.
    rewrite enc_vb_3 by lia. repeat f_equal; apply b2n_inj; bsimp; lia.
  - pose proof (b2n_lt b) as Hb. pose proof (b2n_lt c) as Hc. pose proof (b2n_lt d) as Hd.
    destruct (N.ltb_spec n 128); [split; [lia|intros Q; discriminate Q]|].
    destruct (N.ltb_spec n 16384); [split; [lia|intros Q; discriminate Q]|].
    destruct (N.ltb_spec n 2097152); [split; [lia|intros Q; discriminate Q]|].
    split; [lia|]. intros _.
    rewrite enc_vb_4 by lia. repeat f_equal; apply b2n_inj; bsimp; lia.
Qed.

(* ---- rejection ---- *)
Definition rejected {A} (o : outcome A) : Prop := exists e, o = Err e.

(* a sequence that ends while the continuation bit is still set *)
Lemma vb_mem_all_cont d : forall mult value,
  Forall (fun b => cont b = true) d -> rejected (vb_mem_loop d mult value).
Proof.
  induction d as [|b d IH]; intros mult value H.
  - eexists; reflexivity.
  - rewrite vb_mem_step. inversion H as [|? ? Hb Hd]; subst.
    destruct (128 * 128 * 128 <? mult); [eexists; reflexivity|].
    unfold cont in Hb. rewrite ltb_f by lia. apply IH; assumption.
Qed.

Lemma dec_vb_all_cont d : Forall (fun b => cont b = true) d -> rejected (dec_vb d).
Proof.
  intros H. destruct d as [|b d]; [eexists; reflexivity|].
  rewrite dec_vb_cons. apply vb_mem_all_cont; assumption.
Qed.

(* four continuation bytes followed by anything at all *)
Lemma dec_vb_five a b c d t :
  cont a = true -> cont b = true -> cont c = true -> cont d = true ->
  rejected (dec_vb (a :: b :: c :: d :: t)).
Proof.
  unfold cont. intros Ha Hb Hc Hd. rewrite dec_vb_cons. repeat rewrite vb_mem_step.
  repeat match goal with
  | |- context [?x <? ?y] =>
      (rewrite (ltb_t x y) by lia) || (rewrite (ltb_f x y) by lia)
  end.
  destruct t as [|e t]; [eexists; reflexivity|].
  rewrite vb_mem_step. rewrite ltb_t by lia. eexists; reflexivity.
Qed.

(* conversely: whatever the in-memory decoder accepts is the value of a
   well-formed prefix *)
Lemma dec_vb_ok_inv d n : dec_vb d = Ok n ->
  exists bs rest, d = bs ++ rest /\ wf_vb bs = true /\ vb_value bs = n.
Proof.
  intros H. destruct d as [|a d]; [discriminate|].
  rewrite dec_vb_cons, vb_mem_step in H. rewrite ltb_f in H by lia.
  destruct (N.ltb_spec (b2n a) 128).
  { exists [a], d. split; [reflexivity|]. unfold wf_vb, cont. cbn [vb_value].
    injection H as <-. split; lia. }
  destruct d as [|b d]; [discriminate|]. rewrite vb_mem_step in H. rewrite ltb_f in H by lia.
  destruct (N.ltb_spec (b2n b) 128).
  { exists [a; b], d. split; [reflexivity|]. unfold wf_vb, cont. cbn [vb_value].
    injection H as <-. split; lia. }
  destruct d as [|c d]; [discriminate|]. rewrite vb_mem_step in H. rewrite ltb_f in H by lia.
  destruct (N.ltb_spec (b2n c) 128).
  { exists [a; b; c], d. split; [reflexivity|]. unfold wf_vb, cont. cbn [vb_value].
    injection H as <-. split; lia. }
  destruct d as [|e d]; [discriminate|]. rewrite vb_mem_step in H. rewrite ltb_f in H by lia.
  destruct (N.ltb_spec (b2n e) 128).
  { exists [a; b; c; e], d. split; [reflexivity|]. unfold wf_vb, cont. cbn [vb_value].
    injection H as <-. split; lia. }
  destruct d as [|g d]; [discriminate|]. rewrite vb_mem_step in H. rewrite ltb_t in H by lia.
  discriminate.
Qed.

Lemma vb_value_bound bs : wf_vb bs = true -> vb_value bs < 268435456.
Proof.
  unfold wf_vb, cont. intros H.
  destruct bs as [|a [|b [|c [|d [|e t]]]]]; try discriminate; cbn [vb_value];
    repeat match goal with x : byte |- _ => pose proof (b2n_lt x); revert x end; intros; lia.
Qed.
