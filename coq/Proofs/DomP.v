(* Packets built with the public constructors and setters, from arguments
   inside MQTT's limits, are in the domain of the round-trip theorem. *)
From MQ Require Import Model.Codec Model.Api Model.Stream Proofs.BytesP Proofs.VbP Proofs.WireP Proofs.DecP
     Proofs.EncP Proofs.PropsP Proofs.RoundP.
From Coq Require Import ZArith Lia ZifyN ZifyNat ZifyBool.
Ltac Zify.zify_post_hook ::= Z.div_mod_to_equations.

(* ------------------------------------------------------------------ *)
(* finite sweeps over a byte *)
Definition all_N256 : list N := map N.of_nat (seq 0 256).
Lemma in_all_N256 n : n < 256 -> In n all_N256.
Proof.
  intros H. unfold all_N256. apply in_map_iff. exists (N.to_nat n). split; [lia|].
  apply in_seq. lia.
Qed.
Lemma forall_N256 (P : N -> bool) : forallb P all_N256 = true -> forall n, n < 256 -> P n = true.
Proof. intros H n Hn. rewrite forallb_forall in H. apply H. apply in_all_N256. exact Hn. Qed.

(* ------------------------------------------------------------------ *)
(* arguments within MQTT's limits *)
Definition str_ok (s : list byte) : Prop := len s < 65536.

(* a will message as SetWill accepts it inside the domain: a PUBLISH with
   QoS 0..2 and no DUP, no packet identifier, topic alias or subscription
   identifiers, fields within range *)
Record will_ok (w : pkt) : Prop := {
  wo_fixed : In (getN (M F_fixed) w) [48; 49; 50; 51; 52; 53];
  wo_fields : fields_valid (refs_of publish_map) w;
  wo_topic : valid_val Bin (getf (M F_topicName) w);
  wo_payload : valid_val Bin (getf (M F_payload) w);
  wo_pid : getN (M F_packetID) w = 0;
  wo_alias : getN (M F_topicAlias) w = 0;
  wo_subids : subids w = [];
  wo_ups : Forall up_ok (uprops w)
}.

Definition call_ok (c : call) : Prop :=
  match c with
  | SetWill w => will_ok w
  | SetWillDelayInterval n | SetSessionExpiryInterval n | SetMaxPacketSize n
  | SetMessageExpiryInterval n => n < 4294967296
  | SetProtocolVersion n | SetMaxQoS n | SetReasonCode n | AddReasonCode n => n < 256
  | SetKeepAlive n | SetReceiveMax n | SetTopicAliasMax n | SetServerKeepAlive n
  | SetPacketID n | SetTopicAlias n => n < 65536
  | SetProtocolName s | SetClientID s | SetAuthMethod s | SetAuthData s | SetUsername s
  | SetPassword s | SetAssignedClientID s | SetReasonString s | SetResponseInformation s
  | SetServerReference s | SetTopicName s | SetResponseTopic s | SetCorrelationData s
  | SetContentType s | AddUnsubFilter s => str_ok s
  | SetPayload _ => True
  | SetQoS n => n <= 2
  | AddSubscriptionID n => sid_ok n
  | SetSubscriptionID z => (1 <= z <= 268435455)%Z
  | AddFilter s o => str_ok s /\ o < 256
  | AddUserProp k v => k <> [] /\ str_ok k /\ str_ok v
  | SetCleanStart _ | SetRequestResponseInfo _ | SetRequestProblemInfo _ | SetSessionPresent _
  | SetRetainAvailable _ | SetWildcardSubAvailable _ | SetSubIdentifiersAvailable _
  | SetSharedSubAvailable _ | SetDuplicate _ | SetRetain _ | SetPayloadFormat _ => True
  end.

(* ------------------------------------------------------------------ *)
(* field validity as a computed conjunction *)
Fixpoint valid_all (l : list (fref * wt)) (p : pkt) : Prop :=
  match l with [] => True | (r, w) :: l' => valid_val w (getf r p) /\ valid_all l' p end.
Lemma valid_all_iff l p : fields_valid l p <-> valid_all l p.
Proof.
  unfold fields_valid. induction l as [|[r w] l IH]; cbn [valid_all].
  - split; [intros _; exact I|constructor].
  - split.
    + intros H. inversion H; subst. split; [assumption|apply IH; assumption].
    + intros [H1 H2]. constructor; [exact H1|apply IH; exact H2].
Qed.

Lemma up_ok_app ups k v : Forall up_ok ups -> k <> [] -> str_ok k -> str_ok v -> Forall up_ok (ups ++ [(k, v)]).
Proof.
  intros H Hk Hlk Hlv. apply Forall_app. split; [exact H|]. constructor; [|constructor].
  unfold up_ok. cbn [fst snd]. repeat split; assumption.
Qed.

(* ------------------------------------------------------------------ *)
(* bit twiddling on a byte, by exhaustion *)
Lemma toggle_small v m b : v < 256 -> In m [1; 2; 4; 8; 16; 32; 64; 128] -> toggle v m b < 256.
Proof.
  intros Hv Hm. apply N.ltb_lt.
  assert (H : forallb (fun v => forallb (fun m => (toggle v m true <? 256) && (toggle v m false <? 256))
                                        [1; 2; 4; 8; 16; 32; 64; 128]) all_N256 = true)
    by (vm_compute; reflexivity).
  pose proof (forall_N256 _ H v Hv) as H1. rewrite forallb_forall in H1. specialize (H1 m Hm).
  apply andb_prop in H1 as [Ht Hf]. destruct b; assumption.
Qed.

Ltac split_valid H := cbn [valid_all refs_of map eref ewt fst snd app] in H; split_ands.

(* a plain setter leaves every other field as it was *)
Ltac plain_setter :=
  cbn [valid_all refs_of map eref ewt fst snd app valid_val getf setf setN setB setS vals set_vals upd
       fld_eqb fld_idx N.eqb Pos.eqb valN valB valS];
  repeat split; try assumption; try exact I.

(* ------------------------------------------------------------------ *)
(* CONNACK *)
Definition inv_connack (p : pkt) : Prop :=
  getN (M F_fixed) p = 32 /\ valid_all connack_fields p /\ Forall up_ok (uprops p).

Lemma inv_connack_step c p : inv_connack p -> applicable KConnAck c = true -> call_ok c ->
  inv_connack (step c p).
Proof.
  intros [Hfx [Hv Hu]] Happ Hok. unfold connack_fields, connack_map in *. split_valid Hv.
  destruct c; try discriminate Happ; cbn [step call_ok] in *; unfold inv_connack, connack_fields, connack_map;
    (split; [exact Hfx|split; [|first [exact Hu | idtac]]]); try plain_setter.
  - unfold toggleF. plain_setter. apply toggle_small; [assumption|cbn; tauto].
  - destruct Hok as [Hk [Hlk Hlv]]. apply up_ok_app; assumption.
Qed.

(* PUBACK family *)
Definition inv_ack (k : kind) (p : pkt) : Prop :=
  getN (M F_fixed) p = ctor_fixed k /\ valid_all ack_fields p /\ Forall up_ok (uprops p).

Lemma inv_ack_step k c p : is_ack k = true -> inv_ack k p -> applicable k c = true -> call_ok c ->
  inv_ack k (step c p).
Proof.
  intros Hk [Hfx [Hv Hu]] Happ Hok. unfold ack_fields in *. split_valid Hv.
  destruct k; try discriminate Hk;
  (destruct c; try discriminate Happ; cbn [step call_ok] in *; unfold inv_ack, ack_fields;
    (split; [exact Hfx|split; [|first [exact Hu | idtac]]]); try plain_setter;
    destruct Hok as [Hk' [Hlk Hlv]]; apply up_ok_app; assumption).
Qed.

(* SUBACK, UNSUBACK *)
Definition inv_suback (k : kind) (p : pkt) : Prop :=
  getN (M F_fixed) p = ctor_fixed k /\ valid_all suback_fields p /\ Forall up_ok (uprops p)
  /\ Forall (fun n => n < 256) (rcodes p).

Lemma inv_suback_step k c p : is_suback k = true -> inv_suback k p -> applicable k c = true -> call_ok c ->
  inv_suback k (step c p).
Proof.
  intros Hk [Hfx [Hv [Hu Hr]]] Happ Hok. unfold suback_fields in *. split_valid Hv.
  destruct k; try discriminate Hk;
  (destruct c; try discriminate Happ; cbn [step call_ok] in *; unfold inv_suback, suback_fields;
    (split; [exact Hfx|split; [|split; [first [exact Hu | idtac]|first [exact Hr | idtac]]]]); try plain_setter;
    [ apply Forall_app; split; [exact Hr|constructor; [exact Hok|constructor]]
    | destruct Hok as [Hk' [Hlk Hlv]]; apply up_ok_app; assumption ]).
Qed.

(* UNSUBSCRIBE *)
Definition inv_unsubscribe (p : pkt) : Prop :=
  getN (M F_fixed) p = ctor_fixed KUnsubscribe /\ valid_all [(M F_packetID, U16)] p /\ Forall up_ok (uprops p)
  /\ Forall (fun f => len f < 65536) (ufilters p).

Lemma inv_unsubscribe_step c p : inv_unsubscribe p -> applicable KUnsubscribe c = true -> call_ok c ->
  inv_unsubscribe (step c p).
Proof.
  intros [Hfx [Hv [Hu Hr]]] Happ Hok. split_valid Hv.
  destruct c; try discriminate Happ; cbn [step call_ok] in *; unfold inv_unsubscribe;
    (split; [exact Hfx|split; [|split; [first [exact Hu | idtac]|first [exact Hr | idtac]]]]); try plain_setter.
  - apply Forall_app; split; [exact Hr|constructor; [exact Hok|constructor]].
  - destruct Hok as [Hk' [Hlk Hlv]]; apply up_ok_app; assumption.
Qed.

(* SUBSCRIBE *)
Definition inv_subscribe (p : pkt) : Prop :=
  getN (M F_fixed) p = ctor_fixed KSubscribe /\ valid_all [(M F_packetID, U16)] p /\ Forall up_ok (uprops p)
  /\ Forall filter_ok (filters p) /\ subopt_ok (subid p).

Lemma subid_ok_z z : (1 <= z <= 268435455)%Z -> sid_ok (Z.to_N (z mod 18446744073709551616)).
Proof. intros H. unfold sid_ok. rewrite Z.mod_small by lia. lia. Qed.

Lemma inv_subscribe_step c p : inv_subscribe p -> applicable KSubscribe c = true -> call_ok c ->
  inv_subscribe (step c p).
Proof.
  intros [Hfx [Hv [Hu [Hr Hs]]]] Happ Hok. split_valid Hv.
  destruct c; try discriminate Happ; cbn [step call_ok] in *; unfold inv_subscribe;
    (split; [exact Hfx|split; [|split; [first [exact Hu | idtac]|split; [first [exact Hr | idtac]|first [exact Hs | idtac]]]]]);
    try (cbn [subid set_subid subopt_ok]; apply subid_ok_z; exact Hok); try plain_setter.
  - apply Forall_app; split; [exact Hr|constructor; [|constructor]]. unfold filter_ok. cbn [fst snd]. exact Hok.
  - destruct Hok as [Hk' [Hlk Hlv]]; apply up_ok_app; assumption.
Qed.

(* DISCONNECT *)
Definition inv_disconnect (p : pkt) : Prop :=
  getN (M F_fixed) p = ctor_fixed KDisconnect /\ valid_all ((M F_reasonCode, U8) :: refs_of disconnect_map) p
  /\ Forall up_ok (uprops p).

Lemma inv_disconnect_step c p : inv_disconnect p -> applicable KDisconnect c = true -> call_ok c ->
  inv_disconnect (step c p).
Proof.
  intros [Hfx [Hv Hu]] Happ Hok. unfold disconnect_map in *. split_valid Hv.
  destruct c; try discriminate Happ; cbn [step call_ok] in *; unfold inv_disconnect, disconnect_map;
    (split; [exact Hfx|split; [|first [exact Hu | idtac]]]); try plain_setter.
  destruct Hok as [Hk' [Hlk Hlv]]; apply up_ok_app; assumption.
Qed.

(* AUTH *)
Definition inv_auth (p : pkt) : Prop :=
  getN (M F_fixed) p = ctor_fixed KAuth /\ valid_all ((M F_reasonCode, U8) :: refs_of auth_map) p
  /\ Forall up_ok (uprops p).

Lemma inv_auth_step c p : inv_auth p -> applicable KAuth c = true -> call_ok c -> inv_auth (step c p).
Proof.
  intros [Hfx [Hv Hu]] Happ Hok. unfold auth_map in *. split_valid Hv.
  destruct c; try discriminate Happ; cbn [step call_ok] in *; unfold inv_auth, auth_map;
    (split; [exact Hfx|split; [|first [exact Hu | idtac]]]); try plain_setter.
  destruct Hok as [Hk' [Hlk Hlv]]; apply up_ok_app; assumption.
Qed.

(* PUBLISH *)
Lemma pub_fixed_toggle fx m b : 48 <= fx < 64 -> In m [RETAIN; DUP] -> 48 <= toggle fx m b < 64.
Proof.
  intros Hfx Hm.
  assert (H : forallb (fun v => negb ((48 <=? v) && (v <? 64)) ||
                forallb (fun m => (48 <=? toggle v m true) && (toggle v m true <? 64) &&
                                  (48 <=? toggle v m false) && (toggle v m false <? 64)) [RETAIN; DUP])
                all_N256 = true) by (vm_compute; reflexivity).
  pose proof (forall_N256 _ H fx ltac:(lia)) as H1.
  apply orb_prop in H1 as [H1|H1]; [apply negb_true_iff in H1; lia|].
  rewrite forallb_forall in H1. specialize (H1 m Hm). destruct b; lia.
Qed.

Lemma pub_fixed_qos fx n : 48 <= fx < 64 -> n <= 2 -> 48 <= setqos fx n < 64.
Proof.
  intros Hfx Hn.
  assert (H : forallb (fun v => negb ((48 <=? v) && (v <? 64)) ||
                forallb (fun n => (48 <=? setqos v n) && (setqos v n <? 64)) [0; 1; 2])
                all_N256 = true) by (vm_compute; reflexivity).
  pose proof (forall_N256 _ H fx ltac:(lia)) as H1.
  apply orb_prop in H1 as [H1|H1]; [apply negb_true_iff in H1; lia|].
  rewrite forallb_forall in H1.
  assert (Hin : In n [0; 1; 2]) by (cbn; lia). specialize (H1 n Hin). lia.
Qed.

Lemma getN_setf_same f v p : getN (M f) (setf (M f) v p) = valN v.
Proof. unfold getN. rewrite getf_setf_same. reflexivity. Qed.

Definition pubfx (fx : N) : Prop := 48 <= fx < 64.
Definition inv_publish (p : pkt) : Prop :=
  pubfx (getN (M F_fixed) p)
  /\ valid_all ((M F_topicName, Bin) :: (M F_packetID, U16) :: refs_of publish_map) p
  /\ Forall up_ok (uprops p) /\ Forall sid_ok (subids p).

Lemma pubfx_toggle p m b : pubfx (getN (M F_fixed) p) -> In m [RETAIN; DUP] ->
  pubfx (getN (M F_fixed) (toggleF F_fixed m b p)).
Proof.
  intros H Hm. unfold toggleF, setN. rewrite getN_setf_same. cbn [valN]. apply pub_fixed_toggle; assumption.
Qed.
Lemma pubfx_setqos p n : pubfx (getN (M F_fixed) p) -> n <= 2 ->
  pubfx (getN (M F_fixed) (setN F_fixed (setqos (getN (M F_fixed) p) n) p)).
Proof.
  intros H Hn. unfold setN. rewrite getN_setf_same. cbn [valN]. apply pub_fixed_qos; assumption.
Qed.

Lemma inv_publish_step c p : inv_publish p -> applicable KPublish c = true -> call_ok c ->
  inv_publish (step c p).
Proof.
  intros [Hfx [Hv [Hu Hs]]] Happ Hok. unfold publish_map in *. split_valid Hv.
  destruct c; try discriminate Happ; cbn [step call_ok] in *; unfold inv_publish, publish_map;
    (split; [first [exact Hfx | apply pubfx_toggle; [exact Hfx|cbn; tauto] | apply pubfx_setqos; [exact Hfx|exact Hok]]
            |split; [|split; [first [exact Hu | idtac]|first [exact Hs | idtac]]]]);
    try plain_setter.
  - apply Forall_app; split; [exact Hs|constructor; [exact Hok|constructor]].
  - destruct Hok as [Hk' [Hlk Hlv]]; apply up_ok_app; assumption.
Qed.

(* ------------------------------------------------------------------ *)
(* CONNECT *)
Definition will_flags (fl wfx : N) : N :=
  let f1 := toggle fl WillFlag true in
  let f2 := toggle f1 WillRetain (has wfx RETAIN) in
  let q := qos_of_fixed wfx in
  let f3 := N.land f2 (N.lxor 255 (WillQoS2 + WillQoS1)) in
  toggle f3 ((q * 8) mod 256) (q <? 3).

Lemma will_flags_facts fl wfx : fl < 256 -> In wfx [48; 49; 50; 51; 52; 53] ->
  will_flags fl wfx < 256
  /\ has (will_flags fl wfx) UsernameFlag = has fl UsernameFlag
  /\ has (will_flags fl wfx) PasswordFlag = has fl PasswordFlag
  /\ has (will_flags fl wfx) WillFlag = true
  /\ will_fixed (will_flags fl wfx) = wfx.
Proof.
  intros Hfl Hw.
  assert (H : forallb (fun fl => forallb (fun wfx =>
     (will_flags fl wfx <? 256)
     && Bool.eqb (has (will_flags fl wfx) UsernameFlag) (has fl UsernameFlag)
     && Bool.eqb (has (will_flags fl wfx) PasswordFlag) (has fl PasswordFlag)
     && has (will_flags fl wfx) WillFlag
     && (will_fixed (will_flags fl wfx) =? wfx)) [48; 49; 50; 51; 52; 53]) all_N256 = true)
    by (vm_compute; reflexivity).
  pose proof (forall_N256 _ H fl Hfl) as H1. rewrite forallb_forall in H1. specialize (H1 wfx Hw).
  apply andb_prop in H1 as [H1 H5]. apply andb_prop in H1 as [H1 H4].
  apply andb_prop in H1 as [H1 H3]. apply andb_prop in H1 as [H1 H2].
  repeat split.
  - apply N.ltb_lt. exact H1.
  - apply Bool.eqb_prop. exact H2.
  - apply Bool.eqb_prop. exact H3.
  - exact H4.
  - apply N.eqb_eq. exact H5.
Qed.

(* toggling one of clean start, user name, password leaves the rest *)
Lemma flag_toggle_facts fl m b : fl < 256 -> In m [CleanStart; UsernameFlag; PasswordFlag] ->
  toggle fl m b < 256
  /\ (forall m', In m' [UsernameFlag; PasswordFlag; WillFlag] -> m' <> m -> has (toggle fl m b) m' = has fl m')
  /\ (m <> CleanStart -> has (toggle fl m b) m = b)
  /\ will_fixed (toggle fl m b) = will_fixed fl.
Proof.
  intros Hfl Hm.
  assert (H : forallb (fun fl => forallb (fun m => forallb (fun b =>
     (toggle fl m b <? 256)
     && forallb (fun m' => (m' =? m) || Bool.eqb (has (toggle fl m b) m') (has fl m'))
                [UsernameFlag; PasswordFlag; WillFlag]
     && ((m =? CleanStart) || Bool.eqb (has (toggle fl m b) m) b)
     && (will_fixed (toggle fl m b) =? will_fixed fl)) [true; false])
     [CleanStart; UsernameFlag; PasswordFlag]) all_N256 = true)
    by (vm_compute; reflexivity).
  pose proof (forall_N256 _ H fl Hfl) as H1. rewrite forallb_forall in H1. specialize (H1 m Hm).
  rewrite forallb_forall in H1. assert (Hb : In b [true; false]) by (destruct b; cbn; tauto).
  specialize (H1 b Hb).
  apply andb_prop in H1 as [H1 H4]. apply andb_prop in H1 as [H1 H3]. apply andb_prop in H1 as [H1 H2].
  repeat split.
  - apply N.ltb_lt. exact H1.
  - intros m' Hm' Hne. rewrite forallb_forall in H2. specialize (H2 m' Hm').
    apply orb_prop in H2 as [H2|H2]; [apply N.eqb_eq in H2; contradiction|apply Bool.eqb_prop; exact H2].
  - intros Hne. apply orb_prop in H3 as [H3|H3]; [apply N.eqb_eq in H3; contradiction|apply Bool.eqb_prop; exact H3].
  - apply N.eqb_eq. exact H4.
Qed.

Definition will_wfields : list (fref * wt) :=
  [(W F_payloadFormat, WBool); (W F_messageExpiryInterval, U32); (W F_contentType, Bin);
   (W F_responseTopic, Bin); (W F_correlationData, Bin); (W F_topicName, Bin)].

Definition will_part (p : pkt) : Prop :=
  valid_all will_wfields p /\ Forall up_ok (wuprops p)
  /\ getN (W F_fixed) p = will_fixed (getN (M F_flags) p)
  /\ getS (W F_payload) p = getS (M F_willPayload) p
  /\ getN (W F_packetID) p = 0 /\ getN (W F_topicAlias) p = 0 /\ wsubids p = [].

Definition connect_mfields : list (fref * wt) :=
  connect_head ++ refs_of connect_map ++ [(M F_willDelayInterval, U32); (M F_willPayload, Bin)].

Definition core_connect (p : pkt) : Prop :=
  getN (M F_fixed) p = ctor_fixed KConnect
  /\ valid_all connect_mfields p
  /\ Forall up_ok (uprops p)
  /\ has (getN (M F_flags) p) WillFlag = hasWill p
  /\ (hasWill p = true -> will_part p).
Definition user_cond (p : pkt) : Prop :=
  has (getN (M F_flags) p) UsernameFlag = false -> getS (M F_username) p = [].
Definition pass_cond (p : pkt) : Prop :=
  has (getN (M F_flags) p) PasswordFlag = false -> getS (M F_password) p = [].
Definition inv_connect (p : pkt) : Prop := core_connect p /\ user_cond p /\ pass_cond p.

Lemma flags_toggleF m b p : getN (M F_flags) (toggleF F_flags m b p) = toggle (getN (M F_flags) p) m b.
Proof. unfold toggleF, setN. apply getN_setf_same. Qed.

Lemma core_toggle p m b : core_connect p -> In m [CleanStart; UsernameFlag; PasswordFlag] ->
  core_connect (toggleF F_flags m b p).
Proof.
  intros [Hfx [Hv [Hu [Hwf Hwp]]]] Hm.
  assert (Hv0 := Hv). unfold connect_mfields, connect_head, connect_map in Hv. split_valid Hv.
  assert (Hfl : getN (M F_flags) p < 256) by assumption.
  destruct (flag_toggle_facts (getN (M F_flags) p) m b Hfl Hm) as [T1 [T2 [_ T4]]].
  assert (Hne : WillFlag <> m) by (cbn [In] in Hm; destruct Hm as [<-|[<-|[<-|[]]]]; discriminate).
  unfold core_connect. rewrite flags_toggleF.
  split; [exact Hfx|split; [|split; [exact Hu|split]]].
  - unfold toggleF, connect_mfields, connect_head, connect_map. plain_setter.
  - rewrite (T2 WillFlag) by (cbn; tauto || exact Hne). exact Hwf.
  - intros Hw. destruct (Hwp Hw) as [W1 [W2 [W3 [W4 [W5 [W6 W7]]]]]].
    unfold will_part. rewrite flags_toggleF, T4.
    split; [exact W1|split; [exact W2|split; [exact W3|split; [exact W4|split; [exact W5|split; [exact W6|exact W7]]]]]].
Qed.

Lemma core_setS p f s : f = F_username \/ f = F_password -> str_ok s -> core_connect p ->
  core_connect (setS f s p).
Proof.
  intros Hf Hs [Hfx [Hv [Hu [Hwf Hwp]]]].
  unfold connect_mfields, connect_head, connect_map in Hv. split_valid Hv.
  unfold core_connect, connect_mfields, connect_head, connect_map.
  destruct Hf as [-> | ->]; (split; [exact Hfx|split; [plain_setter|split; [exact Hu|split; [exact Hwf|exact Hwp]]]]).
Qed.

Lemma inv_connect_step c p : inv_connect p -> applicable KConnect c = true -> call_ok c ->
  inv_connect (step c p).
Proof.
  intros [[Hfx [Hv [Hu [Hwf Hwp]]]] [Hun Hpw]] Happ Hok.
  assert (Hcore : core_connect p) by (split; [exact Hfx|split; [exact Hv|split; [exact Hu|split; [exact Hwf|exact Hwp]]]]).
  assert (Hv0 := Hv).
  unfold connect_mfields, connect_head, connect_map in Hv. split_valid Hv.
  assert (Hfl : getN (M F_flags) p < 256) by assumption.
  destruct c; try discriminate Happ; cbn [step call_ok] in *;
    try (unfold inv_connect, core_connect, connect_mfields, connect_head, connect_map;
         split; [split; [exact Hfx|split; [plain_setter|split; [exact Hu|split; [exact Hwf|exact Hwp]]]]
                |split; [exact Hun|exact Hpw]]; fail).
  - (* SetWill *)
    destruct Hok as [Wfx Wf Wt Wp Wpid Wal Wsub Wups].
    unfold publish_map in Wf. apply valid_all_iff in Wf. split_valid Wf.
    set (p5 := step (SetWill w) p).
    assert (Efl : getN (M F_flags) p5 = will_flags (getN (M F_flags) p) (getN (M F_fixed) w)) by reflexivity.
    destruct (will_flags_facts (getN (M F_flags) p) (getN (M F_fixed) w) Hfl Wfx) as [F1 [F2 [F3 [F4 F5]]]].
    change (inv_connect p5).
    split; [split; [exact Hfx|split; [|split; [exact Hu|split]]]|split].
    + unfold connect_mfields, connect_head, connect_map.
      cbn [valid_all refs_of map eref ewt fst snd app].
      repeat split;
        try (lazymatch goal with |- valid_val ?w0 (getf ?r _) =>
               match goal with H : valid_val w0 (getf r p) |- _ => exact H end end).
      * change (getN (M F_flags) p5 < 256). rewrite Efl. exact F1.
      * exact Wp.
    + rewrite Efl. exact F4.
    + intros _. unfold will_part, will_wfields. cbn [valid_all].
      split; [|split; [exact Wups|split; [|split; [reflexivity|split; [exact Wpid|split; [exact Wal|exact Wsub]]]]]].
      * repeat split;
          lazymatch goal with |- valid_val ?w0 (getf (W ?f) _) =>
            match goal with H : valid_val w0 (getf (M f) w) |- _ => exact H end end.
      * rewrite Efl, F5. reflexivity.
    + unfold user_cond. rewrite Efl, F2. exact Hun.
    + unfold pass_cond. rewrite Efl, F3. exact Hpw.
  - (* SetCleanStart *)
    destruct (flag_toggle_facts (getN (M F_flags) p) CleanStart b Hfl ltac:(cbn; tauto)) as [T1 [T2 _]].
    split; [apply core_toggle; [exact Hcore|cbn; tauto]|split].
    + unfold user_cond. rewrite flags_toggleF, (T2 UsernameFlag) by (cbn; tauto || discriminate). exact Hun.
    + unfold pass_cond. rewrite flags_toggleF, (T2 PasswordFlag) by (cbn; tauto || discriminate). exact Hpw.
  - (* SetUsername *)
    set (b := match s with [] => false | _ => true end).
    destruct (flag_toggle_facts (getN (M F_flags) p) UsernameFlag b Hfl ltac:(cbn; tauto)) as [T1 [T2 [T3 _]]].
    split; [apply core_toggle; [apply core_setS; [left; reflexivity|exact Hok|exact Hcore]|cbn; tauto]|split].
    + unfold user_cond. rewrite flags_toggleF.
      change (getN (M F_flags) (setS F_username s p)) with (getN (M F_flags) p).
      rewrite T3 by discriminate. intros Hb. unfold b in Hb. destruct s; [reflexivity|discriminate].
    + unfold pass_cond. rewrite flags_toggleF.
      change (getN (M F_flags) (setS F_username s p)) with (getN (M F_flags) p).
      rewrite (T2 PasswordFlag) by (cbn; tauto || discriminate). exact Hpw.
  - (* SetPassword *)
    set (b := match s with [] => false | _ => true end).
    destruct (flag_toggle_facts (getN (M F_flags) p) PasswordFlag b Hfl ltac:(cbn; tauto)) as [T1 [T2 [T3 _]]].
    split; [apply core_toggle; [apply core_setS; [right; reflexivity|exact Hok|exact Hcore]|cbn; tauto]|split].
    + unfold user_cond. rewrite flags_toggleF.
      change (getN (M F_flags) (setS F_password s p)) with (getN (M F_flags) p).
      rewrite (T2 UsernameFlag) by (cbn; tauto || discriminate). exact Hun.
    + unfold pass_cond. rewrite flags_toggleF.
      change (getN (M F_flags) (setS F_password s p)) with (getN (M F_flags) p).
      rewrite T3 by discriminate. intros Hb. unfold b in Hb. destruct s; [reflexivity|discriminate].
  - (* AddUserProp *)
    split; [|split; [exact Hun|exact Hpw]].
    split; [exact Hfx|split; [exact Hv0|split; [|split; [exact Hwf|exact Hwp]]]].
    destruct Hok as [Hk' [Hlk Hlv]]; apply up_ok_app; assumption.
Qed.

(* ------------------------------------------------------------------ *)
(* every history of applicable calls with arguments in range *)
Definition inv (k : kind) (p : pkt) : Prop :=
  match k with
  | KUndefined => False
  | KConnect => inv_connect p
  | KConnAck => inv_connack p
  | KPublish => inv_publish p
  | KPubAck | KPubRec | KPubRel | KPubComp => inv_ack k p
  | KSubscribe => inv_subscribe p
  | KSubAck | KUnsubAck => inv_suback k p
  | KUnsubscribe => inv_unsubscribe p
  | KPingReq | KPingResp => getN (M F_fixed) p = ctor_fixed k
  | KDisconnect => inv_disconnect p
  | KAuth => inv_auth p
  end.

Lemma inv_init k : k <> KUndefined -> inv k (ctor k).
Proof.
  intros Hk. destruct k; try congruence; cbn [inv].
  - (* CONNECT *)
    split; [split; [reflexivity|split; [|split; [constructor|split; [reflexivity|discriminate]]]]
           |split; intros _; reflexivity].
    unfold connect_mfields, connect_head, connect_map. cbn [valid_all refs_of map eref ewt fst snd app].
    repeat split; vm_compute; reflexivity.
  - split; [reflexivity|split; [|constructor]]. unfold connack_fields, connack_map.
    cbn [valid_all refs_of map eref ewt fst snd app]. repeat split; vm_compute; reflexivity.
  - split; [unfold pubfx; vm_compute; split; [discriminate|reflexivity]|split; [|split; constructor]].
    unfold publish_map. cbn [valid_all refs_of map eref ewt fst snd app]. repeat split; vm_compute; reflexivity.
  - split; [reflexivity|split; [|constructor]]. unfold ack_fields. cbn [valid_all]. repeat split; vm_compute; reflexivity.
  - split; [reflexivity|split; [|constructor]]. unfold ack_fields. cbn [valid_all]. repeat split; vm_compute; reflexivity.
  - split; [reflexivity|split; [|constructor]]. unfold ack_fields. cbn [valid_all]. repeat split; vm_compute; reflexivity.
  - split; [reflexivity|split; [|constructor]]. unfold ack_fields. cbn [valid_all]. repeat split; vm_compute; reflexivity.
  - split; [reflexivity|split; [|split; [constructor|split; [constructor|exact I]]]].
    cbn [valid_all]. repeat split; vm_compute; reflexivity.
  - split; [reflexivity|split; [|split; constructor]]. unfold suback_fields. cbn [valid_all].
    repeat split; vm_compute; reflexivity.
  - split; [reflexivity|split; [|split; constructor]]. cbn [valid_all]. repeat split; vm_compute; reflexivity.
  - split; [reflexivity|split; [|split; constructor]]. unfold suback_fields. cbn [valid_all].
    repeat split; vm_compute; reflexivity.
  - reflexivity.
  - reflexivity.
  - split; [reflexivity|split; [|constructor]]. unfold disconnect_map. cbn [valid_all refs_of map eref ewt fst snd].
    repeat split; vm_compute; reflexivity.
  - split; [reflexivity|split; [|constructor]]. unfold auth_map. cbn [valid_all refs_of map eref ewt fst snd].
    repeat split; vm_compute; reflexivity.
Qed.

Lemma inv_step k c p : inv k p -> applicable k c = true -> call_ok c -> inv k (step c p).
Proof.
  destruct k; cbn [inv]; intros Hi Happ Hok.
  - contradiction.
  - apply inv_connect_step; assumption.
  - apply inv_connack_step; assumption.
  - apply inv_publish_step; assumption.
  - apply inv_ack_step; try assumption; reflexivity.
  - apply inv_ack_step; try assumption; reflexivity.
  - apply inv_ack_step; try assumption; reflexivity.
  - apply inv_ack_step; try assumption; reflexivity.
  - apply inv_subscribe_step; assumption.
  - apply inv_suback_step; try assumption; reflexivity.
  - apply inv_unsubscribe_step; assumption.
  - apply inv_suback_step; try assumption; reflexivity.
  - destruct c; discriminate Happ.
  - destruct c; discriminate Happ.
  - apply inv_disconnect_step; assumption.
  - apply inv_auth_step; assumption.
Qed.

Lemma inv_run k h : k <> KUndefined ->
  Forall (fun c => applicable k c = true) h -> Forall call_ok h -> inv k (run_calls k h).
Proof.
  intros Hk. unfold run_calls. generalize (inv_init k Hk). generalize (ctor k).
  induction h as [|c h IH]; intros p Hp Ha Ho; [exact Hp|].
  inversion Ha; subst. inversion Ho; subst. cbn [fold_left]. apply IH; try assumption.
  apply inv_step; assumption.
Qed.

(* conditions MQTT puts across fields, which single setter arguments cannot
   express: no packet identifier without QoS 1 or 2, no will delay without a
   will *)
Definition cross_ok (k : kind) (p : pkt) : Prop :=
  match k with
  | KPublish => eval_cond CQoS12 p no_env = false -> getN (M F_packetID) p = 0
  | KConnect => hasWill p = false -> getN (M F_willDelayInterval) p = 0
  | _ => True
  end.

Theorem inv_dom k p : inv k p -> cross_ok k p -> remaining_ok k p -> dom k p.
Proof.
  destruct k; cbn [inv cross_ok dom]; intros Hi Hc Hs.
  - contradiction.
  - (* CONNECT *)
    destruct Hi as [[Hfx [Hv [Hu [Hwf Hwp]]]] [Hun Hpw]].
    unfold connect_mfields in Hv.
    assert (Hv' : fields_valid (connect_head ++ refs_of connect_map ++
                                [(M F_willDelayInterval, U32); (M F_willPayload, Bin)]) p)
      by (apply valid_all_iff; exact Hv).
    unfold fields_valid in Hv'. apply Forall_app in Hv' as [V1 V2]. apply Forall_app in V2 as [V2 V3].
    constructor; try assumption.
    intros Hw. destruct (Hwp Hw) as [W1 [W2 [W3 [W4 [W5 [W6 W7]]]]]].
    unfold will_wfields in W1. cbn [valid_all] in W1. split_ands.
    inversion V3 as [|? ? Vd V3']; subst. inversion V3' as [|? ? Vp _]; subst. cbn [fst snd] in *.
    constructor; try assumption.
    apply valid_all_iff. unfold will_map. cbn [valid_all refs_of map eref ewt fst snd]. repeat split; assumption.
  - destruct Hi as [Hfx [Hv Hu]]. constructor; try assumption. apply valid_all_iff. exact Hv.
  - destruct Hi as [Hfx [Hv [Hu Hsi]]]. cbn [valid_all] in Hv. destruct Hv as [Vt [Vp Vm]].
    constructor; try assumption. apply valid_all_iff. exact Vm.
  - destruct Hi as [Hfx [Hv Hu]]. constructor; try assumption. apply valid_all_iff. exact Hv.
  - destruct Hi as [Hfx [Hv Hu]]. constructor; try assumption. apply valid_all_iff. exact Hv.
  - destruct Hi as [Hfx [Hv Hu]]. constructor; try assumption. apply valid_all_iff. exact Hv.
  - destruct Hi as [Hfx [Hv Hu]]. constructor; try assumption. apply valid_all_iff. exact Hv.
  - destruct Hi as [Hfx [Hv [Hu [Hf Hso]]]]. constructor; try assumption. apply valid_all_iff. exact Hv.
  - destruct Hi as [Hfx [Hv [Hu Hr]]]. constructor; try assumption. apply valid_all_iff. exact Hv.
  - destruct Hi as [Hfx [Hv [Hu Hr]]]. constructor; try assumption. apply valid_all_iff. exact Hv.
  - destruct Hi as [Hfx [Hv [Hu Hr]]]. constructor; try assumption. apply valid_all_iff. exact Hv.
  - exact Hi.
  - exact Hi.
  - destruct Hi as [Hfx [Hv Hu]]. constructor; try assumption. apply valid_all_iff. exact Hv.
  - destruct Hi as [Hfx [Hv Hu]]. constructor; try assumption. apply valid_all_iff. exact Hv.
Qed.

Theorem api_dom k h : k <> KUndefined ->
  Forall (fun c => applicable k c = true) h -> Forall call_ok h ->
  cross_ok k (run_calls k h) -> remaining_ok k (run_calls k h) -> dom k (run_calls k h).
Proof.
  intros Hk Ha Ho Hc Hs. apply inv_dom; try assumption. apply inv_run; assumption.
Qed.
