(* The specification model is self-consistent: its strict decoder accepts
   what its encoder writes for every valid abstract frame, and returns that
   frame.  About Spec/Mqtt5.v only (plus the predicates of AcceptP that are
   written in the specification's vocabulary). *)
From MQ Require Import Model.Wire Proofs.BytesP Proofs.VbP Proofs.WireP Proofs.SpecWireP Proofs.PropsP
     Proofs.RoundP Proofs.AcceptP Spec.Mqtt5.
From Coq Require Import ZArith Lia ZifyN ZifyNat ZifyBool.
Ltac Zify.zify_post_hook ::= Z.div_mod_to_equations.

Lemma sp_u8 n rest : n < 256 -> p_u8 (e_u8 n ++ rest) = Some (n, rest).
Proof. exact (spec_u8 n rest). Qed.
Lemma sp_u16 n rest : n < 65536 -> p_u16 (e_u16 n ++ rest) = Some (n, rest).
Proof. exact (spec_u16 n rest). Qed.
Lemma sp_u32 n rest : n < 4294967296 -> p_u32 (e_u32 n ++ rest) = Some (n, rest).
Proof. exact (spec_u32 n rest). Qed.
Lemma sp_str s rest : len s < 65536 -> p_str (e_str s ++ rest) = Some (s, rest).
Proof. intros H. rewrite (e_str_enc_bin s H). apply spec_str. exact H. Qed.
Lemma sp_var n rest : n < 268435456 -> p_var (e_var n ++ rest) = Some (n, rest).
Proof. intros H. rewrite (e_var_enc_vb n H). apply spec_var. exact H. Qed.

Lemma sp_pval v rest : pval_ok v -> p_pval (pval_type v) (e_pval v ++ rest) = Some (v, rest).
Proof.
  intros H. destruct v; cbn [pval_type p_pval e_pval pval_ok] in *.
  - rewrite sp_u8 by exact H. reflexivity.
  - rewrite sp_u16 by exact H. reflexivity.
  - rewrite sp_u32 by exact H. reflexivity.
  - rewrite sp_var by exact H. reflexivity.
  - rewrite sp_str by exact H. reflexivity.
  - rewrite sp_str by exact H. reflexivity.
  - destruct H as [Hk Hv]. rewrite <- app_assoc. rewrite sp_str by exact Hk. rewrite sp_str by exact Hv. reflexivity.
Qed.

Lemma take_app (a b : list byte) : take (len a) (a ++ b) = Some (a, b).
Proof.
  unfold take. rewrite (proj2 (N.leb_le _ _)) by (rewrite len_app; lia).
  replace (N.to_nat (len a)) with (length a) by (unfold len; lia).
  rewrite firstn_app, Nat.sub_diag, firstn_all. cbn [firstn]. rewrite app_nil_r.
  rewrite skipn_app, skipn_all, Nat.sub_diag. reflexivity.
Qed.

(* ------------------------------------------------------------------ *)
(* property lists *)
Lemma mem_id_false id acc : ~ In id (map ap_id acc) -> mem_id id acc = false.
Proof.
  induction acc as [|a acc IH]; intros H; [reflexivity|]. cbn [mem_id map In] in *.
  destruct (N.eqb_spec (ap_id a) id) as [E|E]; [exfalso; apply H; left; exact E|].
  apply IH. intros Hin. apply H. right. exact Hin.
Qed.


Lemma rev_filter {A} (P : A -> bool) l : filter P (rev l) = rev (filter P l).
Proof.
  induction l as [|x l IH]; [reflexivity|]. cbn [rev filter]. rewrite filter_app, IH. cbn [filter].
  destruct (P x); [reflexivity|rewrite app_nil_r; reflexivity].
Qed.

(* the decoder's loop on what the encoder wrote for a valid list *)
Lemma p_props_body_enc where_ : forall ps acc fuel,
  Forall (sprop_ok where_) ps ->
  NoDup (map ap_id (filter (nonrep where_) (rev acc ++ ps))) ->
  (length ps < fuel)%nat ->
  p_props_body fuel where_ acc (e_props_raw ps) = Some (rev acc ++ ps).
Proof.
  induction ps as [|ap ps IH]; intros acc fuel Hok Hnd Hfuel.
  - destruct fuel; [cbn in Hfuel; lia|]. cbn [p_props_body e_props_raw map concat]. rewrite app_nil_r. reflexivity.
  - destruct fuel as [|fuel]; [cbn in Hfuel; lia|].
    pose proof (Forall_inv Hok) as Hap. pose proof (Forall_inv_tail Hok) as Hoks.
    destruct Hap as [Ha [Hty [Hpv [Hb H11]]]].
    pose proof (prop_type_small _ _ Hty) as Hsmall.
    rewrite e_props_raw_cons. unfold e_prop. cbn [app p_props_body].
    rewrite b2n_n2b_small by lia. rewrite Ha. cbn [negb].
    assert (Hmem : mem_id (ap_id ap) acc && negb (repeatable where_ (ap_id ap)) = false).
    { destruct (repeatable where_ (ap_id ap)) eqn:Er; [apply andb_false_r|]. rewrite andb_true_r.
      apply mem_id_false. intros Hin.
      rewrite filter_app, map_app in Hnd. cbn [filter] in Hnd. unfold nonrep at 2 in Hnd. rewrite Er in Hnd.
      cbn [negb map] in Hnd. apply NoDup_remove_2 in Hnd. apply Hnd. apply in_or_app. left.
      apply in_map_iff in Hin as [a [Ea Hina]]. apply in_map_iff. exists a. split; [exact Ea|].
      apply filter_In. split; [apply in_rev; rewrite rev_involutive; exact Hina|].
      unfold nonrep. rewrite Ea, Er. reflexivity. }
    rewrite Hmem, Hty. rewrite (sp_pval (ap_val ap) (e_props_raw ps) Hpv).
    assert (Hbad : match ap_val ap with
                   | VByte n => is_bool_prop (ap_id ap) && (1 <? n)
                   | VVar n => (ap_id ap =? 11) && (n =? 0)
                   | _ => false end = false).
    { destruct (ap_val ap) as [n|n|n|n|s|s|k v]; try reflexivity; cbn [pnumval] in *.
      - destruct (is_bool_prop (ap_id ap)); [|reflexivity]. specialize (Hb eq_refl).
        cbn [andb]. apply N.ltb_ge. exact Hb.
      - destruct (N.eqb_spec (ap_id ap) 11) as [E|E]; [|reflexivity]. specialize (H11 E).
        cbn [andb]. apply N.eqb_neq. exact H11. }
    rewrite Hbad.
    replace {| ap_id := ap_id ap; ap_val := ap_val ap |} with ap by (destruct ap; reflexivity).
    rewrite (IH (ap :: acc) fuel Hoks).
    + cbn [rev]. rewrite <- app_assoc. reflexivity.
    + cbn [rev]. rewrite <- app_assoc. exact Hnd.
    + cbn [length] in Hfuel. lia.
Qed.

Lemma sp_props where_ ps rest : sprops_ok where_ ps -> len (e_props_raw ps) < 268435456 ->
  p_props where_ (e_props ps ++ rest) = Some (ps, rest).
Proof.
  intros [Hok Hnd] HR. unfold p_props, e_props. cbv zeta. rewrite <- app_assoc.
  rewrite sp_var by exact HR. rewrite take_app.
  rewrite (p_props_body_enc where_ ps [] (S (length (e_props_raw ps))) Hok).
  - reflexivity.
  - exact Hnd.
  - pose proof (props_count ps). lia.
Qed.

(* ------------------------------------------------------------------ *)
(* payload lists *)
Definition opts_ok (o : N) : Prop :=
  o < 256 /\ (bit o 6 || bit o 7 || (o mod 4 =? 3) || ((o / 16) mod 4 =? 3)) = false.

Lemma sp_filters : forall fs fuel,
  Forall (fun f => len (fst f) < 65536 /\ opts_ok (snd f)) fs -> (length fs < fuel)%nat ->
  p_filters fuel (concat (map (fun f => e_str (fst f) ++ e_u8 (snd f)) fs)) = Some fs.
Proof.
  induction fs as [|[s o] fs IH]; intros fuel Hok Hfuel.
  - destruct fuel; [cbn in Hfuel; lia|]. reflexivity.
  - destruct fuel as [|fuel]; [cbn in Hfuel; lia|].
    pose proof (Forall_inv Hok) as [Hs [Ho Hbits]]. pose proof (Forall_inv_tail Hok) as Hoks. cbn [fst snd] in *.
    cbn [map concat fst snd p_filters]. rewrite <- app_assoc.
    assert (Hne : exists x r, e_str s ++ e_u8 o ++ concat (map (fun f => e_str (fst f) ++ e_u8 (snd f)) fs) = x :: r)
      by (unfold e_str, e_u16; cbn [app]; eexists; eexists; reflexivity).
    destruct Hne as [x [r Ex]]. rewrite Ex. rewrite <- Ex.
    rewrite sp_str by exact Hs. rewrite sp_u8 by exact Ho. rewrite Hbits.
    rewrite (IH fuel Hoks) by (cbn [length] in Hfuel; lia). reflexivity.
Qed.

Lemma sp_strings : forall fs fuel,
  Forall (fun f => len f < 65536) fs -> (length fs < fuel)%nat ->
  p_strings fuel (concat (map e_str fs)) = Some fs.
Proof.
  induction fs as [|s fs IH]; intros fuel Hok Hfuel.
  - destruct fuel; [cbn in Hfuel; lia|]. reflexivity.
  - destruct fuel as [|fuel]; [cbn in Hfuel; lia|].
    pose proof (Forall_inv Hok) as Hs. pose proof (Forall_inv_tail Hok) as Hoks.
    cbn [map concat p_strings].
    assert (Hne : exists x r, e_str s ++ concat (map e_str fs) = x :: r)
      by (unfold e_str, e_u16; cbn [app]; eexists; eexists; reflexivity).
    destruct Hne as [x [r Ex]]. rewrite Ex. rewrite <- Ex.
    rewrite sp_str by exact Hs. rewrite (IH fuel Hoks) by (cbn [length] in Hfuel; lia). reflexivity.
Qed.

Lemma map_b2n_codes codes : Forall (fun n => n < 256) codes -> map b2n (concat (map e_u8 codes)) = codes.
Proof.
  induction 1 as [|n l Hn _ IH]; [reflexivity|]. cbn [map concat e_u8 app]. rewrite b2n_n2b_small by exact Hn.
  rewrite IH. reflexivity.
Qed.

Lemma concat_len_ge {A} (f : A -> list byte) l : (forall x, (0 < length (f x))%nat) ->
  (length l <= length (concat (map f l)))%nat.
Proof.
  intros H. induction l as [|x l IH]; [cbn; lia|]. cbn [map concat length]. rewrite app_length.
  specialize (H x). lia.
Qed.

(* ------------------------------------------------------------------ *)
(* valid abstract frames, entirely in the specification's terms *)
Definition sbody_ok (t fl : N) (b : abody) : Prop :=
  match b with
  | BConnect flags ka ps cid will user pass =>
      t = 1 /\ fl = 0 /\ connect_frame_ok flags ka ps cid will user pass
      /\ N.testbit flags 0 = false
      /\ (will = None -> (flags / 8) mod 4 = 0 /\ N.testbit flags 5 = false)
  | BConnack a rc ps =>
      t = 2 /\ fl = 0 /\ a <= 1 /\ rc < 256 /\ sprops_ok 2 ps /\ len (e_props_raw ps) < 268435456
  | BPublish topic pid ps payload =>
      t = 3 /\ fl < 16 /\ (fl / 2) mod 4 <> 3 /\ len topic < 65536
      /\ match pid with Some i => i < 65536 /\ (fl / 2) mod 4 <> 0 | None => (fl / 2) mod 4 = 0 end
      /\ sprops_ok 3 ps /\ len (e_props_raw ps) < 268435456
  | BAck pid form rc ps =>
      (t = 4 \/ t = 5 \/ t = 6 \/ t = 7) /\ fl = (if t =? 6 then 2 else 0)
      /\ pid < 65536 /\ rc < 256 /\ ack_frame_ok form rc ps t
  | BSubscribe pid ps fs =>
      t = 8 /\ fl = 2 /\ pid < 65536 /\ sprops_ok 8 ps /\ len (e_props_raw ps) < 268435456
      /\ fs <> [] /\ Forall (fun f => len (fst f) < 65536 /\ opts_ok (snd f)) fs
  | BSuback pid ps codes =>
      (t = 9 \/ t = 11) /\ fl = 0 /\ pid < 65536 /\ sprops_ok t ps /\ len (e_props_raw ps) < 268435456
      /\ codes <> [] /\ Forall (fun n => n < 256) codes
  | BUnsubscribe pid ps fs =>
      t = 10 /\ fl = 2 /\ pid < 65536 /\ sprops_ok 10 ps /\ len (e_props_raw ps) < 268435456
      /\ fs <> [] /\ Forall (fun f => len f < 65536) fs
  | BPing => (t = 12 \/ t = 13) /\ fl = 0
  | BDisc form rc ps =>
      (t = 14 \/ t = 15) /\ fl = 0 /\ rc < 256
      /\ match form with
         | 0 => rc = 0 /\ ps = []
         | 1 => t = 14 /\ ps = []
         | 2 => sprops_ok t ps /\ len (e_props_raw ps) < 268435456
         | _ => False
         end
  end.

Definition sframe_ok (f : aframe) : Prop :=
  sbody_ok (af_type f) (af_flags f) (af_body f) /\ len (e_body (af_body f)) < 268435456.

Lemma e_props_cons ps : exists x r, e_props ps = x :: r.
Proof.
  unfold e_props. cbv zeta. unfold e_var. cbn [e_var_fuel].
  destruct (len (e_props_raw ps) <? 128); cbn [app]; eexists; eexists; reflexivity.
Qed.

Lemma bit_testbit n k : bit n k = N.testbit n k. Proof. reflexivity. Qed.

Lemma sp_opt o rest : opt_ok o ->
  p_opt (match o with Some _ => true | None => false end) (e_opt o ++ rest) = Some (o, rest).
Proof. intros H. destruct o as [s|]; cbn [p_opt e_opt opt_ok app] in *; [rewrite sp_str by exact H|]; reflexivity. Qed.

Theorem d_body_enc t fl b : sbody_ok t fl b -> d_body t fl (e_body b) = Some b.
Proof.
  destruct b as [flags ka ps cid will user pass|a rc ps|topic pid ps payload|pid form rc ps|pid ps fs|pid ps codes
                |pid ps fs| |form rc ps]; cbn [sbody_ok].
  - (* CONNECT *)
    intros [-> [-> [[Hfl Hwq Hka [Hps HR] Hcid Hwill [Hus Hub] [Hpa Hpb]] [Hb0 Hnw]]]].
    cbn [d_body e_body].
    rewrite (take_app mqtt_name : forall b, take 6 (mqtt_name ++ b) = Some (mqtt_name, b)).
    change (bytes_eqb mqtt_name mqtt_name) with true. cbn [negb].
    rewrite sp_u8 by lia. rewrite sp_u8 by exact Hfl.
    cbv zeta. unfold bit. rewrite Hb0. cbn [orb].
    rewrite (proj2 (N.eqb_neq _ _) Hwq). cbn [orb].
    assert (Hcond : negb (N.testbit flags 2) && (negb ((flags / 8) mod 4 =? 0) || N.testbit flags 5) = false).
    { destruct will as [w|].
      - destruct Hwill as [Hb2 _]. rewrite Hb2. reflexivity.
      - rewrite Hwill. destruct (Hnw eq_refl) as [E1 E2]. rewrite E1, E2. reflexivity. }
    rewrite Hcond. rewrite sp_u16 by exact Hka. rewrite (sp_props 1 ps _ Hps HR). rewrite sp_str by exact Hcid.
    destruct will as [w|].
    + destruct Hwill as [Hb2 [Hwps [HwR [Hwt Hwpl]]]]. rewrite Hb2.
      rewrite <- !app_assoc. rewrite (sp_props 100 (w_props w) _ Hwps HwR).
      rewrite sp_str by exact Hwt. rewrite sp_str by exact Hwpl.
      rewrite Hub, Hpb. rewrite (sp_opt user _ Hus). rewrite <- (app_nil_r (e_opt pass)).
      rewrite (sp_opt pass [] Hpa). destruct w; reflexivity.
    + rewrite Hwill. cbn [app].
      rewrite Hub, Hpb. rewrite (sp_opt user _ Hus). rewrite <- (app_nil_r (e_opt pass)).
      rewrite (sp_opt pass [] Hpa). reflexivity.
  - (* CONNACK *)
    intros [-> [-> [Ha [Hrc [Hps HR]]]]]. cbn [d_body e_body].
    rewrite sp_u8 by lia. rewrite (proj2 (N.ltb_ge _ _) Ha). rewrite sp_u8 by exact Hrc.
    rewrite <- (app_nil_r (e_props ps)). rewrite (sp_props 2 ps [] Hps HR). reflexivity.
  - (* PUBLISH *)
    intros [-> [Hfl [Hq [Htopic [Hpid [Hps HR]]]]]]. cbn [d_body e_body].
    rewrite (proj2 (N.eqb_neq _ _) Hq). rewrite sp_str by exact Htopic.
    destruct pid as [i|].
    + destruct Hpid as [Hi Hq0]. rewrite (proj2 (N.eqb_neq _ _) Hq0). rewrite sp_u16 by exact Hi.
      rewrite (sp_props 3 ps payload Hps HR). reflexivity.
    + rewrite Hpid. cbn [N.eqb app]. rewrite (sp_props 3 ps payload Hps HR). reflexivity.
  - (* acknowledgements *)
    intros [Ht [Hflv [Hpid [Hrc Hform]]]].
    assert (Hd : d_body t fl (e_body (BAck pid form rc ps)) =
                 match p_u16 (e_body (BAck pid form rc ps)) with
                 | Some (pid, []) => Some (BAck pid 2 0 [])
                 | Some (pid, r) =>
                   match p_u8 r with
                   | Some (rc, []) => Some (BAck pid 3 rc [])
                   | Some (rc, r) =>
                     match p_props t r with
                     | Some (props, []) => Some (BAck pid 4 rc props)
                     | _ => None end
                   | None => None end
                 | None => None end).
    { destruct Ht as [-> |[-> |[-> | ->]]]; reflexivity. }
    rewrite Hd. clear Hd. cbn [e_body].
    unfold ack_frame_ok in Hform.
    destruct form as [|[[[]|[]|]|[[]|[]|]|]]; try contradiction.
    + (* 3 *) rewrite Hform. cbn [N.eqb Pos.eqb]. rewrite app_nil_r. rewrite sp_u16 by exact Hpid.
      unfold e_u8. cbn [p_u8]. rewrite b2n_n2b_small by exact Hrc. reflexivity.
    + (* 4 *) destruct Hform as [Hps HR]. cbn [N.eqb Pos.eqb]. rewrite sp_u16 by exact Hpid.
      destruct (e_props_cons ps) as [x [r Ex]].
      assert (Ecs : e_u8 rc ++ e_props ps = n2b rc :: x :: r) by (rewrite Ex; reflexivity).
      rewrite Ecs. rewrite <- Ecs. rewrite sp_u8 by exact Hrc. rewrite Ex. rewrite <- Ex.
      rewrite <- (app_nil_r (e_props ps)). rewrite (sp_props t ps [] Hps HR). reflexivity.
    + (* 2 *) destruct Hform as [-> ->]. cbn [N.eqb Pos.eqb]. rewrite app_nil_r.
      rewrite <- (app_nil_r (e_u16 pid)). rewrite sp_u16 by exact Hpid. reflexivity.
  - (* SUBSCRIBE *)
    intros [-> [-> [Hpid [Hps [HR [Hne Hfs]]]]]]. cbn [d_body e_body].
    rewrite sp_u16 by exact Hpid. rewrite (sp_props 8 ps _ Hps HR).
    rewrite (sp_filters fs _ Hfs).
    + destruct fs; [congruence|reflexivity].
    + pose proof (concat_len_ge (fun f : list byte * N => e_str (fst f) ++ e_u8 (snd f)) fs) as Hl.
      assert (forall x : list byte * N, (0 < length (e_str (fst x) ++ e_u8 (snd x)))%nat)
        by (intros x; rewrite app_length; cbn [e_u8 length]; lia).
      specialize (Hl H). lia.
  - (* SUBACK *)
    intros [Ht [-> [Hpid [Hps [HR [Hne Hcodes]]]]]].
    assert (Hd : d_body t 0 (e_body (BSuback pid ps codes)) =
                 match p_u16 (e_body (BSuback pid ps codes)) with
                 | Some (pid, r) =>
                   match p_props t r with
                   | Some (props, c :: cs) => Some (BSuback pid props (map b2n (c :: cs)))
                   | _ => None end
                 | None => None end).
    { destruct Ht as [-> | ->]; reflexivity. }
    rewrite Hd. clear Hd. cbn [e_body]. rewrite sp_u16 by exact Hpid. rewrite (sp_props t ps _ Hps HR).
    destruct codes as [|c cs]; [congruence|].
    pose proof (map_b2n_codes (c :: cs) Hcodes) as E. cbn [map concat e_u8 app] in *. rewrite E. reflexivity.
  - (* UNSUBSCRIBE *)
    intros [-> [-> [Hpid [Hps [HR [Hne Hfs]]]]]]. cbn [d_body e_body].
    rewrite sp_u16 by exact Hpid. rewrite (sp_props 10 ps _ Hps HR).
    rewrite (sp_strings fs _ Hfs).
    + destruct fs; [congruence|reflexivity].
    + pose proof (concat_len_ge e_str fs) as Hl.
      assert (forall x : list byte, (0 < length (e_str x))%nat) by (intros x; unfold e_str, e_u16; cbn [app length]; lia).
      specialize (Hl H). lia.
  - (* PING *)
    intros [[-> | ->] ->]; reflexivity.
  - (* DISCONNECT, AUTH *)
    intros [Ht [-> [Hrc Hform]]].
    assert (Hd : d_body t 0 (e_body (BDisc form rc ps)) =
                 match e_body (BDisc form rc ps) with
                 | [] => Some (BDisc 0 0 [])
                 | _ =>
                   match p_u8 (e_body (BDisc form rc ps)) with
                   | Some (rc, []) => if t =? 14 then Some (BDisc 1 rc []) else None
                   | Some (rc, r) =>
                     match p_props t r with
                     | Some (props, []) => Some (BDisc 2 rc props)
                     | _ => None end
                   | None => None end
                 end).
    { destruct Ht as [-> | ->]; reflexivity. }
    rewrite Hd. clear Hd. cbn [e_body].
    destruct form as [|[[]|[]|]]; try contradiction.
    + (* 0 *) destruct Hform as [-> ->]. reflexivity.
    + (* 2 *) destruct Hform as [Hps HR]. cbn [N.eqb Pos.eqb].
      destruct (e_props_cons ps) as [x [r Ex]].
      assert (Ecs : e_u8 rc ++ e_props ps = n2b rc :: x :: r) by (rewrite Ex; reflexivity).
      rewrite Ecs. rewrite <- Ecs. rewrite sp_u8 by exact Hrc. rewrite Ex. rewrite <- Ex.
      rewrite <- (app_nil_r (e_props ps)). rewrite (sp_props t ps [] Hps HR). reflexivity.
    + (* 1 *) destruct Hform as [-> ->]. cbn [N.eqb Pos.eqb]. rewrite app_nil_r. unfold e_u8. cbn [p_u8].
      rewrite b2n_n2b_small by exact Hrc. reflexivity.
Qed.

Lemma sbody_header t fl b : sbody_ok t fl b -> t < 16 /\ fl < 16 /\ flags_ok t fl = true.
Proof.
  destruct b; cbn [sbody_ok]; intros H.
  - destruct H as [-> [-> _]]. repeat split; reflexivity.
  - destruct H as [-> [-> _]]. repeat split; reflexivity.
  - destruct H as [-> [H _]]. repeat split; try reflexivity. exact H.
  - destruct H as [Ht [-> _]]. destruct Ht as [-> |[-> |[-> | ->]]]; repeat split; reflexivity.
  - destruct H as [-> [-> _]]. repeat split; reflexivity.
  - destruct H as [Ht [-> _]]. destruct Ht as [-> | ->]; repeat split; reflexivity.
  - destruct H as [-> [-> _]]. repeat split; reflexivity.
  - destruct H as [Ht ->]. destruct Ht as [-> | ->]; repeat split; reflexivity.
  - destruct H as [Ht [-> _]]. destruct Ht as [-> | ->]; repeat split; reflexivity.
Qed.

Theorem spec_roundtrip f : sframe_ok f -> spec_decode (spec_encode f) = Some f.
Proof.
  destruct f as [t fl b]. unfold sframe_ok. cbn [af_type af_flags af_body]. intros [Hb Hl].
  destruct (sbody_header t fl b Hb) as [Ht [Hfl Hfo]].
  unfold spec_encode, spec_decode. cbn [af_type af_flags af_body]. cbv zeta.
  rewrite b2n_n2b_small by lia.
  assert (E1 : (t * 16 + fl) / 16 = t) by lia. assert (E2 : (t * 16 + fl) mod 16 = fl) by lia.
  rewrite E1, E2, Hfo. cbn [negb]. rewrite sp_var by exact Hl. rewrite N.eqb_refl. cbn [negb].
  rewrite (d_body_enc t fl b Hb). reflexivity.
Qed.
