(* Basic facts about bytes. *)
From MQ Require Import Model.Bytes.
From Coq Require Import ZArith Lia ZifyN ZifyNat ZifyBool.
Ltac Zify.zify_post_hook ::= Z.div_mod_to_equations.

Lemma b2n_lt b : b2n b < 256.
Proof. unfold b2n. pose proof (Byte.to_N_bounded b). lia. Qed.

Lemma n2b_b2n b : n2b (b2n b) = b.
Proof.
  unfold n2b, b2n. rewrite N.mod_small by (pose proof (Byte.to_N_bounded b); lia).
  rewrite Byte.of_to_N. reflexivity.
Qed.

Lemma b2n_n2b n : b2n (n2b n) = n mod 256.
Proof.
  unfold n2b, b2n.
  destruct (Byte.of_N (n mod 256)) eqn:E.
  - apply Byte.to_of_N in E. exact E.
  - exfalso. pose proof (Byte.of_N_None_iff (n mod 256)) as H.
    apply H in E. assert (n mod 256 < 256) by (apply N.mod_lt; lia). lia.
Qed.

Lemma b2n_n2b_small n : n < 256 -> b2n (n2b n) = n.
Proof. intros. rewrite b2n_n2b. apply N.mod_small; assumption. Qed.

Lemma b2n_inj a b : b2n a = b2n b -> a = b.
Proof. intros H. rewrite <- (n2b_b2n a), <- (n2b_b2n b), H. reflexivity. Qed.

Lemma len_app {A} (a b : list A) : len (a ++ b) = len a + len b.
Proof. unfold len. rewrite app_length. lia. Qed.
Lemma len_cons {A} (x : A) l : len (x :: l) = 1 + len l.
Proof. unfold len. simpl length. lia. Qed.
Lemma len_nil {A} : len (@nil A) = 0.
Proof. reflexivity. Qed.
