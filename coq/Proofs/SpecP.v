(* The library model against the specification model: short forms,
   fixed-shape packets, and the known finding D13. *)
From MQ Require Import Model.Stream Proofs.BytesP Proofs.StreamP Spec.Mqtt5 Spec.Glue.
From Coq Require Import ZArith Lia.

(* what ReadPacket returns for a frame, as accessor values *)
Definition frame_snapshot (b0 : byte) (body : list byte) : option (kind * list obs) :=
  match decode_frame b0 body with
  | Some (Some (k, p), None) => Some (k, snapshot k p)
  | _ => None
  end.

(* what the specification says the frame is *)
Definition spec_snapshot (b0 : byte) (hdr body : list byte) : option (N * list obs) :=
  match spec_decode (b0 :: hdr ++ body) with
  | Some f => Some (af_type f, frame_obs f)
  | None => None
  end.

Definition ack_byte (t : N) : byte := n2b (t * 16 + (if t =? 6 then 2 else 0)).

(* PUBACK, PUBREC, PUBREL, PUBCOMP of remaining length 2 and 3 *)
Lemma ack_len2 t a b : (t = 4 \/ t = 5 \/ t = 6 \/ t = 7) ->
  frame_snapshot (ack_byte t) [a; b]
  = Some (kind_of_nibble t, [ON (b2n a * 256 + b2n b); ON 0; OS []; OL []])
  /\ spec_snapshot (ack_byte t) [x02] [a; b] = Some (t, [ON (b2n a * 256 + b2n b); ON 0; OS []; OL []]).
Proof. intros [->|[->|[->| ->]]]; split; vm_compute; reflexivity. Qed.

Lemma ack_len3 t a b c : (t = 4 \/ t = 5 \/ t = 6 \/ t = 7) ->
  frame_snapshot (ack_byte t) [a; b; c]
  = Some (kind_of_nibble t, [ON (b2n a * 256 + b2n b); ON (b2n c); OS []; OL []])
  /\ spec_snapshot (ack_byte t) [x03] [a; b; c] = Some (t, [ON (b2n a * 256 + b2n b); ON (b2n c); OS []; OL []]).
Proof. intros [->|[->|[->| ->]]]; split; vm_compute; reflexivity. Qed.

(* ... and of remaining length 4 with an empty property list *)
Lemma ack_len4 t a b c : (t = 4 \/ t = 5 \/ t = 6 \/ t = 7) ->
  frame_snapshot (ack_byte t) [a; b; c; x00]
  = Some (kind_of_nibble t, [ON (b2n a * 256 + b2n b); ON (b2n c); OS []; OL []])
  /\ spec_snapshot (ack_byte t) [x04] [a; b; c; x00] = Some (t, [ON (b2n a * 256 + b2n b); ON (b2n c); OS []; OL []]).
Proof. intros [->|[->|[->| ->]]]; split; vm_compute; reflexivity. Qed.

(* DISCONNECT and AUTH of remaining length 0, DISCONNECT of length 1, pings *)
Lemma short_disconnect c :
  frame_snapshot xe0 [] = Some (KDisconnect, [ON 0; ON 0; OS []; OS []; OL []])
  /\ spec_snapshot xe0 [x00] [] = Some (14, [ON 0; ON 0; OS []; OS []; OL []])
  /\ frame_snapshot xe0 [c] = Some (KDisconnect, [ON (b2n c); ON 0; OS []; OS []; OL []])
  /\ spec_snapshot xe0 [x01] [c] = Some (14, [ON (b2n c); ON 0; OS []; OS []; OL []])
  /\ frame_snapshot xf0 [] = Some (KAuth, [ON 0; OS []; OS []; OS []; OL []])
  /\ spec_snapshot xf0 [x00] [] = Some (15, [ON 0; OS []; OS []; OS []; OL []])
  /\ frame_snapshot xc0 [] = Some (KPingReq, []) /\ spec_snapshot xc0 [x00] [] = Some (12, [])
  /\ frame_snapshot xd0 [] = Some (KPingResp, []) /\ spec_snapshot xd0 [x00] [] = Some (13, []).
Proof. repeat split; vm_compute; reflexivity. Qed.

(* ---------------- D13, repaired ---------------- *)
(* e0 07 81 05 1f 00 02 68 69: DISCONNECT, reason 0x81, reason string "hi" -
   valid by the specification; the library used to reject it (no field for
   the property), it now decodes it *)
Lemma disconnect_reason_string_accepted :
  spec_decode [xe0; x07; x81; x05; x1f; x00; x02; x68; x69]
  = Some {| af_type := 14; af_flags := 0;
            af_body := BDisc 2 129 [{| ap_id := 31; ap_val := VStr [x68; x69] |}] |}
  /\ frame_snapshot xe0 [x81; x05; x1f; x00; x02; x68; x69]
     = Some (KDisconnect, [ON 129; ON 0; OS [x68; x69]; OS []; OL []]).
Proof. split; vm_compute; reflexivity. Qed.
