(* C05: the number of buffer.get calls UnmarshalBinary makes is bounded by
   twice the length of the data plus a constant of the packet type: every
   get that succeeds moves the offset forward, a get that fails sets the
   error, and after an error each loop makes at most one more call (the
   reason-code loop of SUBACK/UNSUBACK makes one call per remaining byte). *)
From MQ Require Import Model.Codec Proofs.BytesP Proofs.WireP Proofs.DecP Proofs.BoundP.
From Coq Require Import ZArith Lia ZifyN ZifyNat ZifyBool.

(* data unchanged, offset inside the data and not moved back, and the calls
   made are paid for by twice the advance of the offset, plus c *)
Definition postS (c : nat) (s : dstate) (r : res) : Prop :=
  match r with
  | Run s' => (dpos s' <= length (ddata s'))%nat /\ ddata s' = ddata s /\ (dpos s <= dpos s')%nat
              /\ (dsteps s' + 2 * dpos s <= dsteps s + 2 * dpos s' + c)%nat
  | _ => True
  end.

Lemma postS_trans c1 c2 s s1 r :
  ddata s1 = ddata s -> (dpos s <= dpos s1)%nat ->
  (dsteps s1 + 2 * dpos s <= dsteps s + 2 * dpos s1 + c1)%nat ->
  postS c2 s1 r -> postS (c1 + c2) s r.
Proof.
  intros Hd Hp Hs. destruct r as [s'| |]; cbn; auto.
  intros [I [D [P S']]]. split; [exact I|]. split; [congruence|]. split; lia.
Qed.

Lemma postS_mono c c' s r : (c <= c')%nat -> postS c s r -> postS c' s r.
Proof. intros H. destruct r as [s'| |]; cbn; auto. intros [I [D [P S']]]. repeat split; try assumption; lia. Qed.

Lemma postS_refl s : (dpos s <= length (ddata s))%nat -> postS 0 s (Run s).
Proof. intros H. cbn. split; [exact H|]. split; [reflexivity|]. split; lia. Qed.

Lemma get_postS r t s : (dpos s <= length (ddata s))%nat -> postS 1 s (get r t s).
Proof.
  intros Hp. unfold get. destruct (getf_opt r (dp s)) as [old|]; [|exact I].
  pose proof (get_val_spec t old s) as G.
  destruct (get_val t old s) as [v s'|s'|]; [| |contradiction];
    destruct G as [[Gp Gd Gs Gl] _]; specialize (Gl Hp); cbn [postS dp ddata dpos dsteps with_pkt];
    rewrite Gd, Gs; repeat split; lia.
Qed.

Lemma get_steps r t s s2 : get r t s = Run s2 -> dsteps s2 = S (dsteps s).
Proof.
  unfold get. destruct (getf_opt r (dp s)) as [old|]; [|discriminate].
  pose proof (get_val_spec t old s) as G.
  destruct (get_val t old s) as [v s'|s'|]; [| |contradiction]; destruct G as [[_ _ Gs _] _];
    intros H; injection H as <-; exact Gs.
Qed.

(* the property loop: one call is not paid for, the one that finds the error *)
Lemma getany_loop_S : forall fuel m will sm endp id s,
  (dpos s <= length (ddata s))%nat ->
  postS 1 s (getany_loop fuel m will sm endp id s).
Proof.
  induction fuel as [|fuel IH]; intros m will sm endp id s Hp; [exact I|].
  cbn [getany_loop].
  destruct (N.of_nat (dpos s) <? endp); [|apply (postS_mono 0); [lia|apply postS_refl; exact Hp]].
  pose proof (get_val_spec U8 (VN id) s) as G.
  destruct (get_val U8 (VN id) s) as [v s1|s1|]; [| |contradiction].
  2:{ destruct G as [[Gp Gd Gs Gl] _]. specialize (Gl Hp). cbn. rewrite Gd, Gs. repeat split; lia. }
  destruct G as [[Gp Gd Gs Gl] [He [Hlt [_ [Hpos1 Hpos2]]]]]. specialize (Gl Hp).
  assert (Hadv : (dpos s < dpos s1)%nat).
  { destruct (derr s1) eqn:E1.
    - rewrite Hpos2 by discriminate. lia.
    - rewrite Hpos1 by reflexivity. rewrite width_u8_1. lia. }
  assert (Hp1 : (dpos s1 <= length (ddata s1))%nat) by (rewrite Gd; lia).
  (* continuing from a state reached from s1 by at most one more call *)
  assert (K : forall s2 id', (dpos s2 <= length (ddata s2))%nat -> ddata s2 = ddata s1 ->
               (dpos s1 <= dpos s2)%nat -> (dsteps s2 <= S (dsteps s1))%nat ->
               postS 1 s (getany_loop fuel m will sm endp id' s2)).
  { intros s2 id' I2 D2 P2 S2.
    apply (postS_trans 0 1 s s2); [congruence|lia|lia|]. apply IH. exact I2. }
  set (idv := valN v).
  destruct (match sm with
            | SubOpt => if idv =? SubscriptionID then None else lookup_prop m idv
            | _ => lookup_prop m idv end) as [[r t]|].
  - pose proof (get_postS r t s1 Hp1) as P.
    destruct (get r t s1) as [s2| |] eqn:Eg; [|exact I|exact I].
    cbn [postS] in P. destruct P as [I2 [D2 [P2 L2]]].
    pose proof (get_steps r t s1 s2 Eg) as S2.
    apply K; try assumption. lia.
  - destruct (match sm with SubOpt => idv =? SubscriptionID | _ => false end).
    + set (s1' := with_pkt (set_subid (dp s1) (Some 0)) s1).
      assert (Hp1' : (dpos s1' <= length (ddata s1'))%nat) by exact Hp1.
      pose proof (get_val_spec Vb (VN 0) s1') as G2.
      destruct (get_val Vb (VN 0) s1') as [v2 s2|s2|]; [| |contradiction];
        destruct G2 as [[Gp2 Gd2 Gs2 Gl2] _]; specialize (Gl2 Hp1');
        change (dpos s1') with (dpos s1) in Gl2; change (dsteps s1') with (dsteps s1) in Gs2;
        change (ddata s1') with (ddata s1) in Gd2, Gl2;
        (apply K; [cbn [ddata dpos with_pkt]; rewrite ?Gd2; lia|cbn [ddata with_pkt]; exact Gd2
                  |cbn [dpos with_pkt]; lia|cbn [dsteps with_pkt]; lia]).
    + destruct (idv =? UserProperty).
      * pose proof (get_up_spec s1) as G2.
        destruct (get_with dec_userprop width_userprop s1) as [kv s2|s2|]; [| |contradiction];
          destruct G2 as [[Gp2 Gd2 Gs2 Gl2] _]; specialize (Gl2 Hp1);
          (destruct (add_uprop will _ (dp s2)) as [p'|] eqn:Ea; [|exact I]);
          (apply K; [cbn [ddata dpos with_pkt]; rewrite Gd2; lia|cbn [ddata with_pkt]; exact Gd2
                    |cbn [dpos with_pkt]; lia|cbn [dsteps with_pkt]; lia]).
      * destruct (idv =? SubscriptionID).
        -- pose proof (get_val_spec Vb (VN 0) s1) as G2.
           destruct (get_val Vb (VN 0) s1) as [v2 s2|s2|]; [| |contradiction];
             destruct G2 as [[Gp2 Gd2 Gs2 Gl2] _]; specialize (Gl2 Hp1);
             destruct sm;
             (apply K; [cbn [ddata dpos with_pkt]; rewrite ?Gd2; lia|cbn [ddata with_pkt]; exact Gd2
                       |cbn [dpos with_pkt]; lia|cbn [dsteps with_pkt]; lia]).
        -- apply K; [cbn [ddata dpos with_err]; exact Hp1|reflexivity|cbn; lia|cbn; lia].
Qed.

Lemma getany_S m will sm s : (dpos s <= length (ddata s))%nat -> postS 2 s (getany m will sm s).
Proof.
  intros Hp. unfold getany. destruct (at_end s); [apply (postS_mono 0); [lia|apply postS_refl; exact Hp]|].
  pose proof (get_val_spec Vb (VN 0) s) as G.
  destruct (get_val Vb (VN 0) s) as [v s1|s1|]; [| |contradiction];
    destruct G as [[Gp Gd Gs Gl] _]; specialize (Gl Hp);
    (apply (postS_trans 1 1 s s1); [exact Gd|lia|lia|]); apply getany_loop_S; rewrite Gd; lia.
Qed.

(* SUBSCRIBE: two calls per filter, the offset moves by at least one each *)
Lemma filter_loop_S : forall fuel s, (dpos s <= length (ddata s))%nat -> postS 2 s (filter_loop fuel s).
Proof.
  induction fuel as [|fuel IH]; intros s Hp; [exact I|].
  cbn [filter_loop].
  destruct (at_end s); [apply (postS_mono 0); [lia|apply postS_refl; exact Hp]|].
  pose proof (get_val_spec Bin (VS []) s) as G.
  destruct (get_val Bin (VS []) s) as [v s1|s1|]; [| |contradiction].
  - destruct G as [[Gp Gd Gs Gl] [He [Hlt [_ [Hpos1 Hpos2]]]]]. specialize (Gl Hp).
    assert (Hp1 : (dpos s1 <= length (ddata s1))%nat) by (rewrite Gd; lia).
    pose proof (get_val_spec U8 (VN 0) s1) as G2.
    destruct (get_val U8 (VN 0) s1) as [v2 s2|s2|]; [| |contradiction].
    + destruct G2 as [[Gp2 Gd2 Gs2 Gl2] [He2 [Hlt2 [_ [Hq1 Hq2]]]]]. specialize (Gl2 Hp1).
      assert (Hadv : (dpos s1 < dpos s2)%nat).
      { destruct (derr s2) eqn:E2.
        - rewrite Hq2 by discriminate. lia.
        - rewrite Hq1 by reflexivity. rewrite width_u8_1. lia. }
      set (s3 := with_pkt (set_filters (dp s2) (filters (dp s2) ++ [(valS v, valN v2)])) s2).
      replace (derr s3) with (derr s2) by reflexivity.
      destruct (derr s2) eqn:E2.
      * subst s3; cbn [postS dp ddata dpos dsteps with_pkt]; rewrite ?Gd2 in *; rewrite ?Gd in *; rewrite ?Gs2, ?Gs; repeat split; try congruence; lia.
      * destruct (at_end s3).
        -- subst s3; cbn [postS dp ddata dpos dsteps with_pkt]; rewrite ?Gd2 in *; rewrite ?Gd in *; rewrite ?Gs2, ?Gs; repeat split; try congruence; lia.
        -- apply (postS_trans 0 2 s s3); subst s3; cbn [dp ddata dpos dsteps with_pkt]; [congruence|lia|lia|].
           apply IH. cbn [dp ddata dpos dsteps with_pkt]. rewrite Gd2. lia.
    + destruct G2 as [[Gp2 Gd2 Gs2 Gl2] [He2 Hq]]. specialize (Gl2 Hp1).
      set (s3 := with_pkt (set_filters (dp s2) (filters (dp s2) ++ [(valS v, 0)])) s2).
      replace (derr s3) with (derr s2) by reflexivity.
      destruct (derr s2) eqn:E2; [|congruence].
      subst s3; cbn [postS dp ddata dpos dsteps with_pkt]; rewrite ?Gd2 in *; rewrite ?Gd in *; rewrite ?Gs2, ?Gs; repeat split; try congruence; lia.
  - destruct G as [[Gp Gd Gs Gl] [He Hq]]. specialize (Gl Hp).
    assert (Hp1 : (dpos s1 <= length (ddata s1))%nat) by (rewrite Gd; lia).
    pose proof (get_val_spec U8 (VN 0) s1) as G2.
    destruct (get_val U8 (VN 0) s1) as [v2 s2|s2|]; [| |contradiction].
    + destruct G2 as [_ [He2 _]]. congruence.
    + destruct G2 as [[Gp2 Gd2 Gs2 Gl2] [He2 Hq2]]. specialize (Gl2 Hp1).
      set (s3 := with_pkt (set_filters (dp s2) (filters (dp s2) ++ [([], 0)])) s2).
      replace (derr s3) with (derr s2) by reflexivity.
      destruct (derr s2) eqn:E2; [|congruence].
      subst s3; cbn [postS dp ddata dpos dsteps with_pkt]; rewrite ?Gd2 in *; rewrite ?Gd in *; rewrite ?Gs2, ?Gs; repeat split; try congruence; lia.
Qed.

(* UNSUBSCRIBE: one call per filter *)
Lemma ufilter_loop_S : forall fuel s, (dpos s <= length (ddata s))%nat -> postS 1 s (ufilter_loop fuel s).
Proof.
  induction fuel as [|fuel IH]; intros s Hp; [exact I|].
  cbn [ufilter_loop].
  destruct (at_end s) eqn:Eend; [apply (postS_mono 0); [lia|apply postS_refl; exact Hp]|].
  pose proof (get_val_spec Bin (VS []) s) as G.
  destruct (get_val Bin (VS []) s) as [v s1|s1|]; [| |contradiction].
  - destruct G as [[Gp Gd Gs Gl] [He [Hlt [Hdec [Hpos1 Hpos2]]]]]. specialize (Gl Hp).
    assert (Hadv : (dpos s < dpos s1)%nat).
    { destruct (derr s1) eqn:E1.
      - rewrite Hpos2 by discriminate. lia.
      - rewrite Hpos1 by reflexivity.
        assert (2 <= width Bin v)%nat by (unfold width, encode, enc_bin, enc_u16; rewrite app_length; simpl; lia).
        lia. }
    set (s3 := with_pkt (set_ufilters (dp s1) (ufilters (dp s1) ++ [valS v])) s1).
    replace (derr s3) with (derr s1) by reflexivity.
    destruct (derr s1) eqn:E1.
    + subst s3; cbn [postS dp ddata dpos dsteps with_pkt]; rewrite ?Gd in *; rewrite ?Gs; repeat split; try congruence; lia.
    + destruct (at_end s3).
      * subst s3; cbn [postS dp ddata dpos dsteps with_pkt]; rewrite ?Gd in *; rewrite ?Gs; repeat split; try congruence; lia.
      * apply (postS_trans 0 1 s s3); subst s3; cbn [dp ddata dpos dsteps with_pkt]; [congruence|lia|lia|].
        apply IH. cbn [dp ddata dpos dsteps with_pkt]. rewrite Gd. lia.
  - destruct G as [[Gp Gd Gs Gl] [He Hq]]. specialize (Gl Hp).
    set (s3 := with_pkt (set_ufilters (dp s1) (ufilters (dp s1) ++ [[]])) s1).
    replace (derr s3) with (derr s1) by reflexivity.
    destruct (derr s1) eqn:E1; [|congruence].
    subst s3; cbn [postS dp ddata dpos dsteps with_pkt]; rewrite ?Gd in *; rewrite ?Gs; repeat split; try congruence; lia.
Qed.

(* SUBACK/UNSUBACK: one call per byte that is left *)
Lemma rcodes_loop_S : forall n acc s s', (dpos s <= length (ddata s))%nat ->
  rcodes_loop n acc s = Run s' ->
  ddata s' = ddata s /\ (dpos s <= dpos s' <= length (ddata s))%nat /\ dsteps s' = (dsteps s + n)%nat.
Proof.
  induction n as [|n IH]; intros acc s s' Hp H.
  - cbn [rcodes_loop] in H. injection H as <-. cbn. repeat split; lia.
  - cbn [rcodes_loop] in H.
    pose proof (get_val_spec U8 (VN 0) s) as G.
    destruct (get_val U8 (VN 0) s) as [v s1|s1|]; [| |discriminate];
      destruct G as [[Gp Gd Gs Gl] _]; specialize (Gl Hp);
      (destruct (IH _ _ _ ltac:(rewrite Gd; lia) H) as [Hd [Hpos Hst]]);
      rewrite Gd in *; repeat split; try congruence; lia.
Qed.

(* the calls a program can make without being paid for by the offset *)
Fixpoint cost1 (d : dec) : nat :=
  match d with
  | DGet _ _ => 1%nat
  | DGetAny _ _ _ => 2%nat
  | DIf _ ds => (fix sum (l : list dec) : nat := match l with [] => 0%nat | x :: l' => (cost1 x + sum l')%nat end) ds
  | DFilterLoop => 2%nat
  | DUnsubFilterLoop => 1%nat
  | DWillInit | DWillPayloadCopy | DUndefinedData _ | DReasonCodes => 0%nat
  end.
Fixpoint cost (ds : list dec) : nat :=
  match ds with [] => 0%nat | d :: ds' => (cost1 d + cost ds')%nat end.

Fixpoint norc1 (d : dec) : bool :=
  match d with
  | DReasonCodes => false
  | DIf _ ds => (fix all (l : list dec) : bool := match l with [] => true | x :: l' => norc1 x && all l' end) ds
  | _ => true
  end.
Fixpoint norc (ds : list dec) : bool :=
  match ds with [] => true | d :: ds' => norc1 d && norc ds' end.

Lemma norc1_S : forall d s, norc1 d = true -> (dpos s <= length (ddata s))%nat -> postS (cost1 d) s (run_dec1 d s).
Proof.
  fix IH 1. intros d s Hd Hp.
  assert (IHl : forall ds s, (fix all (l : list dec) : bool :=
                               match l with [] => true | x :: l' => norc1 x && all l' end) ds = true ->
                 (dpos s <= length (ddata s))%nat ->
                 postS ((fix sum (l : list dec) : nat := match l with [] => 0%nat | x :: l' => (cost1 x + sum l')%nat end) ds)
                       s (run_dec ds s)).
  { induction ds as [|x ds IHds]; intros s0 Hx Hp0; [apply postS_refl; exact Hp0|].
    apply andb_prop in Hx as [Hx1 Hx2]. cbn [run_dec].
    pose proof (IH x s0 Hx1 Hp0) as P. destruct (run_dec1 x s0) as [s1| |]; [|exact I|exact I].
    cbn [postS] in P. destruct P as [I1 [D1 [P1 L1]]].
    apply (postS_trans _ _ s0 s1); try assumption. apply IHds; assumption. }
  destruct d as [r w|m will sm|c ds| | | | | |cp]; try discriminate Hd; cbn [cost1].
  - apply get_postS. exact Hp.
  - apply getany_S. exact Hp.
  - change (run_dec1 (DIf c ds) s) with (if eval_cond c (dp s) (env_of s) then run_dec ds s else Run s).
    destruct (eval_cond c (dp s) (env_of s)); [apply IHl; assumption|].
    apply (postS_mono 0); [lia|apply postS_refl; exact Hp].
  - cbn [run_dec1 postS dp ddata dpos dsteps with_pkt]. repeat split; lia.
  - cbn [run_dec1]. destruct (hasWill (dp s)); [|exact I]. cbn [postS dp ddata dpos dsteps with_pkt]. repeat split; lia.
  - cbn [run_dec1]. apply filter_loop_S. exact Hp.
  - cbn [run_dec1]. apply ufilter_loop_S. exact Hp.
  - cbn [run_dec1 postS dp ddata dpos dsteps with_pkt]. repeat split; lia.
Qed.

Lemma norc_S : forall ds s, norc ds = true -> (dpos s <= length (ddata s))%nat -> postS (cost ds) s (run_dec ds s).
Proof.
  induction ds as [|x ds IH]; intros s Hx Hp; [apply postS_refl; exact Hp|].
  cbn [norc] in Hx. apply andb_prop in Hx as [Hx1 Hx2]. cbn [run_dec cost].
  pose proof (norc1_S x s Hx1 Hp) as P. destruct (run_dec1 x s) as [s1| |]; [|exact I|exact I].
  cbn [postS] in P. destruct P as [I1 [D1 [P1 L1]]].
  apply (postS_trans _ _ s s1); try assumption. apply IH; assumption.
Qed.

Definition last_rc (l : list dec) : bool :=
  match l with [] | [DReasonCodes] => true | _ => false end.

Lemma steps_prog pre last p0 data : norc pre = true -> last_rc last = true ->
  match run_dec (pre ++ last) {| dp := p0; ddata := data; dpos := 0; derr := None; dsteps := 0 |} with
  | Run s => (dsteps s <= 2 * length data + cost pre)%nat
  | _ => True
  end.
Proof.
  intros Hpre Hlast. rewrite run_dec_app'.
  set (s0 := {| dp := p0; ddata := data; dpos := 0; derr := None; dsteps := 0 |}).
  pose proof (norc_S pre s0 Hpre ltac:(cbn; lia)) as P.
  destruct (run_dec pre s0) as [s1| |]; [|exact I|exact I].
  cbn [postS] in P. destruct P as [I1 [D1 [P1 L1]]].
  change (dsteps s0) with 0%nat in L1. change (dpos s0) with 0%nat in L1. change (ddata s0) with data in D1.
  destruct last as [|l0 [|l1 rest]]; try discriminate Hlast.
  - cbn [run_dec]. rewrite D1 in I1. lia.
  - destruct l0; try discriminate Hlast; cbn [run_dec run_dec1].
    destruct (Nat.leb (dpos s1) (length (ddata s1))); [|exact I].
    destruct (rcodes_loop (length (ddata s1) - dpos s1) [] s1) as [s2| |] eqn:ER; [|exact I|exact I].
    destruct (rcodes_loop_S _ _ _ _ I1 ER) as [Hd [Hpos Hst]]. rewrite D1 in *. lia.
  - destruct l0; discriminate Hlast.
Qed.

Definition steps_split (k : kind) : list dec * list dec :=
  match k with
  | KSubAck | KUnsubAck => ([DGet (M F_packetID) U16; DGetAny ack_map false NoSub], [DReasonCodes])
  | k => (dec_of k, [])
  end.

Lemma steps_split_ok k : dec_of k = fst (steps_split k) ++ snd (steps_split k)
  /\ norc (fst (steps_split k)) = true /\ last_rc (snd (steps_split k)) = true
  /\ (cost (fst (steps_split k)) <= 16)%nat.
Proof. destruct k; cbn [steps_split fst snd]; rewrite ?app_nil_r; repeat split; try reflexivity; cbn; lia. Qed.

(* UnmarshalBinary makes at most 2 * len(data) + 16 buffer.get calls, for
   every packet type, receiver state and byte string *)
Theorem unmarshal_steps_bound k p0 data :
  (snd (unmarshal_steps k p0 data) <= 2 * length data + 16)%nat.
Proof.
  destruct (steps_split_ok k) as [E [Hp [Hl Hc]]].
  pose proof (steps_prog _ _ p0 data Hp Hl) as B. rewrite <- E in B.
  unfold unmarshal_steps.
  destruct (run_dec (dec_of k) _) as [s| |]; cbn [snd]; lia.
Qed.
