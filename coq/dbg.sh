#!/bin/sh
# dbg.sh FILE LINE : show the goal before line LINE
f=$1; n=$2
head -n $((n-1)) $f > Proofs/Dbg_tmp.v
echo "Show. Abort." >> Proofs/Dbg_tmp.v
timeout 300 coqc -Q . MQ Proofs/Dbg_tmp.v 2>&1 | tail -${3:-60}
rm -f Proofs/Dbg_tmp.* Proofs/.Dbg_tmp.*
