(* Known finding D13 (KNOWN_FINDINGS.txt, key disconnect-props-0x11-0x1c-0x1f):
   the full statement of C03 is false of the faithful model, and of the code. *)
From MQ Require Import Model.Stream Proofs.StreamP Proofs.SpecP Spec.Mqtt5 Spec.Glue.

(* C03 in full: every frame the specification accepts is accepted and
   yields the values it carries *)
Definition C03_full : Prop :=
  forall b0 hdr body f, spec_decode (b0 :: hdr ++ body) = Some f ->
    exists k p, decode_frame b0 body = Some (Some (k, p), None)
                /\ kind_nibble k = af_type f /\ snapshot k p = frame_obs f.

Theorem C03_refuted : ~ C03_full.
Proof.
  intros H. destruct disconnect_reason_string_refuted as [S D].
  destruct (H xe0 [x07] [x81; x05; x1f; x00; x02; x68; x69] _ S) as [k [p [E _]]].
  rewrite D in E. discriminate.
Qed.
Print Assumptions C03_refuted.
