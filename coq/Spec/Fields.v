(* An independent record-of-fields model of the public setter/accessor
   API (property C12): every setter stores its argument in the field it
   names and nothing else, adders append, and flags are *functions of
   the stored values*, never state of their own. It shares with the
   model only the vocabulary: the type of calls, field names, the
   observation type. *)
From MQ Require Import Model.Api.
From Coq Require Import ZArith.

(* what is remembered of the message passed to SetWill *)
Record willrec := { wr_retain : bool; wr_qos : N; wr_obs : list obs }.

Record sp := {
  s_vals : fld -> value;                    (* plain fields, last value set *)
  s_uprops : list (list byte * list byte);
  s_subids : list N;
  s_subid : option Z;
  s_filters : list (list byte * N);
  s_ufilters : list (list byte);
  s_rcodes : list N;
  s_clean : bool;                           (* CONNECT clean start        *)
  s_present : bool;                         (* CONNACK session present    *)
  s_dup : bool; s_retain : bool; s_qos : N; (* PUBLISH header flags       *)
  s_will : option willrec
}.

Definition sp_init (k : kind) : sp :=
  {| s_vals := match k with
               | KConnect => upd (upd no_vals F_protocolName (VS mqtt5)) F_protocolVersion (VN 5)
               | _ => no_vals end;
     s_uprops := []; s_subids := []; s_subid := None; s_filters := []; s_ufilters := [];
     s_rcodes := []; s_clean := false; s_present := false; s_dup := false; s_retain := false;
     s_qos := 0; s_will := None |}.

Definition sv (f : fld) (v : value) (s : sp) : sp :=
  {| s_vals := upd (s_vals s) f v; s_uprops := s_uprops s; s_subids := s_subids s;
     s_subid := s_subid s; s_filters := s_filters s; s_ufilters := s_ufilters s;
     s_rcodes := s_rcodes s; s_clean := s_clean s; s_present := s_present s;
     s_dup := s_dup s; s_retain := s_retain s; s_qos := s_qos s; s_will := s_will s |}.

(* SetQoS documents: 0,1,2 or 3; other values unset the QoS *)
Definition norm_qos (v : N) : N := if (v =? 1) || (v =? 2) || (v =? 3) then v else 0.

(* the PUBLISH observations of the message handed to SetWill *)
Definition will_of (w : pkt) : willrec :=
  let fx := getN (M F_fixed) w in
  {| wr_retain := has fx RETAIN; wr_qos := qos_of_fixed fx; wr_obs := snap_publish w |}.

Definition sp_step (c : call) (s : sp) : sp :=
  let upd_s f v := sv f v s in
  match c with
  | SetWill w =>
      {| s_vals := upd (s_vals s) F_willPayload (VS (getS (M F_payload) w));
         s_uprops := s_uprops s; s_subids := s_subids s;
         s_subid := s_subid s; s_filters := s_filters s; s_ufilters := s_ufilters s;
         s_rcodes := s_rcodes s; s_clean := s_clean s; s_present := s_present s;
         s_dup := s_dup s; s_retain := s_retain s; s_qos := s_qos s; s_will := Some (will_of w) |}
  | SetWillDelayInterval n => upd_s F_willDelayInterval (VN n)
  | SetCleanStart b =>
      {| s_vals := s_vals s; s_uprops := s_uprops s; s_subids := s_subids s;
         s_subid := s_subid s; s_filters := s_filters s; s_ufilters := s_ufilters s;
         s_rcodes := s_rcodes s; s_clean := b; s_present := s_present s;
         s_dup := s_dup s; s_retain := s_retain s; s_qos := s_qos s; s_will := s_will s |}
  | SetProtocolVersion n => upd_s F_protocolVersion (VN n)
  | SetProtocolName x => upd_s F_protocolName (VS x)
  | SetClientID x => upd_s F_clientID (VS x)
  | SetKeepAlive n => upd_s F_keepAlive (VN n)
  | SetSessionExpiryInterval n => upd_s F_sessionExpiryInterval (VN n)
  | SetReceiveMax n => upd_s F_receiveMax (VN n)
  | SetMaxPacketSize n => upd_s F_maxPacketSize (VN n)
  | SetTopicAliasMax n => upd_s F_topicAliasMax (VN n)
  | SetRequestResponseInfo b => upd_s F_requestResponseInfo (VB b)
  | SetRequestProblemInfo b => upd_s F_requestProblemInfo (VB b)
  | SetAuthMethod x => upd_s F_authMethod (VS x)
  | SetAuthData x => upd_s F_authData (VS x)
  | SetUsername x => upd_s F_username (VS x)
  | SetPassword x => upd_s F_password (VS x)
  | SetSessionPresent b =>
      {| s_vals := s_vals s; s_uprops := s_uprops s; s_subids := s_subids s;
         s_subid := s_subid s; s_filters := s_filters s; s_ufilters := s_ufilters s;
         s_rcodes := s_rcodes s; s_clean := s_clean s; s_present := b;
         s_dup := s_dup s; s_retain := s_retain s; s_qos := s_qos s; s_will := s_will s |}
  | SetMaxQoS n => upd_s F_maxQoS (VN n)
  | SetRetainAvailable b => upd_s F_retainAvailable (VB b)
  | SetAssignedClientID x => upd_s F_assignedClientID (VS x)
  | SetReasonCode n => upd_s F_reasonCode (VN n)
  | SetReasonString x => upd_s F_reasonString (VS x)
  | SetWildcardSubAvailable b => upd_s F_wildcardSubAvailable (VB b)
  | SetSubIdentifiersAvailable b => upd_s F_subIdentifiersAvailable (VB b)
  | SetSharedSubAvailable b => upd_s F_sharedSubAvailable (VB b)
  | SetServerKeepAlive n => upd_s F_serverKeepAlive (VN n)
  | SetResponseInformation x => upd_s F_responseInformation (VS x)
  | SetServerReference x => upd_s F_serverReference (VS x)
  | SetDuplicate b =>
      {| s_vals := s_vals s; s_uprops := s_uprops s; s_subids := s_subids s;
         s_subid := s_subid s; s_filters := s_filters s; s_ufilters := s_ufilters s;
         s_rcodes := s_rcodes s; s_clean := s_clean s; s_present := s_present s;
         s_dup := b; s_retain := s_retain s; s_qos := s_qos s; s_will := s_will s |}
  | SetRetain b =>
      {| s_vals := s_vals s; s_uprops := s_uprops s; s_subids := s_subids s;
         s_subid := s_subid s; s_filters := s_filters s; s_ufilters := s_ufilters s;
         s_rcodes := s_rcodes s; s_clean := s_clean s; s_present := s_present s;
         s_dup := s_dup s; s_retain := b; s_qos := s_qos s; s_will := s_will s |}
  | SetQoS v =>
      {| s_vals := s_vals s; s_uprops := s_uprops s; s_subids := s_subids s;
         s_subid := s_subid s; s_filters := s_filters s; s_ufilters := s_ufilters s;
         s_rcodes := s_rcodes s; s_clean := s_clean s; s_present := s_present s;
         s_dup := s_dup s; s_retain := s_retain s; s_qos := norm_qos v; s_will := s_will s |}
  | SetTopicName x => upd_s F_topicName (VS x)
  | SetPacketID n => upd_s F_packetID (VN n)
  | SetPayloadFormat b => upd_s F_payloadFormat (VB b)
  | SetMessageExpiryInterval n => upd_s F_messageExpiryInterval (VN n)
  | SetTopicAlias n => upd_s F_topicAlias (VN n)
  | SetResponseTopic x => upd_s F_responseTopic (VS x)
  | SetCorrelationData x => upd_s F_correlationData (VS x)
  | AddSubscriptionID n =>
      {| s_vals := s_vals s; s_uprops := s_uprops s; s_subids := s_subids s ++ [n];
         s_subid := s_subid s; s_filters := s_filters s; s_ufilters := s_ufilters s;
         s_rcodes := s_rcodes s; s_clean := s_clean s; s_present := s_present s;
         s_dup := s_dup s; s_retain := s_retain s; s_qos := s_qos s; s_will := s_will s |}
  | SetContentType x => upd_s F_contentType (VS x)
  | SetPayload x => upd_s F_payload (VS x)
  | SetSubscriptionID z =>
      {| s_vals := s_vals s; s_uprops := s_uprops s; s_subids := s_subids s;
         s_subid := Some z; s_filters := s_filters s; s_ufilters := s_ufilters s;
         s_rcodes := s_rcodes s; s_clean := s_clean s; s_present := s_present s;
         s_dup := s_dup s; s_retain := s_retain s; s_qos := s_qos s; s_will := s_will s |}
  | AddFilter x o =>
      {| s_vals := s_vals s; s_uprops := s_uprops s; s_subids := s_subids s;
         s_subid := s_subid s; s_filters := s_filters s ++ [(x, o)]; s_ufilters := s_ufilters s;
         s_rcodes := s_rcodes s; s_clean := s_clean s; s_present := s_present s;
         s_dup := s_dup s; s_retain := s_retain s; s_qos := s_qos s; s_will := s_will s |}
  | AddReasonCode n =>
      {| s_vals := s_vals s; s_uprops := s_uprops s; s_subids := s_subids s;
         s_subid := s_subid s; s_filters := s_filters s; s_ufilters := s_ufilters s;
         s_rcodes := s_rcodes s ++ [n]; s_clean := s_clean s; s_present := s_present s;
         s_dup := s_dup s; s_retain := s_retain s; s_qos := s_qos s; s_will := s_will s |}
  | AddUnsubFilter x =>
      {| s_vals := s_vals s; s_uprops := s_uprops s; s_subids := s_subids s;
         s_subid := s_subid s; s_filters := s_filters s; s_ufilters := s_ufilters s ++ [x];
         s_rcodes := s_rcodes s; s_clean := s_clean s; s_present := s_present s;
         s_dup := s_dup s; s_retain := s_retain s; s_qos := s_qos s; s_will := s_will s |}
  | AddUserProp k v =>
      {| s_vals := s_vals s; s_uprops := s_uprops s ++ [(k, v)]; s_subids := s_subids s;
         s_subid := s_subid s; s_filters := s_filters s; s_ufilters := s_ufilters s;
         s_rcodes := s_rcodes s; s_clean := s_clean s; s_present := s_present s;
         s_dup := s_dup s; s_retain := s_retain s; s_qos := s_qos s; s_will := s_will s |}
  end.

(* ---------------- observations: flags follow the values ---------------- *)
Definition nonempty (f : fld) (s : sp) : bool :=
  match valS (s_vals s f) with [] => false | _ => true end.

(* Connect.HasFlag for all eight bits, as a byte *)
Definition sp_connect_flags (s : sp) : N :=
  (if nonempty F_username s then 128 else 0) + (if nonempty F_password s then 64 else 0)
  + match s_will s with
    | Some w => 4 + (if wr_retain w then 32 else 0) + (if wr_qos w <? 3 then 8 * wr_qos w else 0)
    | None => 0
    end
  + (if s_clean s then 2 else 0).

Definition sN f s := ON (valN (s_vals s f)).
Definition sB f s := OB (valB (s_vals s f)).
Definition sS f s := OS (valS (s_vals s f)).

(* int(uint(v)): the identifier is kept as an unsigned 64-bit quantity *)
Definition wrap_int (z : Z) : Z :=
  let n := (z mod 18446744073709551616)%Z in
  if (n <? 9223372036854775808)%Z then n else (n - 18446744073709551616)%Z.

Definition sp_snapshot (k : kind) (s : sp) : list obs :=
  match k with
  | KConnect =>
    [ON (sp_connect_flags s); OB (s_clean s);
     sN F_protocolVersion s; sS F_protocolName s; sS F_clientID s; sN F_keepAlive s;
     sN F_sessionExpiryInterval s; sN F_receiveMax s; sN F_maxPacketSize s;
     sN F_topicAliasMax s; sB F_requestResponseInfo s; sB F_requestProblemInfo s;
     sS F_authMethod s; sS F_authData s; sS F_username s; sS F_password s;
     sN F_willDelayInterval s; oprops (s_uprops s);
     match s_will s with Some w => OL (wr_obs w) | None => OL [] end]
  | KConnAck =>
    [ON (if s_present s then 1 else 0); OB (s_present s);
     sN F_sessionExpiryInterval s; sN F_receiveMax s; sN F_maxQoS s;
     sB F_retainAvailable s; sN F_maxPacketSize s; sS F_assignedClientID s;
     sN F_topicAliasMax s; sN F_reasonCode s; sS F_reasonString s;
     sB F_wildcardSubAvailable s; sB F_subIdentifiersAvailable s;
     sB F_sharedSubAvailable s; sN F_serverKeepAlive s; sS F_responseInformation s;
     sS F_serverReference s; sS F_authMethod s; sS F_authData s; oprops (s_uprops s)]
  | KPublish =>
    [OB (s_dup s); OB (s_retain s); ON (s_qos s);
     sS F_topicName s; sN F_packetID s; sB F_payloadFormat s;
     sN F_messageExpiryInterval s; sN F_topicAlias s; sS F_responseTopic s;
     sS F_correlationData s; sS F_contentType s; sS F_payload s;
     OL (map ON (s_subids s)); oprops (s_uprops s)]
  | KPubAck | KPubRec | KPubRel | KPubComp =>
    [sN F_packetID s; sN F_reasonCode s; sS F_reasonString s; oprops (s_uprops s)]
  | KSubscribe =>
    [sN F_packetID s; OZ (match s_subid s with None => (-1)%Z | Some z => wrap_int z end);
     OL (map (fun f => OL [OS (fst f); ON (snd f)]) (s_filters s)); oprops (s_uprops s)]
  | KSubAck | KUnsubAck =>
    [sN F_packetID s; sS F_reasonString s; OL (map ON (s_rcodes s)); oprops (s_uprops s)]
  | KUnsubscribe =>
    [sN F_packetID s; OL (map OS (s_ufilters s)); oprops (s_uprops s)]
  | KPingReq | KPingResp => []
  | KDisconnect =>
    [sN F_reasonCode s; sN F_sessionExpiryInterval s; sS F_reasonString s; sS F_serverReference s;
     oprops (s_uprops s)]
  | KAuth =>
    [sN F_reasonCode s; sS F_reasonString s; sS F_authMethod s; sS F_authData s;
     oprops (s_uprops s)]
  | KUndefined => [sS F_data s]
  end.

Definition sp_run (k : kind) (cs : list call) : sp := fold_left (fun s c => sp_step c s) cs (sp_init k).
