(* MQTT v5.0 (OASIS standard, 7 March 2019) control packet format,
   transcribed from the specification text: sections 1.5 (data
   representation), 2.1 (fixed header), 2.2.2 (properties, table 2-4),
   3.1 - 3.15 (the fifteen packets). Independent of Model/: it imports
   only the byte type and list helpers, shares no constant, table or
   function with the library model, and is not regenerated from the Go
   source.

   [spec_decode] is a strict reader: it accepts a byte string iff it is
   exactly one structurally valid control packet, and returns what the
   frame carries. [spec_encode] writes an abstract frame; the order of
   the property list, the presence of zero-valued properties and the
   short forms are part of the abstract frame, so it is multi-valued in
   the sense that many abstract frames carry the same values.
   Not checked (not structural): UTF-8 well-formedness of strings, value
   ranges other than those named in section comments below. *)
From MQ Require Import Model.Bytes.
From Coq Require Import Lia.

(* ---------------- 1.5 data representation ---------------- *)
Inductive ptype := PTByte | PTTwo | PTFour | PTVar | PTStr | PTBin | PTPair.

Inductive pval :=
| VByte (n : N) | VTwo (n : N) | VFour (n : N) | VVar (n : N)
| VStr (s : list byte) | VBinary (s : list byte) | VPair (k v : list byte).

Record aprop := { ap_id : N; ap_val : pval }.

(* table 2-4: identifier -> type *)
Definition prop_type (id : N) : option ptype :=
  match id with
  | 1 => Some PTByte | 2 => Some PTFour | 3 => Some PTStr | 8 => Some PTStr | 9 => Some PTBin
  | 11 => Some PTVar | 17 => Some PTFour | 18 => Some PTStr | 19 => Some PTTwo | 21 => Some PTStr
  | 22 => Some PTBin | 23 => Some PTByte | 24 => Some PTFour | 25 => Some PTByte | 26 => Some PTStr
  | 28 => Some PTStr | 31 => Some PTStr | 33 => Some PTTwo | 34 => Some PTTwo | 35 => Some PTTwo
  | 36 => Some PTByte | 37 => Some PTByte | 38 => Some PTPair | 39 => Some PTFour
  | 40 => Some PTByte | 41 => Some PTByte | 42 => Some PTByte
  | _ => None
  end.

(* properties that are booleans carried in a byte: only 0 and 1 are valid
   (3.1.2.11.6/7, 3.2.2.3.5, 3.2.2.3.11-13, 3.3.2.3.2) *)
Definition is_bool_prop (id : N) : bool :=
  match id with 1 | 23 | 25 | 37 | 40 | 41 | 42 => true | _ => false end.

(* where a packet may carry which property; 100 stands for the will properties *)
Definition allowed (where_ : N) (id : N) : bool :=
  match where_ with
  | 1 => match id with 17 | 33 | 39 | 34 | 25 | 23 | 38 | 21 | 22 => true | _ => false end
  | 100 => match id with 24 | 1 | 2 | 3 | 8 | 9 | 38 => true | _ => false end
  | 2 => match id with 17 | 33 | 36 | 37 | 39 | 18 | 34 | 31 | 38 | 40 | 41 | 42 | 19 | 26 | 28 | 21 | 22 => true | _ => false end
  | 3 => match id with 1 | 2 | 35 | 8 | 9 | 38 | 11 | 3 => true | _ => false end
  | 4 | 5 | 6 | 7 | 9 | 11 => match id with 31 | 38 => true | _ => false end
  | 8 => match id with 11 | 38 => true | _ => false end
  | 10 => match id with 38 => true | _ => false end
  | 14 => match id with 17 | 31 | 38 | 28 => true | _ => false end
  | 15 => match id with 21 | 22 | 31 | 38 => true | _ => false end
  | _ => false
  end.

(* may appear more than once *)
Definition repeatable (where_ id : N) : bool :=
  (id =? 38) || ((id =? 11) && (where_ =? 3)).

(* ---------------- abstract frames ---------------- *)
Record awill := { w_props : list aprop; w_topic : list byte; w_payload : list byte }.

Inductive abody :=
| BConnect (flags keepalive : N) (props : list aprop) (clientid : list byte)
           (will : option awill) (user : option (list byte)) (pass : option (list byte))
| BConnack (ackflags reason : N) (props : list aprop)
| BPublish (topic : list byte) (pid : option N) (props : list aprop) (payload : list byte)
| BAck (pid : N) (form : N) (reason : N) (props : list aprop)
        (* form 2: packet id only; 3: + reason code; 4: + property length and properties *)
| BSubscribe (pid : N) (props : list aprop) (filters : list (list byte * N))
| BSuback (pid : N) (props : list aprop) (codes : list N)
| BUnsubscribe (pid : N) (props : list aprop) (filters : list (list byte))
| BPing
| BDisc (form : N) (reason : N) (props : list aprop)
        (* form 0: empty; 1: reason code only; 2: + property length and properties *)
.

Record aframe := { af_type : N; af_flags : N; af_body : abody }.

(* ---------------- encoder ---------------- *)
Definition e_u8 (n : N) : list byte := [n2b n].
Definition e_u16 (n : N) : list byte := [n2b (n / 256); n2b n].
Definition e_u32 (n : N) : list byte := [n2b (n / 16777216); n2b (n / 65536); n2b (n / 256); n2b n].
Definition e_str (s : list byte) : list byte := e_u16 (len s) ++ s.

(* 1.5.5: at most four bytes; callers stay below 268 435 456 *)
Fixpoint e_var_fuel (fuel : nat) (x : N) : list byte :=
  match fuel with
  | O => []
  | S f => if x <? 128 then [n2b x] else n2b (x mod 128 + 128) :: e_var_fuel f (x / 128)
  end.
Definition e_var (x : N) : list byte := e_var_fuel 4 x.

Definition e_pval (v : pval) : list byte :=
  match v with
  | VByte n => e_u8 n | VTwo n => e_u16 n | VFour n => e_u32 n | VVar n => e_var n
  | VStr s | VBinary s => e_str s
  | VPair k v => e_str k ++ e_str v
  end.

Definition e_prop (p : aprop) : list byte := n2b (ap_id p) :: e_pval (ap_val p).
Definition e_props_raw (ps : list aprop) : list byte := concat (map e_prop ps).
Definition e_props (ps : list aprop) : list byte :=
  let r := e_props_raw ps in e_var (len r) ++ r.

Definition mqtt_name : list byte := [x00; x04; x4d; x51; x54; x54].   (* 3.1.2.1 *)

Definition e_opt (o : option (list byte)) : list byte :=
  match o with Some s => e_str s | None => [] end.

Definition e_body (b : abody) : list byte :=
  match b with
  | BConnect flags ka props cid will user pass =>
      mqtt_name ++ e_u8 5 ++ e_u8 flags ++ e_u16 ka ++ e_props props ++ e_str cid ++
      (match will with
       | Some w => e_props (w_props w) ++ e_str (w_topic w) ++ e_str (w_payload w)
       | None => [] end) ++ e_opt user ++ e_opt pass
  | BConnack fl rc props => e_u8 fl ++ e_u8 rc ++ e_props props
  | BPublish topic pid props payload =>
      e_str topic ++ (match pid with Some i => e_u16 i | None => [] end) ++ e_props props ++ payload
  | BAck pid form rc props =>
      e_u16 pid ++ (if form =? 2 then [] else e_u8 rc ++ (if form =? 3 then [] else e_props props))
  | BSubscribe pid props fs =>
      e_u16 pid ++ e_props props ++ concat (map (fun f => e_str (fst f) ++ e_u8 (snd f)) fs)
  | BSuback pid props codes => e_u16 pid ++ e_props props ++ concat (map e_u8 codes)
  | BUnsubscribe pid props fs => e_u16 pid ++ e_props props ++ concat (map e_str fs)
  | BPing => []
  | BDisc form rc props =>
      if form =? 0 then [] else e_u8 rc ++ (if form =? 1 then [] else e_props props)
  end.

Definition spec_encode (f : aframe) : list byte :=
  let b := e_body (af_body f) in
  n2b (af_type f * 16 + af_flags f) :: e_var (len b) ++ b.

(* ---------------- strict decoder ---------------- *)
Definition parser (A : Type) := list byte -> option (A * list byte).

Definition p_u8 : parser N := fun d => match d with b :: r => Some (b2n b, r) | [] => None end.
Definition p_u16 : parser N := fun d =>
  match d with a :: b :: r => Some (b2n a * 256 + b2n b, r) | _ => None end.
Definition p_u32 : parser N := fun d =>
  match d with
  | a :: b :: c :: e :: r => Some (b2n a * 16777216 + b2n b * 65536 + b2n c * 256 + b2n e, r)
  | _ => None end.

(* n is compared as a binary number first: a declared length may be 2^28 *)
Definition take (n : N) (d : list byte) : option (list byte * list byte) :=
  if n <=? len d then Some (firstn (N.to_nat n) d, skipn (N.to_nat n) d) else None.

Definition p_str : parser (list byte) := fun d =>
  match p_u16 d with
  | Some (l, r) => take l r
  | None => None
  end.

(* 1.5.5: one to four bytes, and the encoding must be minimal [MQTT-1.5.5-1] *)
Definition p_var : parser N := fun d =>
  match d with
  | a :: r =>
    if b2n a <? 128 then Some (b2n a, r) else
    match r with
    | b :: r =>
      if b2n b <? 128 then (if b2n b =? 0 then None else Some (b2n a - 128 + 128 * b2n b, r)) else
      match r with
      | c :: r =>
        if b2n c <? 128 then (if b2n c =? 0 then None
                              else Some (b2n a - 128 + 128 * (b2n b - 128) + 16384 * b2n c, r)) else
        match r with
        | e :: r =>
          if b2n e <? 128 then (if b2n e =? 0 then None
                                else Some (b2n a - 128 + 128 * (b2n b - 128) + 16384 * (b2n c - 128)
                                           + 2097152 * b2n e, r))
          else None
        | [] => None
        end
      | [] => None
      end
    | [] => None
    end
  | [] => None
  end.

Definition p_pval (t : ptype) : parser pval := fun d =>
  match t with
  | PTByte => match p_u8 d with Some (n, r) => Some (VByte n, r) | None => None end
  | PTTwo => match p_u16 d with Some (n, r) => Some (VTwo n, r) | None => None end
  | PTFour => match p_u32 d with Some (n, r) => Some (VFour n, r) | None => None end
  | PTVar => match p_var d with Some (n, r) => Some (VVar n, r) | None => None end
  | PTStr => match p_str d with Some (s, r) => Some (VStr s, r) | None => None end
  | PTBin => match p_str d with Some (s, r) => Some (VBinary s, r) | None => None end
  | PTPair => match p_str d with
             | Some (k, r) => match p_str r with Some (v, r') => Some (VPair k v, r') | None => None end
             | None => None end
  end.

Fixpoint mem_id (id : N) (l : list aprop) : bool :=
  match l with [] => false | p :: l' => (ap_id p =? id) || mem_id id l' end.

(* the whole of d is a sequence of properties allowed at where_ *)
Fixpoint p_props_body (fuel : nat) (where_ : N) (acc : list aprop) (d : list byte)
  : option (list aprop) :=
  match fuel with
  | O => None
  | S fuel' =>
    match d with
    | [] => Some (rev acc)
    | b :: r =>
      let id := b2n b in
      if negb (allowed where_ id) then None else
      if mem_id id acc && negb (repeatable where_ id) then None else
      match prop_type id with
      | None => None
      | Some t =>
        match p_pval t r with
        | None => None
        | Some (v, r') =>
          let bad := match v with
                     | VByte n => is_bool_prop id && (1 <? n)
                     | VVar n => (id =? 11) && (n =? 0)      (* 3.3.2.3.8, 3.8.2.1.2 *)
                     | _ => false end in
          if bad then None else p_props_body fuel' where_ ({| ap_id := id; ap_val := v |} :: acc) r'
        end
      end
    end
  end.

Definition p_props (where_ : N) : parser (list aprop) := fun d =>
  match p_var d with
  | None => None
  | Some (l, r) =>
    match take l r with
    | None => None
    | Some (pd, r') =>
      match p_props_body (S (length pd)) where_ [] pd with
      | Some ps => Some (ps, r')
      | None => None
      end
    end
  end.

Definition bit (n k : N) : bool := N.testbit n k.

Fixpoint p_filters (fuel : nat) (d : list byte) : option (list (list byte * N)) :=
  match fuel with
  | O => None
  | S fuel' =>
    match d with
    | [] => Some []
    | _ =>
      match p_str d with
      | None => None
      | Some (f, r) =>
        match p_u8 r with
        | None => None
        | Some (o, r') =>
          (* 3.8.3.1: bits 6,7 reserved; QoS 3 and retain handling 3 are protocol errors *)
          if bit o 6 || bit o 7 || (o mod 4 =? 3) || ((o / 16) mod 4 =? 3) then None else
          match p_filters fuel' r' with
          | Some fs => Some ((f, o) :: fs)
          | None => None
          end
        end
      end
    end
  end.

Fixpoint p_strings (fuel : nat) (d : list byte) : option (list (list byte)) :=
  match fuel with
  | O => None
  | S fuel' =>
    match d with
    | [] => Some []
    | _ => match p_str d with
           | None => None
           | Some (f, r) => match p_strings fuel' r with Some fs => Some (f :: fs) | None => None end
           end
    end
  end.

Definition p_opt (present : bool) : parser (option (list byte)) := fun d =>
  if present then match p_str d with Some (s, r) => Some (Some s, r) | None => None end
  else Some (None, d).

Definition d_body (t fl : N) (d : list byte) : option abody :=
  match t with
  | 1 =>
    match take 6 d with
    | Some (name, r) =>
      if negb (bytes_eqb name mqtt_name) then None else
      match p_u8 r with
      | Some (5, r) =>
        match p_u8 r with
        | Some (flags, r) =>
          let willf := bit flags 2 in
          let wqos := (flags / 8) mod 4 in
          (* 3.1.2.3 reserved bit 0; 3.1.2.6 will QoS; 3.1.2.7 will retain *)
          if bit flags 0 || (wqos =? 3) || (negb willf && (negb (wqos =? 0) || bit flags 5)) then None else
          match p_u16 r with
          | Some (ka, r) =>
            match p_props 1 r with
            | Some (props, r) =>
              match p_str r with
              | Some (cid, r) =>
                match (if willf then
                         match p_props 100 r with
                         | Some (wp, r) =>
                           match p_str r with
                           | Some (wt, r) =>
                             match p_str r with
                             | Some (wpl, r) => Some (Some {| w_props := wp; w_topic := wt; w_payload := wpl |}, r)
                             | None => None end
                           | None => None end
                         | None => None end
                       else Some (None, r)) with
                | Some (will, r) =>
                  match p_opt (bit flags 7) r with
                  | Some (user, r) =>
                    match p_opt (bit flags 6) r with
                    | Some (pass, []) => Some (BConnect flags ka props cid will user pass)
                    | _ => None end
                  | None => None end
                | None => None end
              | None => None end
            | None => None end
          | None => None end
        | None => None end
      | _ => None end
    | None => None end
  | 2 =>
    match p_u8 d with
    | Some (af, r) =>
      if 1 <? af then None else
      match p_u8 r with
      | Some (rc, r) =>
        match p_props 2 r with
        | Some (props, []) => Some (BConnack af rc props)
        | _ => None end
      | None => None end
    | None => None end
  | 3 =>
    let q := (fl / 2) mod 4 in
    if q =? 3 then None else
    match p_str d with
    | Some (topic, r) =>
      match (if q =? 0 then Some (None, r)
             else match p_u16 r with Some (i, r) => Some (Some i, r) | None => None end) with
      | Some (pid, r) =>
        match p_props 3 r with
        | Some (props, payload) => Some (BPublish topic pid props payload)
        | None => None end
      | None => None end
    | None => None end
  | 4 | 5 | 6 | 7 =>
    match p_u16 d with
    | Some (pid, []) => Some (BAck pid 2 0 [])
    | Some (pid, r) =>
      match p_u8 r with
      | Some (rc, []) => Some (BAck pid 3 rc [])
      | Some (rc, r) =>
        match p_props t r with
        | Some (props, []) => Some (BAck pid 4 rc props)
        | _ => None end
      | None => None end
    | None => None end
  | 8 =>
    match p_u16 d with
    | Some (pid, r) =>
      match p_props 8 r with
      | Some (props, r) =>
        match p_filters (S (length r)) r with
        | Some (f :: fs) => Some (BSubscribe pid props (f :: fs))
        | _ => None end
      | None => None end
    | None => None end
  | 9 | 11 =>
    match p_u16 d with
    | Some (pid, r) =>
      match p_props t r with
      | Some (props, c :: cs) => Some (BSuback pid props (map b2n (c :: cs)))
      | _ => None end
    | None => None end
  | 10 =>
    match p_u16 d with
    | Some (pid, r) =>
      match p_props 10 r with
      | Some (props, r) =>
        match p_strings (S (length r)) r with
        | Some (f :: fs) => Some (BUnsubscribe pid props (f :: fs))
        | _ => None end
      | None => None end
    | None => None end
  | 12 | 13 => match d with [] => Some BPing | _ => None end
  | 14 | 15 =>
    match d with
    | [] => Some (BDisc 0 0 [])
    | _ =>
      match p_u8 d with
      | Some (rc, []) => if t =? 14 then Some (BDisc 1 rc []) else None   (* 3.15.2.1: AUTH has no 1-byte form *)
      | Some (rc, r) =>
        match p_props t r with
        | Some (props, []) => Some (BDisc 2 rc props)
        | _ => None end
      | None => None end
    end
  | _ => None
  end.

(* 2.1.3: flag bits of the fixed header *)
Definition flags_ok (t fl : N) : bool :=
  match t with
  | 3 => true
  | 6 | 8 | 10 => fl =? 2
  | 0 => false
  | _ => fl =? 0
  end.

Definition spec_decode (d : list byte) : option aframe :=
  match d with
  | b0 :: r =>
    let t := b2n b0 / 16 in
    let fl := b2n b0 mod 16 in
    if negb (flags_ok t fl) then None else
    match p_var r with
    | Some (rl, body) =>
      if negb (len body =? rl) then None else
      match d_body t fl body with
      | Some b => Some {| af_type := t; af_flags := fl; af_body := b |}
      | None => None
      end
    | None => None
    end
  | [] => None
  end.

(* ---------------- the field map of an encoded body (for C09) ---------------- *)
(* kinds: 0 single byte, 1 two-byte integer, 2 four-byte integer, 3 string or
   binary (prefix + body), 4 property length, 5 property (identifier + value),
   6 raw payload, 7 byte list without inner structure *)
Definition seg := (N * list byte)%type.

Definition s_props (ps : list aprop) : list seg :=
  (4, e_var (len (e_props_raw ps))) :: map (fun p => (5, e_prop p)) ps.

Definition s_opt (o : option (list byte)) : list seg :=
  match o with Some s => [(3, e_str s)] | None => [] end.

Definition body_segs (b : abody) : list seg :=
  match b with
  | BConnect flags ka props cid will user pass =>
      [(3, mqtt_name); (0, e_u8 5); (0, e_u8 flags); (1, e_u16 ka)] ++ s_props props ++ [(3, e_str cid)] ++
      (match will with
       | Some w => s_props (w_props w) ++ [(3, e_str (w_topic w)); (3, e_str (w_payload w))]
       | None => [] end) ++ s_opt user ++ s_opt pass
  | BConnack fl rc props => [(0, e_u8 fl); (0, e_u8 rc)] ++ s_props props
  | BPublish topic pid props payload =>
      [(3, e_str topic)] ++ (match pid with Some i => [(1, e_u16 i)] | None => [] end) ++
      s_props props ++ [(6, payload)]
  | BAck pid form rc props =>
      [(1, e_u16 pid)] ++ (if form =? 2 then [] else (0, e_u8 rc) :: (if form =? 3 then [] else s_props props))
  | BSubscribe pid props fs =>
      [(1, e_u16 pid)] ++ s_props props ++
      concat (map (fun f => [(3, e_str (fst f)); (0, e_u8 (snd f))]) fs)
  | BSuback pid props codes => [(1, e_u16 pid)] ++ s_props props ++ [(7, concat (map e_u8 codes))]
  | BUnsubscribe pid props fs => [(1, e_u16 pid)] ++ s_props props ++ map (fun f => (3, e_str f)) fs
  | BPing => []
  | BDisc form rc props =>
      if form =? 0 then [] else (0, e_u8 rc) :: (if form =? 1 then [] else s_props props)
  end.
