(* The values a frame carries, in the order of the library's accessors
   (Model.Api.snapshot), an absent property counting as the zero value.
   This is the only place where the specification meets the library's
   vocabulary. *)
From MQ Require Import Model.Api Spec.Mqtt5.
From Coq Require Import ZArith.

Fixpoint getp (id : N) (ps : list aprop) : option pval :=
  match ps with
  | [] => None
  | p :: ps' => if ap_id p =? id then Some (ap_val p) else getp id ps'
  end.

Definition pnum (id : N) (ps : list aprop) : obs :=
  ON (match getp id ps with
      | Some (VByte n) | Some (VTwo n) | Some (VFour n) | Some (VVar n) => n
      | _ => 0 end).
Definition pbool (id : N) (ps : list aprop) : obs :=
  OB (match getp id ps with Some (VByte n) => negb (n =? 0) | _ => false end).
Definition pstr (id : N) (ps : list aprop) : obs :=
  OS (match getp id ps with Some (VStr s) | Some (VBinary s) => s | _ => [] end).

Fixpoint ppairs (ps : list aprop) : list obs :=
  match ps with
  | [] => []
  | p :: ps' => match ap_val p with
                | VPair k v => OL [OS k; OS v] :: ppairs ps'
                | _ => ppairs ps' end
  end.
Fixpoint pvars (id : N) (ps : list aprop) : list obs :=
  match ps with
  | [] => []
  | p :: ps' => match ap_val p with
                | VVar n => if ap_id p =? id then ON n :: pvars id ps' else pvars id ps'
                | _ => pvars id ps' end
  end.

Definition opt_s (o : option (list byte)) : obs := OS (match o with Some s => s | None => [] end).

Definition frame_obs (f : aframe) : list obs :=
  match af_body f with
  | BConnect flags ka props cid will user pass =>
    [ON flags; OB (N.testbit flags 1); ON 5; OS [x4d; x51; x54; x54]; OS cid; ON ka;
     pnum 17 props; pnum 33 props; pnum 39 props; pnum 34 props; pbool 25 props; pbool 23 props;
     pstr 21 props; pstr 22 props; opt_s user; opt_s pass;
     match will with Some w => pnum 24 (w_props w) | None => ON 0 end;
     OL (ppairs props);
     match will with
     | Some w =>
       let wp := w_props w in
       OL [OB false; OB (N.testbit flags 5); ON ((flags / 8) mod 4); OS (w_topic w); ON 0;
           pbool 1 wp; pnum 2 wp; ON 0; pstr 8 wp; pstr 9 wp; pstr 3 wp; OS (w_payload w);
           OL []; OL (ppairs wp)]
     | None => OL []
     end]
  | BConnack fl rc props =>
    [ON fl; OB (N.testbit fl 0); pnum 17 props; pnum 33 props; pnum 36 props; pbool 37 props;
     pnum 39 props; pstr 18 props; pnum 34 props; ON rc; pstr 31 props; pbool 40 props;
     pbool 41 props; pbool 42 props; pnum 19 props; pstr 26 props; pstr 28 props;
     pstr 21 props; pstr 22 props; OL (ppairs props)]
  | BPublish topic pid props payload =>
    let fl := af_flags f in
    [OB (N.testbit fl 3); OB (N.testbit fl 0); ON ((fl / 2) mod 4); OS topic;
     ON (match pid with Some i => i | None => 0 end); pbool 1 props; pnum 2 props; pnum 35 props;
     pstr 8 props; pstr 9 props; pstr 3 props; OS payload; OL (pvars 11 props); OL (ppairs props)]
  | BAck pid _ rc props => [ON pid; ON rc; pstr 31 props; OL (ppairs props)]
  | BSubscribe pid props fs =>
    [ON pid; OZ (match getp 11 props with Some (VVar n) => Z.of_N n | _ => (-1)%Z end);
     OL (map (fun f => OL [OS (fst f); ON (snd f)]) fs); OL (ppairs props)]
  | BSuback pid props codes => [ON pid; pstr 31 props; OL (map ON codes); OL (ppairs props)]
  | BUnsubscribe pid props fs => [ON pid; OL (map OS fs); OL (ppairs props)]
  | BPing => []
  | BDisc _ rc props =>
    if af_type f =? 14 then [ON rc; pnum 17 props; pstr 31 props; pstr 28 props; OL (ppairs props)]
    else [ON rc; pstr 31 props; pstr 21 props; pstr 22 props; OL (ppairs props)]
  end.
