(* C13 - Read-only operations on a shared packet are safe to run concurrently (partial). *)
From MQ Require Import Model.Conc Proofs.ConcP Model.Render.
From Coq Require Import List. Import ListNotations.

(* What is proved: on a shared-memory machine without synchronisation
   (Model/Conc.v: atomic reads/writes, any schedule as a list of thread
   ids), any number of threads whose programs never write a shared
   location - whatever they read - do not race under ANY schedule, leave
   the memory as it was, and each finished thread has the output it
   computes alone on the initial memory. *)
Theorem C13_schedules : forall (loc val out : Type) (loc_eqb : loc -> loc -> bool)
    (progs : list (prog loc val out)) (m0 : loc -> val) (sched : list nat),
  Forall (read_only loc val out) progs ->
  let s := run loc val out loc_eqb sched {| threads := progs; mem := m0; trace := [] |} in
  race_free loc loc_eqb (trace loc val out s)
  /\ mem loc val out s = m0
  /\ forall t o, nth_error (threads loc val out s) t = Some (Done loc val out o) ->
       exists p0 fuel, nth_error progs t = Some p0 /\ alone loc val out fuel m0 p0 = Some o.
Proof. exact read_only_schedules. Qed.
Print Assumptions C13_schedules.

(* The premise for the read-only API: in the model WriteTo, String, Dump,
   WellFormed and the accessors are functions of the packet value (C11);
   that the Go methods likewise store nothing into the packet, a package
   variable or memory reachable from their arguments is NOT proved here.
   It is decided on the implementation: the harness built with the Go race
   detector runs 8 goroutines of random read-only operation mixes on
   shared packets of every type (including a will message shared between
   a CONNECT and direct use) and ReadPacket on distinct streams, and
   compares every goroutine's bytes with the sequential ones. The Go
   memory model, the runtime and the standard library are outside the
   model. *)
