(* C13 - Read-only operations on a shared packet are safe to run concurrently (partial). *)
From MQ Require Import Model.Conc Proofs.ConcP Model.Render Model.Fill Proofs.FillP Model.ReadOnlyApi gen.GenEffects gen.SyncEffects.
From Coq Require Import String.
From Coq Require Import List. Import ListNotations.

(* What is proved: on a shared-memory machine without synchronisation
   (Model/Conc.v: atomic reads/writes, any schedule as a list of thread
   ids), any number of threads whose programs never write a shared
   location - whatever they read - do not race under ANY schedule, leave
   the memory as it was, and each finished thread has the output it
   computes alone on the initial memory. *)
Theorem C13_schedules : forall (loc val out : Type) (loc_eqb : loc -> loc -> bool)
    (progs : list (prog loc val out)) (m0 : loc -> val) (sched : list nat),
  Forall (read_only loc val out) progs ->
  let s := run loc val out loc_eqb sched {| threads := progs; mem := m0; trace := [] |} in
  race_free loc loc_eqb (trace loc val out s)
  /\ mem loc val out s = m0
  /\ forall t o, nth_error (threads loc val out s) t = Some (Done loc val out o) ->
       exists p0 fuel, nth_error progs t = Some p0 /\ alone loc val out fuel m0 p0 = Some o.
Proof. exact read_only_schedules. Qed.
Print Assumptions C13_schedules.

(* The premise for the read-only API, decided on the source on every run by
   the write-set analysis of tools/gosync (effects.go): for every method of
   the read-only API (Model/ReadOnlyApi.v: WriteTo, String, dump, WellFormed,
   Error, the accessors, fill, width of every exported type - 188 methods)
   it follows every path, in-package call, closure and interface dispatch
   and lists the memory the method may write that the call did not allocate
   itself - the receiver and what it points to, package-level variables,
   parameters (the writer handed to WriteTo/dump is the caller's own) - and
   goroutines, channel operations and calls it cannot resolve.  The list
   regenerated from the current source is empty, and no function of the
   package at all writes a package-level variable or keeps state in a pool,
   cache or goroutine.  So the Go methods are threads of the shape
   C13_schedules quantifies over.  The analysis is flow-insensitive and
   over-approximates aliasing (trusted, see DESIGN.md section 5). *)
Theorem C13_api_writes_nothing :
  g_readonly_effects = [] /\ g_global_effects = [] /\
  forallb (fun m => existsb (String.eqb m) g_readonly_methods) readonly_api = true.
Proof. exact (conj sync_readonly_effects (conj sync_no_global_state sync_readonly_methods)). Qed.
Print Assumptions C13_api_writes_nothing.

(* The one package-level variable the encoders are handed is the nil slice
   _LEN (the dry run `p.fill(_LEN, 0)` of width(), String() and WriteTo): the
   analysis treats a slice variable that is never assigned as aliasing no
   memory.  In the positional model that is a theorem: run on the empty
   buffer from any position, every packet's fill returns the empty buffer -
   no guarded write fires - so concurrent dry runs share nothing they write. *)
Theorem C13_dry_run_writes_nothing : forall k p i buf' n,
  pfill_pkt k p [] i = Some (buf', n) -> buf' = [].
Proof.
  intros k p i buf' n H. pose proof (pfill_pkt_ok k p [] i) as A. rewrite H in A.
  destruct (encode_pkt k p) as [bs|]; cbn [agrees] in A; [|discriminate A].
  destruct A as (b & E & Hl & _). injection E as E1 _. subst b. destruct buf'; [reflexivity|discriminate Hl].
Qed.
Print Assumptions C13_dry_run_writes_nothing.

(* Not proved: the Go memory model, the runtime and the standard library
   (fmt, io) are outside the model; the harness built with the Go race
   detector runs 8 goroutines of random read-only operation mixes on shared
   packets of every type (including a will message shared between a CONNECT
   and direct use) and ReadPacket on distinct streams, and compares every
   goroutine's bytes with the sequential ones. *)
