(* C17 - WellFormed decides exactly the documented rules and String agrees with it. *)
From MQ Require Import Model.Render Proofs.BytesP Proofs.WfP Proofs.RenderP.
From Coq Require Import Strings.String. From Coq Require Import List. Import ListNotations. Open Scope N_scope.

(* for every packet value, built or decoded *)
Theorem C17_publish : forall p,
  wellformed KPublish p <> None <->
  (getS (M F_topicName) p = [] /\ getN (M F_topicAlias) p = 0)
  \/ ((qos p = 1 \/ qos p = 2) /\ getN (M F_packetID) p = 0)
  \/ qos p = 3.
Proof. exact wf_publish_iff. Qed.
Print Assumptions C17_publish.

Theorem C17_filter : forall f, wf_filter f <> None <-> fst f = [] \/ N.land (snd f) 3 = 3.
Proof. exact wf_filter_iff. Qed.
Print Assumptions C17_filter.

Theorem C17_subscribe : forall p,
  wellformed KSubscribe p <> None <->
  filters p = [] \/ (exists v, subid p = Some v /\ 268435455 < v)
  \/ Exists (fun f => wf_filter f <> None) (filters p).
Proof. exact wf_subscribe_iff. Qed.
Print Assumptions C17_subscribe.

(* String() ends with ", malformed! <reason>" exactly when WellFormed reports an error *)
Theorem C17_string : forall k p ts, has_wellformed k = true ->
  string_toks k p = Some ts -> (malformed_suffix ts <-> wellformed k p <> None).
Proof. exact string_malformed_iff. Qed.
Print Assumptions C17_string.

Example C17_alias_only :
  wellformed KPublish (run_calls KPublish [SetTopicAlias 3]) = None
  /\ wellformed KPublish (run_calls KPublish [SetQoS 1; SetTopicName [x74]]) = Some WFPacketID
  /\ wellformed KSubscribe (run_calls KSubscribe [AddFilter [x61] 3]) = Some WFFilterQoS.
Proof. vm_compute. repeat split. Qed.
