(* C17 - WellFormed decides exactly the documented rules and String agrees with it. *)
From MQ Require Import Model.Render Proofs.BytesP Proofs.WfP Proofs.RenderP Model.StringIR Proofs.StringP gen.GenString gen.SyncString Model.WfIR Proofs.WfIRP gen.GenWf gen.SyncWf.
From Coq Require Import Strings.String. From Coq Require Import List. Import ListNotations. Open Scope N_scope.

(* for every packet value, built or decoded *)
Theorem C17_publish : forall p,
  wellformed KPublish p <> None <->
  (getS (M F_topicName) p = [] /\ getN (M F_topicAlias) p = 0)
  \/ ((qos p = 1 \/ qos p = 2) /\ getN (M F_packetID) p = 0)
  \/ qos p = 3.
Proof. exact wf_publish_iff. Qed.
Print Assumptions C17_publish.

Theorem C17_filter : forall f, wf_filter f <> None <-> fst f = [] \/ N.land (snd f) 3 = 3.
Proof. exact wf_filter_iff. Qed.
Print Assumptions C17_filter.

Theorem C17_subscribe : forall p,
  wellformed KSubscribe p <> None <->
  filters p = [] \/ (exists v, subid p = Some v /\ 268435455 < v)
  \/ Exists (fun f => wf_filter f <> None) (filters p).
Proof. exact wf_subscribe_iff. Qed.
Print Assumptions C17_subscribe.

(* String() ends with ", malformed! <reason>" exactly when WellFormed reports an error *)
Theorem C17_string : forall k p ts, has_wellformed k = true ->
  string_toks k p = Some ts -> (malformed_suffix ts <-> wellformed k p <> None).
Proof. exact string_malformed_iff. Qed.
Print Assumptions C17_string.

Example C17_alias_only :
  wellformed KPublish (run_calls KPublish [SetTopicAlias 3]) = None
  /\ wellformed KPublish (run_calls KPublish [SetQoS 1; SetTopicName [x74]]) = Some WFPacketID
  /\ wellformed KSubscribe (run_calls KSubscribe [AddFilter [x61] 3]) = Some WFFilterQoS.
Proof. vm_compute. repeat split. Qed.

(* string_toks is the String method of the source for the fourteen packet
   types whose String is `return [withForm(p, | withReason(p, ]
   fmt.Sprintf(format, args...) [)]`: tools/gosync (acc.go) translates the
   format string and each argument (first byte, flag renderings, fields,
   accessors, the keep-alive duration, the size from the dry run, the reason
   code's name, the filter text) into an item list; the regenerated lists are
   those of Model/StringIR.v (gen/SyncString.v) and their interpretation is
   string_toks (PUBLISH, which builds its topic text first, and Undefined
   remain hand-modelled and fingerprinted). *)
Theorem C17_string_is_the_source : forall k p, string_ir k <> None ->
  run_string_of k p = string_toks k p.
Proof. exact run_string_is_string_toks. Qed.
Print Assumptions C17_string_is_the_source.

(* wf_publish, wf_subscribe and wf_filter - the functions the theorems above
   are about - are the three WellFormed methods of the source: tools/gosync
   translates their statements (`if c { return newMalformed(p, ref, reason) }`,
   the `switch p.QoS()`, the loop over the filters) into statement lists, the
   regenerated lists are those of Model/WfIR.v, and their interpretation
   returns exactly the model's verdict, error for error; the text String()
   appends is "<reason> <ref>". *)
Theorem C17_wellformed_is_the_source :
  g_wf_Publish = wf_publish_ir /\ g_wf_Subscribe = wf_subscribe_ir /\ g_wf_TopicFilter = wf_filter_ir /\
  (forall p, run_wf wf_filter_ir wf_publish_ir p = option_map wferr_pair (wf_publish p)) /\
  (forall p, run_wf wf_filter_ir wf_subscribe_ir p = option_map wferr_pair (wf_subscribe p)) /\
  (forall f, run_filter_prog wf_filter_ir f = option_map wferr_pair (wf_filter f)).
Proof.
  exact (conj sync_wf_Publish (conj sync_wf_Subscribe (conj sync_wf_TopicFilter
        (conj wf_publish_is_ir (conj wf_subscribe_is_ir wf_filter_is_ir))))).
Qed.
Print Assumptions C17_wellformed_is_the_source.
