(* C12 - Setters and accessors obey last-write-wins and keep derived flags in step. *)
From MQ Require Import Model.Codec Model.Api Model.Stream Spec.Fields Proofs.BytesP Proofs.SetterP Proofs.StreamP
     Proofs.RoundP Proofs.DomP Properties.C01 Model.AccIR Proofs.AnyStateP.
From Coq Require Import String.
From Coq Require Import List. Import ListNotations. Open Scope N_scope.

(* Spec/Fields.v is a record of plain fields: every setter stores its
   argument in the field it names and touches nothing else, adders
   append, and the flag bytes are not state but functions of the stored
   values (sp_connect_flags: user-name/password flag set exactly when the
   value is non-empty; will flag, will QoS and will retain mirror the
   message passed to SetWill; clean start and session present equal the
   last value set; PUBLISH DUP, QoS, RETAIN are three independent fields).
   After ANY finite sequence of setter calls that exist for the packet
   type - any order, repeats, values set back to zero/empty/false -
   every accessor of the implementation model returns what the
   record-of-fields returns. Quantified over all histories; the prefix
   closure gives "after every step". *)
Theorem C12_refines : forall k h, Forall (fun c => applicable k c = true) h ->
  snapshot k (run_calls k h) = sp_snapshot k (sp_run k h).
Proof. exact refines. Qed.
Print Assumptions C12_refines.

(* "The encoded frame reflects the same final state": for histories inside
   the round-trip domain (arguments within MQTT's limits, the two
   cross-field conditions of C01_api) WriteTo's frame, read by ReadPacket
   under any delivery, yields a packet whose accessors return the
   record-of-fields values - i.e. for each field the value most recently
   set. (C01_api composed with C12_refines.) *)
Theorem C12_frame_reflects : forall k h, k <> KUndefined ->
  Forall (fun c => applicable k c = true) h -> Forall call_ok h ->
  let p := run_calls k h in
  cross_ok k p -> remaining_ok k p ->
  exists bs p',
    encode_pkt k p = Some bs
    /\ (forall s rest, sbytes s = bs ++ rest -> avail (len bs) s = true ->
         exists tr, read_packet s =
           RP {| r_pkt := Some (k, p'); r_err := None; r_rest := sdrop (len bs) s;
                 r_trace := tr; r_got := bs |})
    /\ snapshot k p' = sp_snapshot k (sp_run k h).
Proof.
  intros k h Hk Ha Ho p Hc Hs.
  destruct (C01_api k h Hk Ha Ho Hc Hs) as [bs [p' [E [R [S _]]]]].
  exists bs, p'. split; [exact E|]. split; [exact R|]. rewrite S. apply C12_refines. exact Ha.
Qed.
Print Assumptions C12_frame_reflects.

(* one step of the simulation, for any related states (not only reachable ones) *)
Theorem C12_step : forall k c p s, applicable k c = true -> Rel k p s -> Rel k (step c p) (sp_step c s).
Proof. exact Rel_step. Qed.
Print Assumptions C12_step.

(* the bit-level facts behind it: the three PUBLISH flag groups do not disturb one another *)
Theorem C12_publish_bits : forall d q r b v, q <= 3 ->
  toggle (pf d q r) DUP b = pf b q r /\ toggle (pf d q r) RETAIN b = pf d q b
  /\ setqos (pf d q r) v = pf d (norm_qos v) r
  /\ has (pf d q r) DUP = d /\ has (pf d q r) RETAIN = r /\ qos_of_fixed (pf d q r) = q.
Proof.
  intros d q r b v H. destruct (pf_obs d q r H) as [A [B C]].
  repeat split; auto using pf_dup, pf_retain, pf_qos.
Qed.
Print Assumptions C12_publish_bits.

(* "After any sequence of setter calls on a packet": the packet need not come
   from a constructor.  On ANY packet value - e.g. one read from the wire
   whose flags and fields no sequence of setters produces together - one
   setter call (a) leaves every accessor it does not name unchanged
   (touched c: the accessor of its field; the flag-derived accessors for the
   calls that toggle a flag byte), (b) makes the accessor of its field return
   the argument, and (c) sets CONNECT's user-name / password flag exactly when
   the value is non-empty, clean start, session present, DUP and RETAIN to the
   value given - whatever the flag byte held before.  Accessors are named as
   in the source (Model/AccIR.v, gen/SyncAcc.v). *)
Theorem C12_any_state_frame : forall k c p name, applicable k c = true ->
  In name (snapshot_names k) -> ~ In name (touched c) ->
  eval_named name (step c p) = eval_named name p.
Proof. exact setter_frame. Qed.
Print Assumptions C12_any_state_frame.

Theorem C12_any_state_reads_back : forall k c p acc v, applicable k c = true ->
  reads_back c = Some (acc, v) ->
  eval_named (tname k ++ "." ++ acc)%string (step c p) = v.
Proof. exact setter_reads_back. Qed.
Print Assumptions C12_any_state_reads_back.

Theorem C12_any_state_flags : forall p,
  (forall s, eval_named "Connect.HasFlag" (step (SetUsername s) p) =
             ON (toggle (getN (M F_flags) p) UsernameFlag (nonempty s))
             /\ has (toggle (getN (M F_flags) p) UsernameFlag (nonempty s)) UsernameFlag = nonempty s) /\
  (forall s, eval_named "Connect.HasFlag" (step (SetPassword s) p) =
             ON (toggle (getN (M F_flags) p) PasswordFlag (nonempty s))
             /\ has (toggle (getN (M F_flags) p) PasswordFlag (nonempty s)) PasswordFlag = nonempty s) /\
  (forall b, eval_named "Connect.CleanStart" (step (SetCleanStart b) p) = OB b) /\
  (forall b, eval_named "ConnAck.SessionPresent" (step (SetSessionPresent b) p) = OB b) /\
  (forall b, eval_named "Publish.Duplicate" (step (SetDuplicate b) p) = OB b) /\
  (forall b, eval_named "Publish.Retain" (step (SetRetain b) p) = OB b).
Proof. exact flags_follow_any_state. Qed.
Print Assumptions C12_any_state_flags.

Example C12_any_state_example :
  (* a CONNECT as it may come off the wire: user-name flag set, user name empty *)
  let p := setf (M F_flags) (VN 128) (ctor KConnect) in
  eval_named "Connect.HasFlag" (step (SetUsername []) p) = ON 0
  /\ eval_named "Connect.Username" (step (SetClientID [x63]) p) = eval_named "Connect.Username" p.
Proof. vm_compute. split; reflexivity. Qed.

(* non-vacuity: the history that the pinned tree got wrong, and one with a will *)
Example C12_examples :
  snapshot KConnAck (run_calls KConnAck [SetSessionPresent true; SetSessionPresent false])
    = sp_snapshot KConnAck (sp_run KConnAck [SetSessionPresent true; SetSessionPresent false])
  /\ nth 0 (snapshot KConnect (run_calls KConnect
        [SetUsername [x75]; SetWill (run_calls KPublish [SetQoS 2; SetRetain true]); SetUsername []])) (ON 0)
     = ON 52.
Proof. split; vm_compute; reflexivity. Qed.
