(* C08 - A stream that ends or fails inside a packet is reported, never papered over. *)
From MQ Require Import Model.Stream Proofs.BytesP Proofs.VbP Proofs.StreamP Proofs.ReadP Proofs.FaultP.

(* Readers that fail: [failing p e tail] delivers the chunks of p - no
   error reported, except possibly e together with the last bytes
   (quietlast) - and from then on every Read returns (0, e): the two
   legal ways of reporting a failure, and io.EOF as the case e = EEOF. *)

(* ReadPacket returns a packet and no error, or an error and no packet. *)
Theorem C08_exactly_one : forall s, exists r, read_packet s = RP r /\
  ((r_pkt r <> None /\ r_err r = None) \/ (r_pkt r = None /\ r_err r <> None)).
Proof. exact read_packet_total. Qed.
Print Assumptions C08_exactly_one.

(* io.ReadFull on a reader that fails after fewer bytes than requested
   returns the delivered bytes and the reader's error (io.EOF after a
   partial read becomes io.ErrUnexpectedEOF): no short count is ever
   taken for a full one. *)
Theorem C08_read_full_short : forall p e tail need,
  quietlast p e = true -> len (sbytes p) < need ->
  exists rest tr, read_full need (failing p e tail) =
                  Some (sbytes p, Some (full_err e (sbytes p)), rest, tr).
Proof. exact read_full_short. Qed.
Print Assumptions C08_read_full_short.

(* The stream ends or fails exactly on a frame boundary: nil packet and
   the reader's error; for the end of stream that is io.EOF. *)
Theorem C08_cut_at_boundary : forall p e tail, quietlast p e = true -> sbytes p = [] ->
  exists r, read_packet (failing p e tail) = RP r /\ r_pkt r = None /\
            r_err r = Some (full_err e []) /\ r_got r = [].
Proof. exact read_packet_cut_0. Qed.
Print Assumptions C08_cut_at_boundary.

(* The header arrives (any delivery) and the stream ends or fails after
   any proper prefix of the body: nil packet, the reader's error. *)
Theorem C08_cut_in_body : forall b0 hdr got s p e tail,
  wf_vb hdr = true -> vb_value hdr <> 0 ->
  sbytes s = b0 :: hdr ++ got -> avail (1 + len hdr) s = true ->
  sdrop (1 + len hdr) s = failing p e tail -> quietlast p e = true ->
  len (sbytes p) < vb_value hdr ->
  exists r, read_packet s = RP r /\ r_pkt r = None /\
            r_err r = Some (full_err e (sbytes p)) /\ r_got r = b0 :: hdr ++ sbytes p.
Proof. exact read_packet_cut_body. Qed.
Print Assumptions C08_cut_in_body.

(* errors.Is(err, E) for a transport error E; errors.Is(err, io.EOF) when
   nothing was delivered *)
Theorem C08_error_identity : forall e got,
  (forall t, e = EReader t -> errors_is (full_err e got) e = true) /\
  (e = EEOF -> got = [] -> errors_is (full_err e got) EEOF = true).
Proof. exact full_err_is. Qed.
Print Assumptions C08_error_identity.

(* The first byte arrives and the stream ends or fails inside the
   remaining-length field: after 0 to 3 continuation bytes (any delivery of
   those bytes). Nil packet, the reader's error (io.EOF stays io.EOF:
   vbint.ReadFrom asks for one byte at a time). Together with
   C08_cut_at_boundary and C08_cut_in_body this covers every proper prefix
   of a frame. *)
Theorem C08_cut_in_header : forall b0 cs rest s p e tail,
  forallb cont cs = true -> (length cs <= 3)%nat ->
  sbytes s = b0 :: cs ++ rest -> avail (1 + len cs) s = true ->
  sdrop (1 + len cs) s = failing p e tail -> quietlast p e = true -> sbytes p = [] ->
  exists r, read_packet s = RP r /\ r_pkt r = None /\
            r_err r = Some (full_err e []) /\ r_got r = b0 :: cs.
Proof. exact read_packet_cut_header. Qed.
Print Assumptions C08_cut_in_header.

(* a packet is returned only if every byte of its frame was delivered:
   the bytes obtained from the reader are a whole frame *)
Theorem C08_packet_needs_frame : forall s r,
  read_packet s = RP r -> r_pkt r <> None ->
  exists b0 hdr body, r_got r = b0 :: hdr ++ body /\ wf_vb hdr = true /\ len body = vb_value hdr.
Proof. exact read_packet_got_frame. Qed.
Print Assumptions C08_packet_needs_frame.

Example C08_example :
  (* 30 05 00 01 74 aa bb cut after 4 bytes, then a transport error 7 *)
  exists r, read_packet (failing [Chunk [x30; x05] None; Chunk [x00; x01] None] (EReader 7) []) = RP r
            /\ r_pkt r = None /\ r_err r = Some (EReader 7).
Proof. eexists. split; [vm_compute; reflexivity|]. split; reflexivity. Qed.
