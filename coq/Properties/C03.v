(* C03 - Every valid MQTT v5.0 frame is accepted and decoded to the values it carries. *)
From MQ Require Import Model.Stream Model.Api Proofs.BytesP Proofs.VbP Proofs.WireP Proofs.StreamP Proofs.SpecP
     Proofs.SpecWireP Proofs.AcceptP Proofs.RoundP Proofs.PropsP Proofs.SpecRoundP Proofs.SpecUniqP Spec.Mqtt5 Spec.Glue.
From Coq Require Import Lia.

(* The statement in full (since the repair of D13 - DISCONNECT carrying
   Session Expiry Interval, Reason String or Server Reference used to be
   rejected, the type now has fields and accessors for them - no valid frame
   is excepted): for every abstract frame of the specification
   (Spec/Mqtt5.v: any of the fifteen types, the properties table 2-4 allows
   for the packet in any order, once-only identifiers at most once, values
   within their type, every legal short form, explicit zero values, empty
   strings, strings up to 65 535 bytes, property lengths of any size below
   the limit) - [frame_ok], in the specification's own vocabulary - the
   bytes the specification's encoder writes are read by ReadPacket, under
   any delivery and followed by anything, without error, as a packet of the
   matching type whose accessors are exactly the specification's reading of
   the frame ([frame_obs], an absent property counting as zero).
   No bound on the number of properties, filters or reason codes. *)
Theorem C03_valid_frames : forall f, frame_ok f -> len (e_body (af_body f)) < 268435456 ->
  exists k p,
    kind_nibble k = af_type f /\ snapshot k p = frame_obs f
    /\ forall s rest, sbytes s = spec_encode f ++ rest -> avail (len (spec_encode f)) s = true ->
        exists tr, read_packet s =
          RP {| r_pkt := Some (k, p); r_err := None; r_rest := sdrop (len (spec_encode f)) s;
                r_trace := tr; r_got := spec_encode f |}.
Proof.
  intros f Hok Hl. destruct (accepts_all f Hok) as [k [p [Hd [Hk Hs]]]].
  exists k, p. split; [exact Hk|]. split; [exact Hs|].
  intros s rest Hsb Hav. unfold spec_encode in *. cbv zeta in *.
  rewrite (e_var_enc_vb _ Hl) in *. destruct (enc_vb_wf _ Hl) as [W V].
  apply (read_packet_frame _ (enc_vb (len (e_body (af_body f)))) (e_body (af_body f)) rest s); try assumption.
  - symmetry. exact V.
  - rewrite Hsb. cbn [app]. rewrite <- app_assoc. reflexivity.
Qed.
Print Assumptions C03_valid_frames.

(* the frames of the theorem are what the specification's strict decoder
   accepts: for every abstract frame valid in the specification's own terms
   ([sframe_ok], Proofs/SpecRoundP.v - it adds to [frame_ok] only checks the
   library does not need: non-empty filter and reason-code lists,
   subscription-option bits, CONNECT's reserved and will bits), the decoder returns exactly that frame from
   the encoder's bytes *)
Theorem C03_spec_consistent : forall f, sframe_ok f -> spec_decode (spec_encode f) = Some f.
Proof. exact spec_roundtrip. Qed.
Print Assumptions C03_spec_consistent.

(* ... and nothing else: the strict decoder accepts a byte string exactly
   when it is the encoding of a valid abstract frame. So "structurally
   valid MQTT v5.0 control packet" (acceptance by the strict decoder) and
   "encoding of a valid abstract frame" are the same set of byte strings. *)
Theorem C03_spec_language : forall d f, spec_decode d = Some f <-> (d = spec_encode f /\ sframe_ok f).
Proof. exact spec_language. Qed.
Print Assumptions C03_spec_language.

(* The property over byte sequences: every byte string the strict decoder
   of the specification accepts is read by ReadPacket,
   under any delivery and whatever follows it on the stream, without error,
   as a packet of the matching type whose accessors are the specification's
   reading of those bytes. *)
Theorem C03_every_valid_frame : forall d f, spec_decode d = Some f ->
  exists k p,
    kind_nibble k = af_type f /\ snapshot k p = frame_obs f
    /\ forall s rest, sbytes s = d ++ rest -> avail (len d) s = true ->
        exists tr, read_packet s =
          RP {| r_pkt := Some (k, p); r_err := None; r_rest := sdrop (len d) s; r_trace := tr; r_got := d |}.
Proof.
  intros d f Hd. destruct (spec_decode_inv d f Hd) as [-> Hok].
  apply C03_valid_frames; [apply sframe_frame_ok; exact Hok|exact (proj2 Hok)].
Qed.
Print Assumptions C03_every_valid_frame.

(* the hypothesis is inhabited, and such frames are what the specification's
   strict decoder accepts: a CONNACK with properties out of table order and an
   explicit zero, a PUBLISH with two subscription identifiers, an empty AUTH *)
Ltac sprop := unfold sprop_ok; cbn [ap_id ap_val pval_type pval_ok pnumval];
  repeat split; try reflexivity; try discriminate; try (intros; discriminate); try (apply N.ltb_lt; reflexivity).
Ltac nodup := vm_compute; repeat (apply NoDup_cons; [intros H; cbn in H; intuition discriminate|]); apply NoDup_nil.

Example C03_frames_inhabited :
  let f1 := {| af_type := 2; af_flags := 0;
               af_body := BConnack 1 0 [ {| ap_id := 38; ap_val := VPair [x61] [x62] |};
                                         {| ap_id := 36; ap_val := VByte 0 |};
                                         {| ap_id := 17; ap_val := VFour 7 |} ] |} in
  let f2 := {| af_type := 3; af_flags := 2;
               af_body := BPublish [x74] (Some 9) [ {| ap_id := 11; ap_val := VVar 5 |};
                                                    {| ap_id := 11; ap_val := VVar 300 |} ] [x70] |} in
  let f3 := {| af_type := 15; af_flags := 0; af_body := BDisc 0 0 [] |} in
  (frame_ok f1 /\ spec_decode (spec_encode f1) = Some f1)
  /\ (frame_ok f2 /\ spec_decode (spec_encode f2) = Some f2)
  /\ (frame_ok f3 /\ spec_decode (spec_encode f3) = Some f3).
Proof.
  cbv zeta. split; [|split]; (split; [|vm_compute; reflexivity]); unfold frame_ok; cbn [af_type af_flags af_body].
  - split; [reflexivity|]. split; [reflexivity|]. split; [apply N.leb_le; reflexivity|].
    split; [apply N.ltb_lt; reflexivity|]. split; [|apply N.ltb_lt; vm_compute; reflexivity].
    split; [repeat (apply Forall_cons; [sprop|]); apply Forall_nil|nodup].
  - split; [reflexivity|]. split; [apply N.ltb_lt; reflexivity|]. split; [vm_compute; discriminate|].
    split; [apply N.ltb_lt; reflexivity|]. split; [split; [apply N.ltb_lt; reflexivity|vm_compute; discriminate]|].
    split; [|apply N.ltb_lt; vm_compute; reflexivity].
    split; [repeat (apply Forall_cons; [sprop|]); apply Forall_nil|nodup].
  - split; [right; reflexivity|]. split; [reflexivity|]. split; [apply N.ltb_lt; reflexivity|].
    split; reflexivity.
Qed.

(* PUBACK/PUBREC/PUBREL/PUBCOMP of remaining length 2, 3 and 4: accepted,
   same values as the specification's reading *)
Theorem C03_ack_short : forall t a b c, (t = 4 \/ t = 5 \/ t = 6 \/ t = 7) ->
  (frame_snapshot (ack_byte t) [a; b]
     = Some (kind_of_nibble t, [ON (b2n a * 256 + b2n b); ON 0; OS []; OL []])
   /\ spec_snapshot (ack_byte t) [x02] [a; b] = Some (t, [ON (b2n a * 256 + b2n b); ON 0; OS []; OL []]))
  /\ (frame_snapshot (ack_byte t) [a; b; c]
     = Some (kind_of_nibble t, [ON (b2n a * 256 + b2n b); ON (b2n c); OS []; OL []])
   /\ spec_snapshot (ack_byte t) [x03] [a; b; c] = Some (t, [ON (b2n a * 256 + b2n b); ON (b2n c); OS []; OL []]))
  /\ (frame_snapshot (ack_byte t) [a; b; c; x00]
     = Some (kind_of_nibble t, [ON (b2n a * 256 + b2n b); ON (b2n c); OS []; OL []])
   /\ spec_snapshot (ack_byte t) [x04] [a; b; c; x00] = Some (t, [ON (b2n a * 256 + b2n b); ON (b2n c); OS []; OL []])).
Proof.
  intros t a b c H. split; [exact (ack_len2 t a b H)|]. split; [exact (ack_len3 t a b c H)|exact (ack_len4 t a b c H)].
Qed.
Print Assumptions C03_ack_short.

(* DISCONNECT and AUTH of length 0, DISCONNECT of length 1, PINGREQ, PINGRESP *)
Theorem C03_short_forms : forall c,
  frame_snapshot xe0 [] = Some (KDisconnect, [ON 0; ON 0; OS []; OS []; OL []])
  /\ spec_snapshot xe0 [x00] [] = Some (14, [ON 0; ON 0; OS []; OS []; OL []])
  /\ frame_snapshot xe0 [c] = Some (KDisconnect, [ON (b2n c); ON 0; OS []; OS []; OL []])
  /\ spec_snapshot xe0 [x01] [c] = Some (14, [ON (b2n c); ON 0; OS []; OS []; OL []])
  /\ frame_snapshot xf0 [] = Some (KAuth, [ON 0; OS []; OS []; OS []; OL []])
  /\ spec_snapshot xf0 [x00] [] = Some (15, [ON 0; OS []; OS []; OS []; OL []])
  /\ frame_snapshot xc0 [] = Some (KPingReq, []) /\ spec_snapshot xc0 [x00] [] = Some (12, [])
  /\ frame_snapshot xd0 [] = Some (KPingResp, []) /\ spec_snapshot xd0 [x00] [] = Some (13, []).
Proof. exact short_disconnect. Qed.
Print Assumptions C03_short_forms.

(* fields: what the specification's encoder writes for a field is read
   back by the library's field decoder, whatever follows *)
Theorem C03_fields : forall rest,
  (forall s old, len s < 65536 -> dec_bin old (e_str s ++ rest) = Ok (match s with [] => old | _ => s end))
  /\ (forall n, n < 268435456 -> dec_vb (e_var n ++ rest) = Ok n)
  /\ (forall n, n < 65536 -> dec_u16 (e_u16 n ++ rest) = Ok n)
  /\ (forall n, n < 4294967296 -> dec_u32 (e_u32 n ++ rest) = Ok n)
  /\ (forall k v, len k < 65536 -> len v < 65536 -> dec_userprop (e_str k ++ e_str v ++ rest) = Ok (k, v)).
Proof.
  intros rest. repeat split.
  - intros s old H. replace (e_str s) with (enc_bin s); [apply dec_enc_bin; exact H|].
    unfold e_str, enc_bin, e_u16, enc_u16. rewrite N.mod_small by exact H. reflexivity.
  - intros n H. rewrite e_var_enc_vb by exact H. apply dec_enc_vb. exact H.
  - intros n H. exact (dec_enc_u16 n rest H).
  - intros n H. exact (dec_enc_u32 n rest H).
  - intros k v Hk Hv.
    replace (e_str k) with (enc_bin k) by (unfold e_str, enc_bin, e_u16, enc_u16; rewrite N.mod_small by exact Hk; reflexivity).
    replace (e_str v) with (enc_bin v) by (unfold e_str, enc_bin, e_u16, enc_u16; rewrite N.mod_small by exact Hv; reflexivity).
    apply dec_enc_userprop; assumption.
Qed.
Print Assumptions C03_fields.

(* the witness of the former finding D13: a DISCONNECT with reason 0x81 and
   reason string "hi" is valid by the specification and decoded *)
Theorem C03_disconnect_properties :
  spec_decode [xe0; x07; x81; x05; x1f; x00; x02; x68; x69]
  = Some {| af_type := 14; af_flags := 0;
            af_body := BDisc 2 129 [{| ap_id := 31; ap_val := VStr [x68; x69] |}] |}
  /\ frame_snapshot xe0 [x81; x05; x1f; x00; x02; x68; x69]
     = Some (KDisconnect, [ON 129; ON 0; OS [x68; x69]; OS []; OL []]).
Proof. exact disconnect_reason_string_accepted. Qed.
Print Assumptions C03_disconnect_properties.
