(* C03 - Every valid MQTT v5.0 frame is accepted and decoded to the values it carries. *)
From MQ Require Import Model.Stream Proofs.BytesP Proofs.VbP Proofs.WireP Proofs.StreamP Proofs.SpecP
     Proofs.SpecWireP Spec.Mqtt5 Spec.Glue.

(* The full statement (Findings/C03_disconnect.v, C03_full) is refuted by
   the known finding D13: DISCONNECT carrying property 0x11, 0x1c or
   0x1f. Proved here: every legal short form, for all field values; the
   field-level facts that make long forms readable (strings up to 65 535
   bytes, minimal variable byte integers of 1-4 bytes as property or
   remaining length, explicit zero values); the rest of the valid-frame
   language is decided on the implementation by the oracle, which feeds
   ReadPacket the output of the specification's encoder over all 15
   types, property subsets, permutations, explicit zeros and boundary
   lengths, and compares every accessor. *)

(* PUBACK/PUBREC/PUBREL/PUBCOMP of remaining length 2, 3 and 4: accepted,
   same values as the specification's reading *)
Theorem C03_ack_short : forall t a b c, (t = 4 \/ t = 5 \/ t = 6 \/ t = 7) ->
  (frame_snapshot (ack_byte t) [a; b]
     = Some (kind_of_nibble t, [ON (b2n a * 256 + b2n b); ON 0; OS []; OL []])
   /\ spec_snapshot (ack_byte t) [x02] [a; b] = Some (t, [ON (b2n a * 256 + b2n b); ON 0; OS []; OL []]))
  /\ (frame_snapshot (ack_byte t) [a; b; c]
     = Some (kind_of_nibble t, [ON (b2n a * 256 + b2n b); ON (b2n c); OS []; OL []])
   /\ spec_snapshot (ack_byte t) [x03] [a; b; c] = Some (t, [ON (b2n a * 256 + b2n b); ON (b2n c); OS []; OL []]))
  /\ (frame_snapshot (ack_byte t) [a; b; c; x00]
     = Some (kind_of_nibble t, [ON (b2n a * 256 + b2n b); ON (b2n c); OS []; OL []])
   /\ spec_snapshot (ack_byte t) [x04] [a; b; c; x00] = Some (t, [ON (b2n a * 256 + b2n b); ON (b2n c); OS []; OL []])).
Proof.
  intros t a b c H. split; [exact (ack_len2 t a b H)|]. split; [exact (ack_len3 t a b c H)|exact (ack_len4 t a b c H)].
Qed.
Print Assumptions C03_ack_short.

(* DISCONNECT and AUTH of length 0, DISCONNECT of length 1, PINGREQ, PINGRESP *)
Theorem C03_short_forms : forall c,
  frame_snapshot xe0 [] = Some (KDisconnect, [ON 0; OL []])
  /\ spec_snapshot xe0 [x00] [] = Some (14, [ON 0; OL []])
  /\ frame_snapshot xe0 [c] = Some (KDisconnect, [ON (b2n c); OL []])
  /\ spec_snapshot xe0 [x01] [c] = Some (14, [ON (b2n c); OL []])
  /\ frame_snapshot xf0 [] = Some (KAuth, [ON 0; OS []; OS []; OS []; OL []])
  /\ spec_snapshot xf0 [x00] [] = Some (15, [ON 0; OS []; OS []; OS []; OL []])
  /\ frame_snapshot xc0 [] = Some (KPingReq, []) /\ spec_snapshot xc0 [x00] [] = Some (12, [])
  /\ frame_snapshot xd0 [] = Some (KPingResp, []) /\ spec_snapshot xd0 [x00] [] = Some (13, []).
Proof. exact short_disconnect. Qed.
Print Assumptions C03_short_forms.

(* fields: what the specification's encoder writes for a field is read
   back by the library's field decoder, whatever follows *)
Theorem C03_fields : forall rest,
  (forall s old, len s < 65536 -> dec_bin old (e_str s ++ rest) = Ok (match s with [] => old | _ => s end))
  /\ (forall n, n < 268435456 -> dec_vb (e_var n ++ rest) = Ok n)
  /\ (forall n, n < 65536 -> dec_u16 (e_u16 n ++ rest) = Ok n)
  /\ (forall n, n < 4294967296 -> dec_u32 (e_u32 n ++ rest) = Ok n)
  /\ (forall k v, len k < 65536 -> len v < 65536 -> dec_userprop (e_str k ++ e_str v ++ rest) = Ok (k, v)).
Proof.
  intros rest. repeat split.
  - intros s old H. replace (e_str s) with (enc_bin s); [apply dec_enc_bin; exact H|].
    unfold e_str, enc_bin, e_u16, enc_u16. rewrite N.mod_small by exact H. reflexivity.
  - intros n H. rewrite e_var_enc_vb by exact H. apply dec_enc_vb. exact H.
  - intros n H. exact (dec_enc_u16 n rest H).
  - intros n H. exact (dec_enc_u32 n rest H).
  - intros k v Hk Hv.
    replace (e_str k) with (enc_bin k) by (unfold e_str, enc_bin, e_u16, enc_u16; rewrite N.mod_small by exact Hk; reflexivity).
    replace (e_str v) with (enc_bin v) by (unfold e_str, enc_bin, e_u16, enc_u16; rewrite N.mod_small by exact Hv; reflexivity).
    apply dec_enc_userprop; assumption.
Qed.
Print Assumptions C03_fields.
