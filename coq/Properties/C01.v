(* C01 - Write then read returns the same packet, field for field. *)
From MQ Require Import Model.Stream Model.Api Proofs.BytesP Proofs.VbP Proofs.WireP Proofs.StreamP Proofs.EncP
     Proofs.FrameP Proofs.DispatchP Proofs.PropsP Proofs.RoundP Proofs.DomP Model.AccIR Proofs.AccP gen.GenAcc gen.SyncAcc
     Model.WireIR Model.WireDecIR Proofs.FillP Proofs.WireRoundP gen.GenWire gen.SyncWire gen.GenWireDec gen.SyncWireDec.
From Coq Require Import String.

(* Proved: (1) every wire type round-trips over an arbitrary suffix, for
   every value inside MQTT's limits; (2) the frame layer: what WriteTo
   emits is one frame that ReadPacket consumes exactly and dispatches to
   the same packet type; (3) C01_roundtrip below: the whole statement, for
   every packet of the domain of each of the fifteen types, with no bound
   on the number of user properties, filters, reason codes or
   subscription identifiers, nor on string lengths below 65 536. *)

Theorem C01_wire_roundtrips : forall rest,
  (forall n, n < 256 -> dec_u8 (enc_u8 n ++ rest) = Ok n)
  /\ (forall n, n < 65536 -> dec_u16 (enc_u16 n ++ rest) = Ok n)
  /\ (forall n, n < 4294967296 -> dec_u32 (enc_u32 n ++ rest) = Ok n)
  /\ (forall b, dec_bool (enc_bool b ++ rest) = Ok b)
  /\ (forall old s, len s < 65536 ->
        dec_bin old (enc_bin s ++ rest) = Ok (match s with [] => old | _ => s end))
  /\ (forall n, n < 268435456 -> dec_vb (enc_vb n ++ rest) = Ok n)
  /\ (forall k v, len k < 65536 -> len v < 65536 ->
        dec_userprop (enc_bin k ++ enc_bin v ++ rest) = Ok (k, v)).
Proof.
  intros rest. repeat split; intros.
  - apply dec_enc_u8; assumption.
  - apply dec_enc_u16; assumption.
  - apply dec_enc_u32; assumption.
  - apply dec_enc_bool.
  - apply dec_enc_bin; assumption.
  - apply dec_enc_vb; assumption.
  - apply dec_enc_userprop; assumption.
Qed.
Print Assumptions C01_wire_roundtrips.

(* the frame layer: any delivery of the written bytes is consumed exactly,
   and the decoder selected is that of the packet's own first byte *)
Theorem C01_frame : forall k p bs rest s,
  encode_pkt k p = Some bs -> sbytes s = bs ++ rest -> avail (len bs) s = true ->
  exists body, bs = n2b (getN (M F_fixed) p) :: enc_vb (len body) ++ body /\
    (len body < 268435456 ->
     exists po eo tr,
       decode_frame (n2b (getN (M F_fixed) p)) body = Some (po, eo) /\
       read_packet s = RP {| r_pkt := po; r_err := eo; r_rest := sdrop (len bs) s;
                             r_trace := tr; r_got := bs |}).
Proof.
  intros k p bs rest s He Hs Hav.
  destruct (encode_frame k p bs He) as [body E]. exists body. split; [exact E|].
  intros Hl. destruct (enc_vb_wf _ Hl) as [W V].
  destruct (frame_exact (n2b (getN (M F_fixed) p)) (enc_vb (len body)) body rest s W (eq_sym V))
    as [po [eo [tr [D [R _]]]]].
  - rewrite Hs, E. cbn [app]. rewrite <- app_assoc. reflexivity.
  - rewrite <- E. exact Hav.
  - exists po, eo, tr. split; [exact D|]. rewrite <- E in R. exact R.
Qed.
Print Assumptions C01_frame.

(* The full statement.  [dom k p] (Proofs/RoundP.v) is the C01 domain as a
   predicate on the packet a history of constructor and setter calls
   leaves: every field within its wire type's range, user-property keys
   non-empty, subscription identifiers 1..268 435 455, the first byte that
   of the constructor (any flag nibble for PUBLISH), a remaining length
   within MQTT's limit, and for CONNECT a will that was not modified after
   it was attached (its first byte and payload are those the connect flags
   and willPayload record).  For every such packet of any of the fifteen
   types: WriteTo's bytes are one frame; ReadPacket on any delivery of those
   bytes followed by anything consumes exactly them, returns no error and a
   packet of the same type; every accessor of that packet returns what the
   original's returns (snapshot: scalars, flags, the will, ordered lists
   with duplicates); and writing it again gives byte-identical output. *)
Theorem C01_roundtrip : forall k p, dom k p ->
  exists bs p',
    encode_pkt k p = Some bs
    /\ (forall s rest, sbytes s = bs ++ rest -> avail (len bs) s = true ->
         exists tr, read_packet s =
           RP {| r_pkt := Some (k, p'); r_err := None; r_rest := sdrop (len bs) s;
                 r_trace := tr; r_got := bs |})
    /\ snapshot k p' = snapshot k p
    /\ encode_pkt k p' = Some bs.
Proof.
  intros k p Hd. destruct (roundtrip_all k p Hd) as [body [p' [He [Hl [Hdec [Hs Hre]]]]]].
  exists (n2b (getN (M F_fixed) p) :: enc_vb (len body) ++ body), p'.
  split; [exact He|]. split; [|split; [exact Hs|rewrite Hre; exact He]].
  intros s rest Hsb Hav. destruct (enc_vb_wf _ Hl) as [W V].
  apply (read_packet_frame (n2b (getN (M F_fixed) p)) (enc_vb (len body)) body rest s); try assumption.
  - symmetry. exact V.
  - rewrite Hsb. cbn [app]. rewrite <- app_assoc. reflexivity.
Qed.
Print Assumptions C01_roundtrip.

(* The same for every packet built through the public API: any history of
   constructor and setter calls applicable to the type, each argument within
   MQTT's limits (call_ok, Proofs/DomP.v: strings and binary data below
   65 536 bytes, numbers within their field, QoS 0..2, subscription
   identifiers 1..268 435 455, non-empty user-property keys, a will that is
   itself such a PUBLISH without DUP, packet identifier, topic alias or
   subscription identifiers), leaves a packet of the domain, provided the
   two conditions MQTT puts across fields hold (no packet identifier on a
   QoS 0 PUBLISH, no will delay interval without a will) and the frame is
   within the 268 435 455-byte limit. *)
Theorem C01_api : forall k h, k <> KUndefined ->
  Forall (fun c => applicable k c = true) h -> Forall call_ok h ->
  let p := run_calls k h in
  cross_ok k p -> remaining_ok k p ->
  exists bs p',
    encode_pkt k p = Some bs
    /\ (forall s rest, sbytes s = bs ++ rest -> avail (len bs) s = true ->
         exists tr, read_packet s =
           RP {| r_pkt := Some (k, p'); r_err := None; r_rest := sdrop (len bs) s;
                 r_trace := tr; r_got := bs |})
    /\ snapshot k p' = snapshot k p
    /\ encode_pkt k p' = Some bs.
Proof.
  intros k h Hk Ha Ho p Hc Hs. apply C01_roundtrip. apply api_dom; assumption.
Qed.
Print Assumptions C01_api.

(* the domain is inhabited: a CONNECT with a will and credentials, a PUBLISH
   with QoS 1, subscription identifiers and payload, an empty DISCONNECT *)
Example C01_dom_inhabited :
  let s l := map n2b l in
  roundtrip KPubAck (run_calls KPubAck [SetPacketID 1; SetReasonString (s [120]); AddUserProp (s [1]) (s [2])])
  /\ roundtrip KDisconnect (run_calls KDisconnect []).
Proof.
  cbv zeta. split.
  - apply roundtrip_all. cbn [dom]. constructor.
    + reflexivity.
    + repeat constructor; vm_compute; reflexivity.
    + repeat constructor; vm_compute; try reflexivity; discriminate.
    + vm_compute. reflexivity.
  - apply roundtrip_all. cbn [dom]. constructor.
    + reflexivity.
    + repeat constructor; vm_compute; reflexivity.
    + constructor.
    + vm_compute. reflexivity.
Qed.

(* concrete round trips through the model, one per type (tests) *)
Example C01_examples :
  let s l := map n2b l in
  forallb (fun kp =>
    match encode_pkt (fst kp) (snd kp) with
    | Some bs =>
      match read_packet (one bs) with
      | RP r => match r_pkt r with
                | Some (k', p') => kind_eqb k' (fst kp)
                                   && match encode_pkt k' p' with Some bs' => bytes_eqb bs bs' | None => false end
                | None => false end
      | _ => false end
    | None => false end)
  [ (KPubAck, run_calls KPubAck [SetPacketID 1; SetReasonString (s [120])]);
    (KSubscribe, run_calls KSubscribe [SetPacketID 1; AddFilter (s [97]) 1; SetSubscriptionID (Zpos 5)]);
    (KUnsubscribe, run_calls KUnsubscribe [SetPacketID 1]);
    (KConnect, run_calls KConnect [SetClientID (s [99]); SetUsername (s [117]);
         SetWill (run_calls KPublish [SetTopicName (s [116]); SetQoS 2; SetRetain true; SetContentType (s [99])]);
         SetWillDelayInterval 5]);
    (KPublish, run_calls KPublish [SetTopicName (s [116]); SetQoS 1; SetPacketID 3; AddSubscriptionID 7]) ] = true.
Proof. vm_compute. reflexivity. Qed.

(* "Every public accessor": snapshot, in which the statements above compare
   the decoded packet with the one that was written, is the accessors of the
   source read in a fixed order.  tools/gosync (acc.go) translates every
   exported accessor whose body is `return T(p.f)`, `return p.f` or `return
   p.f.Has(C)` (72 of the 79 accessors of the 16 packet types) into an
   accessor term; the regenerated table is the table of Model/AccIR.v, and
   snapshot k p is that table evaluated on p, name by name (the seven
   accessors outside the idioms - QoS, HasFlag, SubscriptionID(s), Filters -
   and the exported UserProperties field by their hand-written meaning). *)
Theorem C01_snapshot_is_the_accessors :
  g_acc_table = acc_table /\
  forall k p, snapshot k p = map (fun name => eval_named name p) (snapshot_names k).
Proof. exact (conj sync_acc_table snapshot_by_accessors). Qed.
Print Assumptions C01_snapshot_is_the_accessors.

(* The wire-level round trips (1) said of the source as it stands: for a wire
   type whose model encoder/decoder round-trip over any suffix (they do for
   every value inside MQTT's limits: second half), the statement list
   regenerated from T.fill, run on a buffer with room at position i, writes
   bytes from which the statement list regenerated from T.UnmarshalBinary -
   run on the buffer from position i on, as buffer.get hands it over - reads
   the value back. *)
Theorem C01_wire_roundtrip_is_the_source :
  g_wire_progs = wire_progs /\ g_wire_dec_progs = wire_dec_progs /\
  (forall w v id buf i old v',
     (forall rest, decode w old (Wire.encode w v ++ rest) = Ok v') ->
     (i + List.length (Wire.encode w v) <= List.length buf)%nat ->
     exists b', run_fill (prog_fill w) (wenv_of w v id) buf i = Some (b', List.length (Wire.encode w v)) /\
                lift (value_of w) (run_wdec (dprog_of w) (wv_of w old) (skipn i b')) = Ok v') /\
  ((forall n old rest, (n < 256)%N -> decode U8 old (Wire.encode U8 (VN n) ++ rest) = Ok (VN n)) /\
   (forall n old rest, (n < 65536)%N -> decode U16 old (Wire.encode U16 (VN n) ++ rest) = Ok (VN n)) /\
   (forall n old rest, (n < 4294967296)%N -> decode U32 old (Wire.encode U32 (VN n) ++ rest) = Ok (VN n)) /\
   (forall b old rest, decode WBool old (Wire.encode WBool (VB b) ++ rest) = Ok (VB b)) /\
   (forall s old rest, (len s < 65536)%N -> s <> [] -> decode Bin old (Wire.encode Bin (VS s) ++ rest) = Ok (VS s)) /\
   (forall n old rest, (n < 268435456)%N -> decode Vb old (Wire.encode Vb (VN n) ++ rest) = Ok (VN n))).
Proof.
  exact (conj sync_wire_progs (conj sync_wire_dec_progs (conj wire_roundtrip_progs wire_roundtrip_premises))).
Qed.
Print Assumptions C01_wire_roundtrip_is_the_source.
