(* C01 - Write then read returns the same packet, field for field. *)
From MQ Require Import Model.Stream Proofs.BytesP Proofs.VbP Proofs.WireP Proofs.StreamP Proofs.EncP
     Proofs.FrameP Proofs.DispatchP.

(* Proved: (1) every wire type round-trips over an arbitrary suffix, for
   every value inside MQTT's limits - in particular strings and binary data
   of every length up to 65 535 and variable byte integers of every length
   class, which is where sizes that move the remaining-length and property
   length fields between their forms are covered, not by cases; (2) the
   frame layer: what WriteTo emits is one frame that ReadPacket consumes
   exactly and dispatches to the same packet type with the same first
   byte. The field-by-field statement for whole packets of each type
   (C01_full below) is not yet a theorem; it is decided on the
   implementation by the round-trip oracle (accessor equality and
   byte-identical re-encoding on generated packets of the stated domain)
   and on the model by the correspondence suites. *)

Theorem C01_wire_roundtrips : forall rest,
  (forall n, n < 256 -> dec_u8 (enc_u8 n ++ rest) = Ok n)
  /\ (forall n, n < 65536 -> dec_u16 (enc_u16 n ++ rest) = Ok n)
  /\ (forall n, n < 4294967296 -> dec_u32 (enc_u32 n ++ rest) = Ok n)
  /\ (forall b, dec_bool (enc_bool b ++ rest) = Ok b)
  /\ (forall old s, len s < 65536 ->
        dec_bin old (enc_bin s ++ rest) = Ok (match s with [] => old | _ => s end))
  /\ (forall n, n < 268435456 -> dec_vb (enc_vb n ++ rest) = Ok n)
  /\ (forall k v, len k < 65536 -> len v < 65536 ->
        dec_userprop (enc_bin k ++ enc_bin v ++ rest) = Ok (k, v)).
Proof.
  intros rest. repeat split; intros.
  - apply dec_enc_u8; assumption.
  - apply dec_enc_u16; assumption.
  - apply dec_enc_u32; assumption.
  - apply dec_enc_bool.
  - apply dec_enc_bin; assumption.
  - apply dec_enc_vb; assumption.
  - apply dec_enc_userprop; assumption.
Qed.
Print Assumptions C01_wire_roundtrips.

(* the frame layer: any delivery of the written bytes is consumed exactly,
   and the decoder selected is that of the packet's own first byte *)
Theorem C01_frame : forall k p bs rest s,
  encode_pkt k p = Some bs -> sbytes s = bs ++ rest -> avail (len bs) s = true ->
  exists body, bs = n2b (getN (M F_fixed) p) :: enc_vb (len body) ++ body /\
    (len body < 268435456 ->
     exists po eo tr,
       decode_frame (n2b (getN (M F_fixed) p)) body = Some (po, eo) /\
       read_packet s = RP {| r_pkt := po; r_err := eo; r_rest := sdrop (len bs) s;
                             r_trace := tr; r_got := bs |}).
Proof.
  intros k p bs rest s He Hs Hav.
  destruct (encode_frame k p bs He) as [body E]. exists body. split; [exact E|].
  intros Hl. destruct (enc_vb_wf _ Hl) as [W V].
  destruct (frame_exact (n2b (getN (M F_fixed) p)) (enc_vb (len body)) body rest s W (eq_sym V))
    as [po [eo [tr [D [R _]]]]].
  - rewrite Hs, E. cbn [app]. rewrite <- app_assoc. reflexivity.
  - rewrite <- E. exact Hav.
  - exists po, eo, tr. split; [exact D|]. rewrite <- E in R. exact R.
Qed.
Print Assumptions C01_frame.

(* The full statement, for reference (not proved). *)
Definition C01_full : Prop :=
  forall k h, k <> KUndefined -> Forall (fun c => applicable k c = true) h ->
    (* arguments within MQTT's limits *) True ->
    let p := run_calls k h in
    exists bs p', encode_pkt k p = Some bs
      /\ decode_frame (n2b (getN (M F_fixed) p)) (skipn (1 + length (enc_vb (len bs))) bs) = Some (Some (k, p'), None)
      /\ snapshot k p' = snapshot k p /\ encode_pkt k p' = Some bs.

(* concrete round trips through the model, one per type (tests) *)
Example C01_examples :
  let s l := map n2b l in
  forallb (fun kp =>
    match encode_pkt (fst kp) (snd kp) with
    | Some bs =>
      match read_packet (one bs) with
      | RP r => match r_pkt r with
                | Some (k', p') => kind_eqb k' (fst kp)
                                   && match encode_pkt k' p' with Some bs' => bytes_eqb bs bs' | None => false end
                | None => false end
      | _ => false end
    | None => false end)
  [ (KPubAck, run_calls KPubAck [SetPacketID 1; SetReasonString (s [120])]);
    (KSubscribe, run_calls KSubscribe [SetPacketID 1; AddFilter (s [97]) 1; SetSubscriptionID (Zpos 5)]);
    (KUnsubscribe, run_calls KUnsubscribe [SetPacketID 1]);
    (KConnect, run_calls KConnect [SetClientID (s [99]); SetUsername (s [117]);
         SetWill (run_calls KPublish [SetTopicName (s [116]); SetQoS 2; SetRetain true; SetContentType (s [99])]);
         SetWillDelayInterval 5]);
    (KPublish, run_calls KPublish [SetTopicName (s [116]); SetQoS 1; SetPacketID 3; AddSubscriptionID 7]) ] = true.
Proof. vm_compute. reflexivity. Qed.
