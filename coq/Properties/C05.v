(* C05 - Decoding terminates with work bounded by the frame size. *)
From MQ Require Import Model.Codec Model.Stream Proofs.StreamP Proofs.DecP Proofs.ReadP Proofs.BoundP Proofs.BytesBoundP Proofs.StepsP.

(* Every loop of the decoders (property loop, SUBSCRIBE/UNSUBSCRIBE
   filter loops, reason codes) is run in the model on fuel
   length(data)+1; the fuel is never exhausted, i.e. no loop makes more
   than length(data)+1 iterations, for any packet type, receiver state
   and byte string. *)
Theorem C05_terminates : forall k p0 data, unmarshal k p0 data <> UFuel.
Proof. intros k p0 data. exact (proj2 (unmarshal_total k p0 data)). Qed.
Print Assumptions C05_terminates.

(* ReadPacket: io.ReadFull's loop and the header loop return for every
   finite reader script (fuel = script size + 1, five header rounds). *)
Theorem C05_read_terminates : forall s, read_packet s <> RPFuel.
Proof. intros s. destruct (read_packet_total s) as [r [E _]]. rewrite E. discriminate. Qed.
Print Assumptions C05_read_terminates.

(* A decoded packet never holds more list elements - user properties (also
   of the will), subscription identifiers, topic filters, reason codes -
   than the data has bytes, on top of what the receiver held before: every
   append is paid for by a byte of input. (When decoding fails, one more
   element may have been appended on the way out of a filter loop; then no
   packet is returned by ReadPacket.) For every packet type, receiver state
   and byte string. *)
Theorem C05_lists_bounded : forall k p0 data,
  match unmarshal k p0 data with
  | UOk p => (lsize p <= lsize p0 + length data)%nat
  | UErr _ p => (lsize p <= lsize p0 + length data + 1)%nat
  | _ => True
  end.
Proof. exact unmarshal_bound. Qed.
Print Assumptions C05_lists_bounded.

(* Memory held by the result: the bytes of strings and binary data in the
   packet's fields, its will message, its user properties and topic filters
   (bsize, Proofs/BytesBoundP.v; the will's payload is the CONNECT's
   willPayload - one array in the Go code - and counted once) never exceed
   what the receiver held before plus the length of the data, whether the
   call succeeds or fails: every byte a decoder stores is a byte of input it
   has moved past (a repeated property replaces the earlier value; the filter
   appended on the way out of a failing loop is empty). For every packet
   type, receiver state and byte string. *)
Theorem C05_bytes_bounded : forall k p0 data,
  match unmarshal k p0 data with
  | UOk p | UErr _ p => (bsize p <= bsize p0 + length data)%nat
  | _ => True
  end.
Proof. exact unmarshal_bytes_bound. Qed.
Print Assumptions C05_bytes_bounded.

Example C05_bytes_example :
  bsize (ctor KConnect) = 4%nat /\
  match unmarshal KPublish zero_pkt [x00; x03; x61; x2f; x62; x00; x68; x69] with
  | UOk p => bsize p = 5%nat
  | _ => False
  end.
Proof. vm_compute. split; reflexivity. Qed.

(* Work: the number of buffer.get calls (each decodes one field, in time
   proportional to the bytes it consumes) that UnmarshalBinary makes is at
   most twice the length of the data plus 16, for every packet type,
   receiver state and byte string: a call that succeeds moves the offset
   forward, a call that fails sets the error, after which a loop makes at
   most one more call (the reason-code loop: one per remaining byte). *)
Theorem C05_work_bounded : forall k p0 data,
  (snd (unmarshal_steps k p0 data) <= 2 * length data + 16)%nat.
Proof. exact unmarshal_steps_bound. Qed.
Print Assumptions C05_work_bounded.

(* witness of the pinned tree's endless loop: now an error *)
Example C05_witness :
  exists p, unmarshal KSubscribe zero_pkt [x00; x01; x00; x00; x05; x61] = UErr EMissingData p.
Proof. eexists. vm_compute. reflexivity. Qed.
