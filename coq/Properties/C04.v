(* C04 - Decoding never panics, whatever bytes arrive. *)
From MQ Require Import Model.Stream Proofs.StreamP Proofs.DecP Proofs.ReadP Model.WireDecIR Proofs.WireDecIRP gen.GenWireDec gen.SyncWireDec Model.BufIR Proofs.BufIRP gen.GenBuf gen.SyncBuf Proofs.WireIRP gen.GenWire gen.SyncWire Model.GetAnyIR Proofs.GetAnyIRP gen.GenGetAny gen.SyncGetAny.

(* UnmarshalBinary of every packet type, on every receiver state and
   every byte string, returns normally (Panic is produced in the model
   by every out-of-range index/slice, negative make and nil will). *)
Theorem C04_unmarshal : forall k p0 data, unmarshal k p0 data <> UPanic.
Proof. intros k p0 data. exact (proj1 (unmarshal_total k p0 data)). Qed.
Print Assumptions C04_unmarshal.

(* ReadPacket through any reader (any script of chunks, zero-length
   reads, errors) returns normally, with either a packet and no error
   or no packet and an error - never both, never neither. *)
Theorem C04_read_total : forall s, exists r, read_packet s = RP r /\
  ((r_pkt r <> None /\ r_err r = None) \/ (r_pkt r = None /\ r_err r <> None)).
Proof. exact read_packet_total. Qed.
Print Assumptions C04_read_total.

(* The same holds for any decoder program that passes the static
   will-allocation check - the obligation a regenerated skeleton has. *)
Theorem C04_program : forall ds p0 data w', safe_list ds false = Some w' ->
  exists s', run_dec ds {| dp := p0; ddata := data; dpos := 0; derr := None; dsteps := 0 |} = Run s'
             /\ ddata s' = data /\ (dpos s' <= length data)%nat.
Proof. exact program_total. Qed.
Print Assumptions C04_program.

(* non-vacuity: inputs that made the pinned code panic *)
Example C04_witnesses :
  unmarshal KPubAck zero_pkt [x00] = UErr EMissingData zero_pkt
  /\ (exists p, unmarshal KSubAck zero_pkt
        [x00; x01; x09; x1f; x00; x03; x61; x62; x63; x1f; x00; x00] = UErr EMissingData p).
Proof. split; [vm_compute; reflexivity|eexists; vm_compute; reflexivity]. Qed.

(* The wire-level decoders the theorems above start from - dec_u8, dec_u16,
   dec_u32, dec_bool, dec_bin (the dropped error of its length decoder and the
   zero length that leaves the destination unchanged included), dec_raw,
   dec_vb, dec_userprop, with Panic for every index or slice out of range -
   are not only a hand-written reading of wiretypes.go: tools/gosync (wire.go)
   translates UnmarshalBinary of the nine wire types statement by statement
   (locals, assignments to *v, make and copy, `switch data[0]`, the range loop
   of vbint) and regenerates the table on every run; it is the table the model
   holds, and running each statement list - on every receiver value and every
   byte string - is the decoder of Model/Wire.v: same value, same error
   class, panic exactly where it panics. *)
Theorem C04_wire_decoders_are_the_source :
  g_wire_dec_progs = wire_dec_progs /\
  (forall w old d, lift (value_of w) (run_wdec (dprog_of w) (wv_of w old) d) = decode w old d) /\
  (forall old d, run_wdec dprog_ident old d = lift WVn (dec_u8 d)) /\
  (forall old d, run_wdec dprog_userprop old d = lift (fun kv => WVp (fst kv) (snd kv)) (dec_userprop d)).
Proof.
  exact (conj sync_wire_dec_progs (conj wire_dec_is_prog (conj ident_dec_is_prog run_userprop_dec))).
Qed.
Print Assumptions C04_wire_decoders_are_the_source.

(* non-vacuity: the regenerated statement lists on three inputs - a string of
   length 2, a boolean byte that is neither 0 nor 1, an empty input to bits *)
Example C04_wire_dec_example :
  run_wdec (dprog_of Bin) (WVs []) [x00; "002"%byte; "104"%byte; "105"%byte; xff] = Ok (WVs ["104"%byte; "105"%byte])
  /\ run_wdec (dprog_of WBool) (WVb false) ["002"%byte] = Err EMalformedBool
  /\ run_wdec (dprog_of U8) (WVn 0) [] = Panic
  /\ run_wdec (dprog_of Vb) (WVn 0) [x80; x80; x80; x80; x01] = Err ESizeExceeded.
Proof. vm_compute. repeat split; reflexivity. Qed.

(* ... and get_with, the guarded reader those decoders are called through
   (a failed reader does nothing more; an exhausted one fails with "missing
   data"; a decoder error is kept; the cursor advances by the width of the
   value now held and is clamped, with "missing data", to the end of the
   data), is buffer.get as it stands in the source: its regenerated statement
   list, run with any decoder and any width function on any reader state, is
   get_with - same value, same reader state afterwards, panic exactly where
   the decoder panics. *)
Theorem C04_guarded_reader_is_the_source :
  g_get_prog = get_prog /\
  forall (A : Type) (dc : list byte -> outcome A) (wd : A -> nat) (s0 : dstate),
    run_get dc wd get_prog s0 = get_with dc wd s0.
Proof. exact (conj sync_get_prog (@get_is_prog)). Qed.
Print Assumptions C04_guarded_reader_is_the_source.

(* The amount the reader advances by after a decode - v.width(), recomputed
   from the value v now holds (Wire.width) - is the source's width method of
   each wire type: its regenerated statement list returns Wire.width w v for
   every value and writes nothing. *)
Theorem C04_widths_are_the_source :
  g_wire_progs = wire_progs /\
  forall w v id buf i, run_fill (prog_width w) (wenv_of w v id) buf i = Some (buf, Wire.width w v).
Proof. exact (conj sync_wire_progs wire_width_is_width). Qed.
Print Assumptions C04_widths_are_the_source.

(* Put together: b.get(&field) for a field of wire type w - the regenerated
   statement list of buffer.get run with the regenerated statement list of
   T.UnmarshalBinary as its decoder and Wire.width (what T.width's statement
   list returns) as its width - is Codec.get_val, the step every decoder
   skeleton is interpreted with. *)
Theorem C04_get_is_the_source : forall w old s,
  run_get (fun d => lift (value_of w) (run_wdec (dprog_of w) (wv_of w old) d)) (Wire.width w) get_prog s
  = get_val w old s.
Proof. exact get_val_is_progs. Qed.
Print Assumptions C04_get_is_the_source.

(* The property loop itself - getany, where the defects of the decoders lived
   (an error that does not stop the loop, a property length that runs past the
   data, the identifier that survives an iteration) - is buffer.getAny as it
   stands: its regenerated statement list (atEnd, the property length, `end`,
   `for b.i < end`, the identifier, the return on error, `fields[id]` and
   `continue`, the switch with its two cases and its default), run with the
   environment a decoder skeleton's (map, will, mode) triple stands for, is
   Codec.getany on every reader state. *)
Theorem C04_property_loop_is_the_source :
  g_getany_prog = getany_prog /\
  forall m will sm s, run_getany getany_prog (env_of_mode m will sm) s = getany m will sm s.
Proof. exact (conj sync_getany_prog getany_is_prog). Qed.
Print Assumptions C04_property_loop_is_the_source.
