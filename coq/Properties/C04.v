(* C04 - Decoding never panics, whatever bytes arrive. *)
From MQ Require Import Model.Stream Proofs.StreamP Proofs.DecP Proofs.ReadP.

(* UnmarshalBinary of every packet type, on every receiver state and
   every byte string, returns normally (Panic is produced in the model
   by every out-of-range index/slice, negative make and nil will). *)
Theorem C04_unmarshal : forall k p0 data, unmarshal k p0 data <> UPanic.
Proof. intros k p0 data. exact (proj1 (unmarshal_total k p0 data)). Qed.
Print Assumptions C04_unmarshal.

(* ReadPacket through any reader (any script of chunks, zero-length
   reads, errors) returns normally, with either a packet and no error
   or no packet and an error - never both, never neither. *)
Theorem C04_read_total : forall s, exists r, read_packet s = RP r /\
  ((r_pkt r <> None /\ r_err r = None) \/ (r_pkt r = None /\ r_err r <> None)).
Proof. exact read_packet_total. Qed.
Print Assumptions C04_read_total.

(* The same holds for any decoder program that passes the static
   will-allocation check - the obligation a regenerated skeleton has. *)
Theorem C04_program : forall ds p0 data w', safe_list ds false = Some w' ->
  exists s', run_dec ds {| dp := p0; ddata := data; dpos := 0; derr := None; dsteps := 0 |} = Run s'
             /\ ddata s' = data /\ (dpos s' <= length data)%nat.
Proof. exact program_total. Qed.
Print Assumptions C04_program.

(* non-vacuity: inputs that made the pinned code panic *)
Example C04_witnesses :
  unmarshal KPubAck zero_pkt [x00] = UErr EMissingData zero_pkt
  /\ (exists p, unmarshal KSubAck zero_pkt
        [x00; x01; x09; x1f; x00; x03; x61; x62; x63; x1f; x00; x00] = UErr EMissingData p).
Proof. split; [vm_compute; reflexivity|eexists; vm_compute; reflexivity]. Qed.
