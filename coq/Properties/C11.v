(* C11 - Encoding is deterministic and read-only. *)
From MQ Require Import Model.Render Proofs.BytesP Proofs.RenderP Model.ReadOnlyApi gen.GenEffects gen.SyncEffects.
From Coq Require Import List Permutation Lia. Import ListNotations. Open Scope N_scope.

(* In the model every operation of the read-only API - WriteTo (write_to),
   String (string_toks), Dump (dump_toks), WellFormed (wellformed), the
   accessors (snapshot) - is a function of the packet value that returns
   no new packet: there is no state they could change, and their result
   cannot depend on anything but the packet. What the Go code adds to
   this picture is map iteration, whose order the runtime randomises.
   After the repair of D9 the encoders range over maps of at most one
   entry (SUBSCRIBE, SUBACK, UNSUBACK: propertyMap with a single
   identifier); for those every iteration order yields the same bytes: *)
Theorem C11_single_entry_maps : forall (A : Type) (f : A -> list byte) (l l' : list A),
  Permutation l l' -> (length l <= 1)%nat -> concat (map f l) = concat (map f l').
Proof.
  intros A f l l' P H. destruct l as [|x [|y t]]; [| |simpl in H; lia].
  - apply Permutation_nil in P. subst. reflexivity.
  - apply Permutation_length_1_inv in P. subst. reflexivity.
Qed.
Print Assumptions C11_single_entry_maps.

(* ... while a two-entry map already has two encodings (the defect D9
   had six entries): the order matters as soon as there are two. *)
Theorem C11_two_entries_differ :
  exists (l l' : list (list byte)), Permutation l l' /\ concat l <> concat l'.
Proof. exists [[x01]; [x02]], [[x02]; [x01]]. split; [apply perm_swap|discriminate]. Qed.
Print Assumptions C11_two_entries_differ.

(* Repeated encodings interleaved with read-only operations: the bytes
   are those of the first encoding and the accessors do not change.
   (ops are executed for their results only.) *)
Inductive ro_op := OpWrite | OpString | OpDump | OpWellFormed | OpSnapshot.

Definition run_ro (k : kind) (p : pkt) (o : ro_op) : pkt * option (list byte) :=
  match o with
  | OpWrite => (p, encode_pkt k p)
  | OpString => (p, match string_toks k p with Some _ => Some [] | None => None end)
  | OpDump => (p, match dump_toks k p with _ => Some [] end)
  | OpWellFormed => (p, match wellformed k p with _ => Some [] end)
  | OpSnapshot => (p, match snapshot k p with _ => Some [] end)
  end.

Theorem C11_readonly : forall k p ops,
  fold_left (fun q o => fst (run_ro k q o)) ops p = p
  /\ forall ops', encode_pkt k (fold_left (fun q o => fst (run_ro k q o)) ops p)
                  = encode_pkt k (fold_left (fun q o => fst (run_ro k q o)) ops' p).
Proof.
  assert (H : forall k ops p, fold_left (fun q o => fst (run_ro k q o)) ops p = p).
  { intros k ops. induction ops as [|o ops IH]; intros p; [reflexivity|].
    cbn [fold_left]. destruct o; cbn; apply IH. }
  intros k p ops. split; [apply H|]. intros ops'. rewrite !H. reflexivity.
Qed.
Print Assumptions C11_readonly.

(* That the Go methods behind the read-only API are functions of the packet
   too - that none of WriteTo, String, dump, WellFormed, Error, the
   accessors, fill and width stores into the packet, into memory reachable
   from it, or into a package-level variable, on any path - is decided on
   the source on every run by the write-set analysis of tools/gosync
   (effects.go, see Properties/C13.v); no function of the package keeps
   state between calls in package-level variables, pools or caches. *)
Theorem C11_api_writes_nothing :
  g_readonly_effects = [] /\ g_global_effects = [] /\
  forallb (fun m => existsb (String.eqb m) g_readonly_methods) readonly_api = true.
Proof. exact (conj sync_readonly_effects (conj sync_no_global_state sync_readonly_methods)). Qed.
Print Assumptions C11_api_writes_nothing.
