(* C07 - The decoded packet does not depend on how the stream is fragmented. *)
From MQ Require Import Model.Stream Proofs.BytesP Proofs.VbP Proofs.StreamP Proofs.FrameP.

(* Any two readers that deliver the same frame - whatever follows it,
   however the bytes are split over Read calls (down to one byte at a
   time), with zero-length reads in between, and with an error (io.EOF
   included) reported in the same call as the last byte or later -
   give the same packet or the same rejection. *)
Theorem C07_fragmentation : forall b0 hdr body rest rest' s s',
  wf_vb hdr = true -> len body = vb_value hdr ->
  sbytes s = b0 :: hdr ++ body ++ rest -> avail (len (b0 :: hdr ++ body)) s = true ->
  sbytes s' = b0 :: hdr ++ body ++ rest' -> avail (len (b0 :: hdr ++ body)) s' = true ->
  exists r r', read_packet s = RP r /\ read_packet s' = RP r' /\
               r_pkt r = r_pkt r' /\ r_err r = r_err r' /\ r_got r = r_got r'.
Proof. exact frame_fragmentation. Qed.
Print Assumptions C07_fragmentation.

(* the single-chunk reader is one such delivery *)
Theorem C07_one_chunk : forall bs, sbytes (one bs) = bs ++ [] /\ avail (len bs) (one bs) = true.
Proof. exact one_delivers. Qed.
Print Assumptions C07_one_chunk.

Example C07_example :
  let f := [x40; x02; x00; x07] in
  read_all 1 [Chunk [x40] None; Chunk [] None; Chunk [x02; x00] None; Chunk [x07] (Some EEOF)]
  = read_all 1 (one f).
Proof. vm_compute. reflexivity. Qed.
