(* C16 - Packet type dispatch follows the first byte and header flags are preserved. *)
From MQ Require Import Model.Stream Proofs.BytesP Proofs.VbP Proofs.StreamP Proofs.FrameP Proofs.DispatchP Model.ReadIR Proofs.ReadIRP gen.GenRead gen.SyncRead.

(* For each of the 256 first bytes and every body: if the frame is
   accepted, the packet has the type selected by the upper four bits;
   type 0 yields Undefined carrying the frame's bytes; for types 1..15
   the packet keeps the whole first byte, and writing it again
   reproduces that byte. (decode_frame is what ReadPacket returns for
   the frame under every delivery: C06_exact.) *)
Theorem C16_dispatch : forall b0 body k p,
  decode_frame b0 body = Some (Some (k, p), None) ->
  k = kind_of_nibble (b2n b0 / 16)
  /\ (k = KUndefined -> getS (M F_data) p = body)
  /\ (k <> KUndefined ->
      getN (M F_fixed) p = b2n b0 /\
      forall bs, encode_pkt k p = Some bs -> exists t, bs = b0 :: t).
Proof. exact dispatch. Qed.
Print Assumptions C16_dispatch.

(* A PUBLISH reports DUP, QoS and RETAIN according to the lower four bits. *)
Theorem C16_publish_flags : forall b : byte,
  let fx := b2n b in
  has fx DUP = ((fx / 8) mod 2 =? 1) /\ has fx RETAIN = (fx mod 2 =? 1)
  /\ qos_of_fixed fx = (fx / 2) mod 4.
Proof. exact publish_flags_of_byte. Qed.
Print Assumptions C16_publish_flags.

(* non-vacuity: every first byte has an accepted frame (remaining length 0) *)
Theorem C16_all_accepted : forall b0, exists k p, decode_frame b0 [] = Some (Some (k, p), None).
Proof. intros b0. unfold decode_frame. destruct (fresh_pkt (b2n b0)) as [k p]. exists k, p. reflexivity. Qed.
Print Assumptions C16_all_accepted.

Example C16_example :
  exists p, decode_frame x3b [x00; x01; x74; x00; x05; x00; xaa] = Some (Some (KPublish, p), None)
            /\ snapshot KPublish p =
               [OB true; OB true; ON 1; OS [x74]; ON 5; OB false; ON 0; ON 0; OS []; OS []; OS [];
                OS [xaa]; OL []; OL []].
Proof. eexists. split; vm_compute; reflexivity. Qed.

(* Which struct ReadRemaining allocates for which first byte, and that every
   type but Undefined is given the first byte (`&T{fixed: f.fixed}`), is read
   off the source on every run: the switch `byte(f.fixed) & 0b1111_0000` with
   its fifteen cases and its default is regenerated as a table
   (gen/GenRead.v); it is the table the model holds, and dispatching by it is
   Stream.fresh_pkt - the allocation C16_dispatch is proved about - for every
   first byte. *)
Theorem C16_dispatch_is_the_source :
  (g_dispatch_mask = dispatch_mask /\ g_dispatch_table = dispatch_table /\ g_dispatch_default = dispatch_default) /\
  forall x : Byte.byte, dispatch_run (b2n x) = fresh_pkt (b2n x).
Proof. exact (conj sync_dispatch dispatch_is_fresh). Qed.
Print Assumptions C16_dispatch_is_the_source.
