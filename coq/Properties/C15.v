(* C15 - Variable byte integers are encoded minimally and decoded exactly.
   Statements only; proofs live in Proofs/. *)
From MQ Require Import Model.Stream Proofs.BytesP Proofs.VbP Proofs.StreamP Model.WireIR Proofs.WireIRP Proofs.FillP gen.GenWire gen.SyncWire Model.WireDecIR Proofs.WireDecIRP gen.GenWireDec gen.SyncWireDec Model.ReadIR Proofs.ReadIRP gen.GenRead gen.SyncRead.

(* Every value 0 .. 268 435 455 is written in the unique minimal
   one-to-four-byte form: the output is well formed (seven bits per
   byte, least significant group first, continuation bit on all but the
   last byte), has the value n, has the length MQTT prescribes, and no
   other well-formed encoding of n is shorter or, at equal length,
   different. *)
Theorem C15_minimal : forall n, n < 268435456 ->
  wf_vb (enc_vb n) = true /\ vb_value (enc_vb n) = n /\
  length (enc_vb n) = vb_len n /\
  forall bs', wf_vb bs' = true -> vb_value bs' = n ->
    (length (enc_vb n) <= length bs')%nat /\
    (length bs' = length (enc_vb n) -> bs' = enc_vb n).
Proof.
  intros n H. destruct (enc_vb_wf n H) as [W V].
  split; [exact W|]. split; [exact V|]. split; [exact (enc_vb_length n H)|].
  intros bs' W' V'. exact (wf_vb_minimal n bs' H W' V').
Qed.
Print Assumptions C15_minimal.

(* The in-memory decoder returns exactly that value, whatever follows,
   and the guarded reader advances by exactly those bytes. *)
Theorem C15_mem : forall n rest, n < 268435456 ->
  dec_vb (enc_vb n ++ rest) = Ok n /\ width Vb (VN n) = length (enc_vb n).
Proof. intros n rest H. split; [exact (dec_enc_vb n rest H)|exact (width_vb n)]. Qed.
Print Assumptions C15_mem.

(* The streaming decoder returns exactly that value and consumes
   exactly those bytes, for every way the reader may deliver them
   (any chunking, zero-length reads, errors reported with or after the
   last byte). *)
Theorem C15_stream : forall n rest s, n < 268435456 ->
  sbytes s = enc_vb n ++ rest -> avail (len (enc_vb n)) s = true ->
  exists tr, vb_stream s = Some (Ok n, sdrop (len (enc_vb n)) s, tr, enc_vb n).
Proof.
  intros n rest s H Hs Hav. destruct (enc_vb_wf n H) as [W V].
  destruct (vb_stream_wf (enc_vb n) rest s W Hs Hav) as [tr E].
  exists tr. rewrite E, V. reflexivity.
Qed.
Print Assumptions C15_stream.

(* Rejection: a fifth continuation byte, or an end on a continuation byte. *)
Theorem C15_reject_mem :
  (forall a b c d t, cont a = true -> cont b = true -> cont c = true -> cont d = true ->
                     rejected (dec_vb (a :: b :: c :: d :: t))) /\
  (forall bs, Forall (fun b => cont b = true) bs -> rejected (dec_vb bs)).
Proof. split; [exact dec_vb_five|exact dec_vb_all_cont]. Qed.
Print Assumptions C15_reject_mem.

Theorem C15_reject_stream : forall a b c d e rest s,
  cont a = true -> cont b = true -> cont c = true -> cont d = true ->
  sbytes s = a :: b :: c :: d :: e :: rest -> avail 5 s = true ->
  exists tr, vb_stream s = Some (Err ESizeExceeded, sdrop 5 s, tr, [a; b; c; d; e]).
Proof.
  intros a b c d e rest s Ha Hb Hc Hd Hs Hav. unfold vb_stream.
  destruct (vb_stream_loop_pure 6 1 0 s [] [] (Err ESizeExceeded) [a; b; c; d; e]) as [tr E].
  - rewrite Hs. apply vb_pure_five; assumption.
  - exact Hav.
  - exists tr. exact E.
Qed.
Print Assumptions C15_reject_stream.

(* What the in-memory decoder accepts is exactly a well-formed prefix:
   the two decoders agree on acceptance and value. *)
Theorem C15_agree_accept : forall d n, dec_vb d = Ok n ->
  exists bs rest, d = bs ++ rest /\ wf_vb bs = true /\ vb_value bs = n /\
    forall s, sbytes s = d -> avail (len bs) s = true ->
      exists tr, vb_stream s = Some (Ok n, sdrop (len bs) s, tr, bs).
Proof.
  intros d n H. destruct (dec_vb_ok_inv d n H) as [bs [rest [E [W V]]]].
  exists bs, rest. split; [exact E|]. split; [exact W|]. split; [exact V|].
  intros s Hs Hav. subst d. destruct (vb_stream_wf bs rest s W Hs Hav) as [tr Q].
  exists tr. rewrite Q, V. reflexivity.
Qed.
Print Assumptions C15_agree_accept.

(* non-vacuity *)
Example C15_example : enc_vb 268435455 = [xff; xff; xff; x7f] /\ enc_vb 128 = [x80; x01]
  /\ dec_vb [x80; x01; x00] = Ok 128.
Proof. vm_compute. repeat split. Qed.

(* enc_vb, the encoder the theorems above speak about, is the loop of the
   source as it stands: vbint.fill, translated statement by statement and
   regenerated on every run (gen/GenWire.v), is the statement list the model
   holds; running it on any buffer at any position reports length (enc_vb n)
   and - given room - has stored exactly enc_vb n there (each byte under its
   own guard `i < len(data)`; on the nil slice nothing is stored and the count
   is the width, which is how width() and the size pass use it). *)
Theorem C15_encoder_is_the_source :
  g_wire_progs = wire_progs /\
  forall n id buf i,
    exists b', run_fill prog_vbint_fill (wenv_of Vb (VN n) id) buf i = Some (b', List.length (enc_vb n)) /\
               List.length b' = List.length buf /\
               ((i + List.length (enc_vb n) <= List.length buf)%nat -> b' = put buf i (enc_vb n)).
Proof.
  split; [exact sync_wire_progs|]. intros n id buf i. unfold prog_vbint_fill. rewrite run_vb_fill. exact (fill_vb_ok n buf i).
Qed.
Print Assumptions C15_encoder_is_the_source.

(* and dec_vb, the in-memory decoder of the theorems above, is the loop of
   vbint.UnmarshalBinary as it stands in the source: its regenerated statement
   list, run on any byte string, gives dec_vb's value, dec_vb's error class
   ("missing data" for an empty input and for one that ends on a continuation
   byte, "size exceeded" at the fifth byte), and never panics. *)
Theorem C15_decoder_is_the_source :
  g_wire_dec_progs = wire_dec_progs /\
  forall old d, run_wdec dprog_vbint old d = lift WVn (dec_vb d).
Proof. split; [exact sync_wire_dec_progs|exact run_vb_dec]. Qed.
Print Assumptions C15_decoder_is_the_source.

(* ... and vb_stream, the streaming decoder, is vbint.ReadFrom as it stands:
   its regenerated statement list (one-byte buffer, io.ReadFull per byte, the
   same accumulation, "size exceeded" at the fifth byte, *v assigned only after
   the loop), run on any reader script, gives vb_stream's value or error, the
   same reader afterwards, the same sizes requested and the same bytes taken. *)
Theorem C15_stream_decoder_is_the_source :
  g_vb_read_prog = vb_read_prog /\
  (forall s, drop_count (run_vbread vb_read_prog s) = vb_stream s) /\
  (* and the count it returns is the number of bytes it took from the reader *)
  (forall s o s' t g n, run_vbread vb_read_prog s = Some (o, s', t, g, n) -> n = List.length g).
Proof. split; [exact sync_vb_read_prog|split; [exact vb_read_is_prog|exact vb_read_count]]. Qed.
Print Assumptions C15_stream_decoder_is_the_source.
