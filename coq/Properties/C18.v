(* C18 - Diagnostics never disclose credentials. *)
From MQ Require Import Model.Render Proofs.BytesP Proofs.RenderP Model.AccIR Model.DumpIR Proofs.DumpP gen.GenAcc gen.SyncAcc gen.GenDump gen.SyncDump Model.StringIR Proofs.StringP gen.GenString gen.SyncString.
From Coq Require Import List. Import ListNotations. Open Scope N_scope.

(* cred_rel p p': every field, list and the will of the two CONNECT
   packets coincide, except the bytes of the user name and of the
   password, which have equal lengths (and may coincide with any other
   field's content). The packets may be built or decoded, with or
   without will, properties, authentication fields. *)

(* Dump: identical token for token (literal text and the values handed to fmt). *)
Theorem C18_dump : forall p p', cred_rel p p' -> dump_toks KConnect p = dump_toks KConnect p'.
Proof. exact connect_dump_cred. Qed.
Print Assumptions C18_dump.

(* String: identical, including the printed size. *)
Theorem C18_string : forall p p', cred_rel p p' -> string_toks KConnect p = string_toks KConnect p'.
Proof. exact connect_string_cred. Qed.
Print Assumptions C18_string.

(* the size of the frame of any packet type depends on the credentials
   only through their lengths *)
Theorem C18_size : forall k p p', cred_rel p p' ->
  option_map len (encode_pkt k p) = option_map len (encode_pkt k p').
Proof. exact encode_len_cred. Qed.
Print Assumptions C18_size.

(* non-vacuity: two packets with different secrets of equal length *)
Example C18_example :
  let mk u w := run_calls KConnect [SetClientID [x63]; SetUsername u; SetPassword w;
                                    SetWill (run_calls KPublish [SetTopicName [x74]; SetPayload u])] in
  dump_toks KConnect (mk [x61; x62] [x31]) = dump_toks KConnect (mk [x7a; x7a] [x39])
  /\ string_toks KConnect (mk [x61; x62] [x31]) = string_toks KConnect (mk [x7a; x7a] [x39]) -> True.
Proof. intros; exact I. Qed.

(* dump_toks is the dump method of the source: tools/gosync (acc.go)
   translates the statements of every packet type's dump(w) - lines
   `fmt.Fprintf(w, "Label: %v\n", p.Accessor())`, the masked credentials
   `stars(len(p.Password()))`, the will block, the filter loop, the user
   properties - into item lists, and every one-line accessor into an
   accessor term with its Go result type; the regenerated lists and tables
   are those of Model/DumpIR.v and Model/AccIR.v, and their interpretation
   (fmt's rendering by verb and type) is dump_toks, for every type and
   packet.  So C18_dump above is about what CONNECT's dump method says now:
   the two credential lines go through stars(len(...)). *)
Theorem C18_dump_is_the_source :
  g_dump_Connect = dump_ir KConnect /\ g_dump_Publish = dump_ir KPublish /\
  g_acc_table = acc_table /\ g_acc_rtypes = acc_rtypes /\
  forall k p, run_dump k p = dump_toks k p.
Proof.
  exact (conj sync_dump_Connect (conj sync_dump_Publish (conj sync_acc_table
        (conj sync_acc_rtypes run_dump_is_dump_toks)))).
Qed.
Print Assumptions C18_dump_is_the_source.

(* string_toks is the String method of the source for the fourteen packet
   types whose String is `return [withForm(p, | withReason(p, ]
   fmt.Sprintf(format, args...) [)]`: tools/gosync (acc.go) translates the
   format string and each argument (first byte, flag renderings, fields,
   accessors, the keep-alive duration, the size from the dry run, the reason
   code's name, the filter text) into an item list; the regenerated lists are
   those of Model/StringIR.v (gen/SyncString.v) and their interpretation is
   string_toks (PUBLISH, which builds its topic text first, and Undefined
   remain hand-modelled and fingerprinted). *)
Theorem C18_string_is_the_source : forall k p, string_ir k <> None ->
  run_string_of k p = string_toks k p.
Proof. exact run_string_is_string_toks. Qed.
Print Assumptions C18_string_is_the_source.
