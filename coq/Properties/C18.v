(* C18 - Diagnostics never disclose credentials. *)
From MQ Require Import Model.Render Proofs.BytesP Proofs.RenderP.
From Coq Require Import List. Import ListNotations. Open Scope N_scope.

(* cred_rel p p': every field, list and the will of the two CONNECT
   packets coincide, except the bytes of the user name and of the
   password, which have equal lengths (and may coincide with any other
   field's content). The packets may be built or decoded, with or
   without will, properties, authentication fields. *)

(* Dump: identical token for token (literal text and the values handed to fmt). *)
Theorem C18_dump : forall p p', cred_rel p p' -> dump_toks KConnect p = dump_toks KConnect p'.
Proof. exact connect_dump_cred. Qed.
Print Assumptions C18_dump.

(* String: identical, including the printed size. *)
Theorem C18_string : forall p p', cred_rel p p' -> string_toks KConnect p = string_toks KConnect p'.
Proof. exact connect_string_cred. Qed.
Print Assumptions C18_string.

(* the size of the frame of any packet type depends on the credentials
   only through their lengths *)
Theorem C18_size : forall k p p', cred_rel p p' ->
  option_map len (encode_pkt k p) = option_map len (encode_pkt k p').
Proof. exact encode_len_cred. Qed.
Print Assumptions C18_size.

(* non-vacuity: two packets with different secrets of equal length *)
Example C18_example :
  let mk u w := run_calls KConnect [SetClientID [x63]; SetUsername u; SetPassword w;
                                    SetWill (run_calls KPublish [SetTopicName [x74]; SetPayload u])] in
  dump_toks KConnect (mk [x61; x62] [x31]) = dump_toks KConnect (mk [x7a; x7a] [x39])
  /\ string_toks KConnect (mk [x61; x62] [x31]) = string_toks KConnect (mk [x7a; x7a] [x39]) -> True.
Proof. intros; exact I. Qed.
