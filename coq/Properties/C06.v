(* C06 - ReadPacket consumes exactly one frame from the stream. *)
From MQ Require Import Model.Stream Proofs.BytesP Proofs.VbP Proofs.StreamP Proofs.FrameP.

(* For every frame (first byte, any terminated 1-4 byte remaining
   length, body of that length - well formed content or not), every
   continuation rest of the stream and every way the reader delivers
   them (sbytes/avail: any chunking, zero-length reads, an error with or
   after the last byte): ReadPacket obtains exactly the bytes of the
   frame, its result is a function of the frame alone (decode_frame),
   and the reader is left exactly at the first byte after the frame. *)
Theorem C06_exact : forall b0 hdr body rest s,
  wf_vb hdr = true -> len body = vb_value hdr ->
  sbytes s = b0 :: hdr ++ body ++ rest ->
  avail (len (b0 :: hdr ++ body)) s = true ->
  exists po eo tr,
    decode_frame b0 body = Some (po, eo) /\
    read_packet s = RP {| r_pkt := po; r_err := eo;
                          r_rest := sdrop (len (b0 :: hdr ++ body)) s;
                          r_trace := tr; r_got := b0 :: hdr ++ body |} /\
    sbytes (sdrop (len (b0 :: hdr ++ body)) s) = rest.
Proof. exact frame_exact. Qed.
Print Assumptions C06_exact.

(* Hence any concatenation of frames is returned frame by frame, in
   order, by successive calls. *)
Theorem C06_sequence : forall fs rest s,
  Forall framed fs -> sbytes s = frames_bytes fs ++ rest ->
  avail (len (frames_bytes fs)) s = true ->
  read_all (length fs) s = map (fun f => let '(b0, _, body) := f in decode_frame b0 body) fs.
Proof. exact frame_sequence. Qed.
Print Assumptions C06_sequence.

(* after the last frame, a clean end of stream is io.EOF *)
Theorem C06_then_eof : read_packet [] = RP (fail EEOF [] [1] []).
Proof. reflexivity. Qed.
Print Assumptions C06_then_eof.

Example C06_example :
  read_all 3 [Chunk [x90; x02; x00] None; Chunk [] None; Chunk [x0a; xc0] None; Chunk [x00] (Some EEOF)]
  = [decode_frame x90 [x00; x0a]; decode_frame xc0 []; Some (None, Some EEOF)].
Proof. vm_compute. reflexivity. Qed.
