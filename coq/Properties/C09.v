(* C09 - Frames that the decoder must reject are rejected. *)
From MQ Require Import Model.Stream Proofs.BytesP Proofs.VbP Proofs.WireP Proofs.DecP Proofs.StreamP
     Proofs.FrameFieldP Proofs.RejectP Spec.Mqtt5.

(* (a) A field cut strictly inside is reported by its decoder, for every
   value of the field and every interior cut position: two- and four-byte
   integers, strings/binary data (inside the length prefix or the body),
   multi-byte variable byte integers, user properties (inside key or
   value); a frame that ends between a property identifier and its value,
   or before any expected field, makes buffer.get report missing data. *)
Theorem C09a_u16 : forall n k old, (0 < k < 2)%nat -> is_err (decode U16 old (firstn k (enc_u16 n))).
Proof. exact cut_u16. Qed.
Theorem C09a_u32 : forall n k old, (0 < k < 4)%nat -> is_err (decode U32 old (firstn k (enc_u32 n))).
Proof. exact cut_u32. Qed.
Theorem C09a_string : forall s k old, len s < 65536 -> (0 < k < 2 + length s)%nat ->
  is_err (decode Bin old (firstn k (enc_bin s))).
Proof. exact cut_bin. Qed.
Theorem C09a_vbint : forall n k old, n < 268435456 -> (0 < k < length (enc_vb n))%nat ->
  is_err (decode Vb old (firstn k (enc_vb n))).
Proof. exact cut_vb. Qed.
Theorem C09a_userprop : forall kk vv k, len kk < 65536 -> len vv < 65536 ->
  (0 < k < 4 + length kk + length vv)%nat ->
  is_err (dec_userprop (firstn k (enc_bin kk ++ enc_bin vv))).
Proof. exact cut_userprop. Qed.
Theorem C09a_nothing_left : forall w old s, derr s = None -> (length (ddata s) <= dpos s)%nat ->
  exists s', get_val w old s = GNo s' /\ derr s' = Some EMissingData.
Proof. exact get_at_end. Qed.
Print Assumptions C09a_userprop.

(* ... and an error, once set by any field, is what UnmarshalBinary
   returns (for every packet type and every split of its decoder), so
   ReadPacket returns no packet (C04_read_total). *)
Theorem C09_error_sticks : forall k p0 data pre post s1,
  dec_of k = pre ++ post ->
  run_dec pre {| dp := p0; ddata := data; dpos := 0; derr := None; dsteps := 0 |} = Run s1 ->
  derr s1 <> None -> exists e p, unmarshal k p0 data = UErr e p.
Proof. exact unmarshal_error_sticks. Qed.
Print Assumptions C09_error_sticks.

(* (b) a variable byte integer that continues beyond four bytes: in
   memory (property length, subscription identifier) and on the stream
   (remaining length) *)
Theorem C09b_mem : forall a b c d t, cont a = true -> cont b = true -> cont c = true -> cont d = true ->
  rejected (dec_vb (a :: b :: c :: d :: t)).
Proof. exact dec_vb_five. Qed.
Theorem C09b_stream : forall a b c d e rest s,
  cont a = true -> cont b = true -> cont c = true -> cont d = true ->
  sbytes s = a :: b :: c :: d :: e :: rest -> avail 5 s = true ->
  exists tr, vb_stream s = Some (Err ESizeExceeded, sdrop 5 s, tr, [a; b; c; d; e]).
Proof.
  intros a b c d e rest s Ha Hb Hc Hd Hs Hav. unfold vb_stream.
  destruct (vb_stream_loop_pure 6 1 0 s [] [] (Err ESizeExceeded) [a; b; c; d; e]) as [tr E].
  - rewrite Hs. apply vb_pure_five; assumption.
  - exact Hav.
  - exists tr. exact E.
Qed.

(* (c) a boolean property with a value other than 0 or 1 *)
Theorem C09c_bool : forall b rest old, 2 <= b2n b -> decode WBool old (b :: rest) = Err EMalformedBool.
Proof. exact bool_out_of_range. Qed.

(* (d) a property identifier that MQTT v5.0 does not define (prop_type u =
   None in the specification's table 2-4: 229 values): the property maps of
   the library know only defined identifiers, and the property loop sets
   the "unknown property id" error on any other *)
Theorem C09d_maps : map_ids_defined connect_map = true /\ map_ids_defined will_map = true /\
  map_ids_defined connack_map = true /\ map_ids_defined publish_map = true /\
  map_ids_defined ack_map = true /\ map_ids_defined auth_map = true.
Proof. exact all_maps_defined. Qed.
Theorem C09d_unknown : forall fuel m will sm endp id s b,
  map_ids_defined m = true -> prop_type (b2n b) = None ->
  derr s = None -> (dpos s < length (ddata s))%nat -> N.of_nat (dpos s) < endp ->
  nth_error (ddata s) (dpos s) = Some b ->
  exists s1, derr s1 = Some (EUnknownProp (b2n b)) /\
    getany_loop (S fuel) m will sm endp id s = getany_loop fuel m will sm endp (b2n b) s1.
Proof. exact getany_unknown. Qed.
Print Assumptions C09d_unknown.

(* Not proved as one statement over whole frames ("for every valid frame
   and every interior cut position ReadPacket errs"): that needs the
   decoder to be followed up to the cut field for every packet layout; the
   per-field theorems above, the stickiness theorem and the oracle over the
   specification's field map (every interior cut of every generated frame)
   stand for it. *)

Example C09_witnesses :
  (exists p, unmarshal KPubAck zero_pkt [x00] = UErr EMissingData p) /\
  (exists p, unmarshal KConnAck zero_pkt [x00; x00; x80] = UErr EMissingData p) /\
  (exists p, unmarshal KConnAck zero_pkt [x00; x00; x02; x25; x02] = UErr EMalformedBool p) /\
  (exists p, unmarshal KConnAck zero_pkt [x00; x00; x02; x30; x00] = UErr (EUnknownProp 48) p).
Proof. repeat split; eexists; vm_compute; reflexivity. Qed.
