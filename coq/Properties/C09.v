(* C09 - Frames that the decoder must reject are rejected. *)
From MQ Require Import Model.Codec Model.Stream Proofs.BytesP Proofs.VbP Proofs.WireP Proofs.DecP Proofs.StreamP
     Proofs.FrameFieldP Proofs.RejectP Proofs.AcceptP Proofs.CutP Spec.Mqtt5.
From Coq Require Import Lia.

(* (a) A field cut strictly inside is reported by its decoder, for every
   value of the field and every interior cut position: two- and four-byte
   integers, strings/binary data (inside the length prefix or the body),
   multi-byte variable byte integers, user properties (inside key or
   value); a frame that ends between a property identifier and its value,
   or before any expected field, makes buffer.get report missing data. *)
Theorem C09a_u16 : forall n k old, (0 < k < 2)%nat -> is_err (decode U16 old (firstn k (enc_u16 n))).
Proof. exact cut_u16. Qed.
Print Assumptions C09a_u16.
Theorem C09a_u32 : forall n k old, (0 < k < 4)%nat -> is_err (decode U32 old (firstn k (enc_u32 n))).
Proof. exact cut_u32. Qed.
Print Assumptions C09a_u32.
Theorem C09a_string : forall s k old, len s < 65536 -> (0 < k < 2 + length s)%nat ->
  is_err (decode Bin old (firstn k (enc_bin s))).
Proof. exact cut_bin. Qed.
Print Assumptions C09a_string.
Theorem C09a_vbint : forall n k old, n < 268435456 -> (0 < k < length (enc_vb n))%nat ->
  is_err (decode Vb old (firstn k (enc_vb n))).
Proof. exact cut_vb. Qed.
Print Assumptions C09a_vbint.
Theorem C09a_userprop : forall kk vv k, len kk < 65536 -> len vv < 65536 ->
  (0 < k < 4 + length kk + length vv)%nat ->
  is_err (dec_userprop (firstn k (enc_bin kk ++ enc_bin vv))).
Proof. exact cut_userprop. Qed.
Theorem C09a_nothing_left : forall w old s, derr s = None -> (length (ddata s) <= dpos s)%nat ->
  exists s', get_val w old s = GNo s' /\ derr s' = Some EMissingData.
Proof. exact get_at_end. Qed.
Print Assumptions C09a_nothing_left.
Print Assumptions C09a_userprop.

(* ... and an error, once set by any field, is what UnmarshalBinary
   returns (for every packet type and every split of its decoder), so
   ReadPacket returns no packet (C04_read_total). *)
Theorem C09_error_sticks : forall k p0 data pre post s1,
  dec_of k = pre ++ post ->
  run_dec pre {| dp := p0; ddata := data; dpos := 0; derr := None; dsteps := 0 |} = Run s1 ->
  derr s1 <> None -> exists e p, unmarshal k p0 data = UErr e p.
Proof. exact unmarshal_error_sticks. Qed.
Print Assumptions C09_error_sticks.

(* (b) a variable byte integer that continues beyond four bytes: in
   memory (property length, subscription identifier) and on the stream
   (remaining length) *)
Theorem C09b_mem : forall a b c d t, cont a = true -> cont b = true -> cont c = true -> cont d = true ->
  rejected (dec_vb (a :: b :: c :: d :: t)).
Proof. exact dec_vb_five. Qed.
Print Assumptions C09b_mem.
Theorem C09b_stream : forall a b c d e rest s,
  cont a = true -> cont b = true -> cont c = true -> cont d = true ->
  sbytes s = a :: b :: c :: d :: e :: rest -> avail 5 s = true ->
  exists tr, vb_stream s = Some (Err ESizeExceeded, sdrop 5 s, tr, [a; b; c; d; e]).
Proof.
  intros a b c d e rest s Ha Hb Hc Hd Hs Hav. unfold vb_stream.
  destruct (vb_stream_loop_pure 6 1 0 s [] [] (Err ESizeExceeded) [a; b; c; d; e]) as [tr E].
  - rewrite Hs. apply vb_pure_five; assumption.
  - exact Hav.
  - exists tr. exact E.
Qed.
Print Assumptions C09b_stream.

(* (c) a boolean property with a value other than 0 or 1 *)
Theorem C09c_bool : forall b rest old, 2 <= b2n b -> decode WBool old (b :: rest) = Err EMalformedBool.
Proof. exact bool_out_of_range. Qed.
Print Assumptions C09c_bool.

(* (d) a property identifier that MQTT v5.0 does not define (prop_type u =
   None in the specification's table 2-4: 229 values): the property maps of
   the library know only defined identifiers, and the property loop sets
   the "unknown property id" error on any other *)
Theorem C09d_maps : map_ids_defined connect_map = true /\ map_ids_defined will_map = true /\
  map_ids_defined connack_map = true /\ map_ids_defined publish_map = true /\
  map_ids_defined ack_map = true /\ map_ids_defined auth_map = true.
Proof. exact all_maps_defined. Qed.
Print Assumptions C09d_maps.
Theorem C09d_unknown : forall fuel m will sm endp id s b,
  map_ids_defined m = true -> prop_type (b2n b) = None ->
  derr s = None -> (dpos s < length (ddata s))%nat -> N.of_nat (dpos s) < endp ->
  nth_error (ddata s) (dpos s) = Some b ->
  exists s1, derr s1 = Some (EUnknownProp (b2n b)) /\
    getany_loop (S fuel) m will sm endp id s = getany_loop fuel m will sm endp (b2n b) s1.
Proof. exact getany_unknown. Qed.
Print Assumptions C09d_unknown.

(* (a) over whole frames.  For every valid frame (frame_ok: the frames of
   the C03 theorems, all 15 types, properties in any order) and every cut
   position c that falls strictly inside a segment of the reference
   encoder's field map (Spec.Mqtt5.body_segs) other than a single byte, the
   raw PUBLISH payload or the reason-code list - a two- or four-byte
   integer, a string or binary field (prefix or body), the property length,
   a property (between identifier and value, or inside the value), a topic
   filter - the body cut at c is rejected by UnmarshalBinary ... *)
Theorem C09a_whole_frames : forall f c, frame_ok f -> seg_cut (body_segs (af_body f)) c ->
  exists e, decode_frame (n2b (af_type f * 16 + af_flags f)) (firstn c (e_body (af_body f))) = Some (None, Some e).
Proof. exact cut_inside_field_rejected. Qed.
Print Assumptions C09a_whole_frames.

(* ... and ReadPacket, given that frame with the remaining length equal
   to the shortened size, under any delivery (script s) and whatever
   follows (rest), returns an error and no packet. *)
Theorem C09a_read_packet : forall f c s rest,
  frame_ok f -> seg_cut (body_segs (af_body f)) c ->
  let b0 := n2b (af_type f * 16 + af_flags f) in
  let cut := firstn c (e_body (af_body f)) in
  len cut < 268435456 ->
  sbytes s = b0 :: enc_vb (len cut) ++ cut ++ rest ->
  avail (len (b0 :: enc_vb (len cut) ++ cut)) s = true ->
  exists e tr, read_packet s =
    RP {| r_pkt := None; r_err := Some e; r_rest := sdrop (len (b0 :: enc_vb (len cut) ++ cut)) s;
          r_trace := tr; r_got := b0 :: enc_vb (len cut) ++ cut |}.
Proof. exact cut_inside_field_read_packet. Qed.
Print Assumptions C09a_read_packet.

(* the field map is the encoder's: its segments concatenate to the body *)
Theorem C09a_segs_cover : forall t b c, seg_cut (body_segs b) c -> field_cut (fields t b) c.
Proof. exact segs_refine. Qed.
Print Assumptions C09a_segs_cover.
Theorem C09a_fields_body : forall t b, concat (map f_seg (fields t b)) = e_body b.
Proof. exact fields_body. Qed.
Print Assumptions C09a_fields_body.

(* the hypotheses are inhabited: a CONNACK with a two-byte property cut
   between identifier and value (c = 4) and inside the value (c = 5); a
   SUBSCRIBE cut inside its second topic filter *)
Ltac sprop := unfold sprop_ok; cbn [ap_id ap_val pval_type pval_ok pnumval];
  repeat split; try reflexivity; try discriminate; try (intros; discriminate); try (apply N.ltb_lt; reflexivity).
Ltac nodup := vm_compute; repeat (apply NoDup_cons; [intros H; cbn in H; intuition discriminate|]); apply NoDup_nil.
Example C09a_inhabited :
  let f1 := {| af_type := 2; af_flags := 0;
               af_body := BConnack 0 0 [ {| ap_id := 33; ap_val := VTwo 10 |} ] |} in
  let f2 := {| af_type := 8; af_flags := 2;
               af_body := BSubscribe 7 [] [([x61], 1); ([x62; x63], 0)] |} in
  frame_ok f1 /\ seg_cut (body_segs (af_body f1)) 4 /\ seg_cut (body_segs (af_body f1)) 5
  /\ frame_ok f2 /\ seg_cut (body_segs (af_body f2)) 10.
Proof.
  cbv zeta. split; [|split; [|split; [|split]]].
  - unfold frame_ok; cbn [af_type af_flags af_body].
    split; [reflexivity|]. split; [reflexivity|]. split; [apply N.leb_le; reflexivity|].
    split; [apply N.ltb_lt; reflexivity|]. split; [|apply N.ltb_lt; vm_compute; reflexivity].
    split; [repeat (apply Forall_cons; [sprop|]); apply Forall_nil|nodup].
  - vm_compute. right. split; [lia|]. right. split; [lia|]. right. split; [lia|]. left.
    split; [repeat split; discriminate|lia].
  - vm_compute. right. split; [lia|]. right. split; [lia|]. right. split; [lia|]. left.
    split; [repeat split; discriminate|lia].
  - unfold frame_ok; cbn [af_type af_flags af_body].
    split; [reflexivity|]. split; [reflexivity|]. split; [apply N.ltb_lt; reflexivity|].
    split; [split; [apply Forall_nil|nodup]|]. split; [apply N.ltb_lt; vm_compute; reflexivity|].
    repeat (apply Forall_cons; [split; apply N.ltb_lt; vm_compute; reflexivity|]). apply Forall_nil.
  - vm_compute. right. split; [lia|]. right. split; [lia|]. right. split; [lia|]. right. split; [lia|].
    left. split; [repeat split; discriminate|lia].
Qed.

(* (b)-(d) over whole frames.  Take any valid frame and any property
   section in it (sect where_ okps ps in its list of fields: CONNECT and will
   properties, CONNACK, PUBLISH, the acknowledgements, SUBSCRIBE, SUBACK,
   UNSUBSCRIBE, UNSUBACK, DISCONNECT, AUTH).  Keep the fields before it and
   replace the section and everything after it by `bad ++ rest` where rest
   is arbitrary and bad is
     - four continuation bytes (the property length continues beyond four
       bytes, (b)), or
     - a property length L, any valid properties ps1 shorter than L, and then
       an identifier MQTT does not define (d), a boolean property of this
       place with a value other than 0 and 1 (c), or a subscription identifier
       whose variable byte integer continues beyond four bytes (b).
   UnmarshalBinary rejects the body, and ReadPacket - under any delivery,
   whatever follows - returns that error and no packet. *)
Theorem C09bcd_whole_frames : forall f pre where_ okps ps post bad rest, frame_ok f ->
  fields (af_type f) (af_body f) = pre ++ sect where_ okps ps :: post -> bad_section where_ okps bad ->
  exists e, decode_frame (n2b (af_type f * 16 + af_flags f)) (concat (map f_seg pre) ++ bad ++ rest) = Some (None, Some e).
Proof. exact poisoned_frame_rejected. Qed.
Print Assumptions C09bcd_whole_frames.

Theorem C09bcd_read_packet : forall f pre where_ okps ps post bad rest s after,
  frame_ok f ->
  fields (af_type f) (af_body f) = pre ++ sect where_ okps ps :: post -> bad_section where_ okps bad ->
  let b0 := n2b (af_type f * 16 + af_flags f) in
  let body := concat (map f_seg pre) ++ bad ++ rest in
  len body < 268435456 ->
  sbytes s = b0 :: enc_vb (len body) ++ body ++ after ->
  avail (len (b0 :: enc_vb (len body) ++ body)) s = true ->
  exists e tr, read_packet s =
    RP {| r_pkt := None; r_err := Some e; r_rest := sdrop (len (b0 :: enc_vb (len body) ++ body)) s;
          r_trace := tr; r_got := b0 :: enc_vb (len body) ++ body |}.
Proof. exact poisoned_frame_read_packet. Qed.
Print Assumptions C09bcd_read_packet.

(* what "poisoned" means, spelled out (definitions of Proofs/CutP.v) *)
Theorem C09bcd_bad_section : forall where_ okps bad, bad_section where_ okps bad <->
  ((exists a b c e, bad = [a; b; c; e] /\ cont a = true /\ cont b = true /\ cont c = true /\ cont e = true)
   \/ (exists L ps1 t, bad = e_var L ++ e_props_raw ps1 ++ t /\ L < 268435456 /\ len (e_props_raw ps1) < L
                       /\ okps ps1 /\
        ((exists u r, t = n2b u :: r /\ u < 256 /\ prop_type u = None)
         \/ (exists id b r, t = n2b id :: b :: r /\ is_bool_prop id = true /\ allowed where_ id = true /\ 2 <= b2n b)
         \/ (exists a b c e r, t = n2b 11 :: a :: b :: c :: e :: r
                               /\ cont a = true /\ cont b = true /\ cont c = true /\ cont e = true)))).
Proof. intros. reflexivity. Qed.
Print Assumptions C09bcd_bad_section.

(* inhabited: CONNACK 20 .. 00 00 | 03 25 02 .. (retain available = 2) and
   | 02 30 .. (identifier 0x30) after the property receive maximum *)
Example C09bcd_inhabited :
  let f1 := {| af_type := 2; af_flags := 0;
               af_body := BConnack 0 0 [ {| ap_id := 33; ap_val := VTwo 10 |} ] |} in
  frame_ok f1
  /\ fields 2 (af_body f1) = [fld (e_u8 0); fld (e_u8 0)] ++ sect 2 (sprops_ok 2) [ {| ap_id := 33; ap_val := VTwo 10 |} ] :: []
  /\ bad_section 2 (sprops_ok 2) (e_var 5 ++ e_props_raw [ {| ap_id := 33; ap_val := VTwo 10 |} ] ++ [x25; x02])
  /\ bad_section 2 (sprops_ok 2) (e_var 1 ++ e_props_raw [] ++ [x30]).
Proof.
  cbv zeta.
  assert (Hps : sprops_ok 2 [ {| ap_id := 33; ap_val := VTwo 10 |} ]).
  { split; [repeat (apply Forall_cons; [sprop|]); apply Forall_nil|nodup]. }
  split; [|split; [reflexivity|split]].
  - unfold frame_ok; cbn [af_type af_flags af_body].
    split; [reflexivity|]. split; [reflexivity|]. split; [apply N.leb_le; reflexivity|].
    split; [apply N.ltb_lt; reflexivity|]. split; [exact Hps|apply N.ltb_lt; vm_compute; reflexivity].
  - right. exists 5, [ {| ap_id := 33; ap_val := VTwo 10 |} ], [x25; x02].
    split; [reflexivity|]. split; [apply N.ltb_lt; reflexivity|]. split; [apply N.ltb_lt; vm_compute; reflexivity|].
    split; [exact Hps|]. right. left. exists 37, x02, []. repeat split; try reflexivity; try (apply N.leb_le; reflexivity).
  - right. exists 1, [], [x30].
    split; [reflexivity|]. split; [apply N.ltb_lt; reflexivity|]. split; [apply N.ltb_lt; vm_compute; reflexivity|].
    split; [split; [apply Forall_nil|apply NoDup_nil]|]. left. exists 48, []. repeat split; try reflexivity.
Qed.

Example C09_witnesses :
  (exists p, unmarshal KPubAck zero_pkt [x00] = UErr EMissingData p) /\
  (exists p, unmarshal KConnAck zero_pkt [x00; x00; x80] = UErr EMissingData p) /\
  (exists p, unmarshal KConnAck zero_pkt [x00; x00; x02; x25; x02] = UErr EMalformedBool p) /\
  (exists p, unmarshal KConnAck zero_pkt [x00; x00; x02; x30; x00] = UErr (EUnknownProp 48) p).
Proof. repeat split; eexists; vm_compute; reflexivity. Qed.
