(* C19 - String and Dump are total on every packet value. *)
From MQ Require Import Model.Render Proofs.BytesP Proofs.DecP Proofs.TotalP Proofs.DispatchP Model.AccIR Model.DumpIR Proofs.DumpP gen.GenDump gen.SyncDump Model.StringIR Proofs.StringP gen.GenString gen.SyncString.
From Coq Require Import Arith List. Import ListNotations. Open Scope N_scope.

(* In the model Dump is a total function (structural recursion over the
   finite lists); the one partial step of String is the encoder's dry
   run, which dereferences Connect.will under the will flag. *)
Theorem C19_string_total : forall k p, (k = KConnect -> Inv p) -> string_toks k p <> None.
Proof. exact string_total. Qed.
Print Assumptions C19_string_total.

(* The invariant holds for every packet value a program can hold: zero
   values, constructors, after every public setter, and after decoding
   any bytes - also when decoding fails part-way. *)
Theorem C19_inv_zero : Inv zero_pkt /\ forall k, Inv (ctor k).
Proof. split; [exact Inv_zero|exact Inv_ctor]. Qed.
Print Assumptions C19_inv_zero.

Theorem C19_inv_step : forall c p, applicable KConnect c = true -> Inv p -> Inv (step c p).
Proof. exact Inv_step. Qed.
Print Assumptions C19_inv_step.

Theorem C19_inv_decode : forall p0 data,
  match unmarshal KConnect p0 data with
  | UOk p | UErr _ p => Inv p
  | _ => True
  end.
Proof. exact Inv_unmarshal_connect. Qed.
Print Assumptions C19_inv_decode.

(* The table-driven renderings are defined for all 256 byte values
   (finite sweep, lifted to every byte by forall_bytes). *)
Theorem C19_bytes : forall b : byte,
  (5 <= length (first_byte_string (b2n b)))%nat /\ length (connect_flags_string (b2n b)) = 8%nat
  /\ length (connack_flags_string (b2n b)) = 8%nat /\ length (filter_options_string (b2n b)) = 8%nat
  /\ reason_toks (b2n b) <> [].
Proof.
  intros b.
  pose proof (forall_bytes (fun b =>
     Nat.leb 5 (length (first_byte_string (b2n b))) && Nat.eqb (length (connect_flags_string (b2n b))) 8
     && Nat.eqb (length (connack_flags_string (b2n b))) 8 && Nat.eqb (length (filter_options_string (b2n b))) 8
     && match reason_toks (b2n b) with [] => false | _ => true end)) as H.
  specialize (H ltac:(vm_compute; reflexivity) b). cbn beta in H.
  repeat (apply andb_prop in H as [H ?]).
  repeat split; try (apply Nat.eqb_eq; assumption).
  - apply Nat.leb_le. assumption.
  - destruct (reason_toks (b2n b)); [discriminate|discriminate].
Qed.
Print Assumptions C19_bytes.

(* Dump of every type is the regenerated item list of its dump method
   interpreted over the accessor table (Model/DumpIR.v, gen/SyncDump.v): a
   total function by construction - no item dereferences the will without the
   `p.will != nil` test, none indexes a list. *)
Theorem C19_dump_is_the_source : forall k p, run_dump k p = dump_toks k p.
Proof. exact run_dump_is_dump_toks. Qed.
Print Assumptions C19_dump_is_the_source.

(* string_toks is the String method of the source for the fourteen packet
   types whose String is `return [withForm(p, | withReason(p, ]
   fmt.Sprintf(format, args...) [)]`: tools/gosync (acc.go) translates the
   format string and each argument (first byte, flag renderings, fields,
   accessors, the keep-alive duration, the size from the dry run, the reason
   code's name, the filter text) into an item list; the regenerated lists are
   those of Model/StringIR.v (gen/SyncString.v) and their interpretation is
   string_toks (PUBLISH, which builds its topic text first, and Undefined
   remain hand-modelled and fingerprinted). *)
Theorem C19_string_is_the_source : forall k p, string_ir k <> None ->
  run_string_of k p = string_toks k p.
Proof. exact run_string_is_string_toks. Qed.
Print Assumptions C19_string_is_the_source.
