(* C14 - Decoded packets own their memory and packets do not interfere. *)
From MQ Require Import Model.Prov Model.Stream Proofs.BytesP Proofs.StreamP Proofs.FrameP gen.GenEffects gen.SyncEffects.
From Coq Require Import List. Import ListNotations.

(* Every byte-slice field that any packet type's decoder stores is freshly
   allocated during the call (static provenance of the decoder IR: bindata
   and rawdata make + copy; Undefined copies since the repair of D10). *)
Theorem C14_fresh : forall k, all_fresh (prog_prov (dec_of k)) = true.
Proof. intros k; destruct k; vm_compute; reflexivity. Qed.
Print Assumptions C14_fresh.

(* Hence what an accessor returns does not depend on what the caller later
   writes into the buffer it passed to UnmarshalBinary. *)
Theorem C14_owns : forall k r pr stored data',
  In (r, pr) (prog_prov (dec_of k)) -> resolve data' stored pr = stored.
Proof.
  intros k r pr stored data' H.
  pose proof (C14_fresh k) as F. unfold all_fresh in F. rewrite forallb_forall in F.
  specialize (F (r, pr) H). destruct pr; [reflexivity|discriminate].
Qed.
Print Assumptions C14_owns.

(* the pre-repair decoder of Undefined is the counter-example the static check rejects *)
Example C14_view_detected : all_fresh (prog_prov [DUndefinedData false]) = false.
Proof. reflexivity. Qed.

(* A frame decodes to the same packet regardless of what was processed
   before it: ReadPacket starts from a packet determined by the first byte
   alone (fresh_pkt), and its result is a function of the frame (C06). *)
Theorem C14_history_independent : forall b0 hdr body rest rest' s s',
  Proofs.VbP.wf_vb hdr = true -> len body = Proofs.VbP.vb_value hdr ->
  sbytes s = b0 :: hdr ++ body ++ rest -> avail (len (b0 :: hdr ++ body)) s = true ->
  sbytes s' = b0 :: hdr ++ body ++ rest' -> avail (len (b0 :: hdr ++ body)) s' = true ->
  exists r r', read_packet s = RP r /\ read_packet s' = RP r' /\
               r_pkt r = r_pkt r' /\ r_err r = r_err r' /\ r_got r = r_got r'.
Proof. exact frame_fragmentation. Qed.
Print Assumptions C14_history_independent.

(* In the model packets are values: operations on one packet cannot change
   another. That the Go packets share no mutable memory (decoded slices,
   the package-level protocol name) is decided on the implementation by
   the scribble and pool oracles. *)

(* No function of the package writes a package-level variable, uses a pool
   or a cache, starts a goroutine or uses a channel (write-set analysis of
   the source, tools/gosync effects.go, regenerated on every run): separate
   decodes have no package-level state through which to interfere. *)
(* "A decoded packet never aliases the buffer it was decoded from", decided on
   the source for every path: the same analysis tracks which memory may come
   to hold a reference into which (assignments, copies of reference elements,
   calls through the callee's own summary, locals that may refer to one
   object); for each of the 25 UnmarshalBinary methods (packet and wire
   types) the receiver is never left holding a reference into the data
   argument - every byte field is made by make+copy or a string conversion -
   none of them writes the bytes it was given (an append into the spare
   capacity of the caller's read buffer, where the next frame lies, counts:
   writes to the object a pointer receiver or parameter points to itself are
   kept apart from writes to what that object reaches, so the decoder's own
   cursor and error fields do not count), and the packet ReadPacket /
   ReadRemaining return does not reach into the reader. *)
Theorem C14_decoders_copy : g_decoder_retains = [] /\ List.length g_decoders = 27%nat.
Proof. exact (conj sync_decoders_copy sync_decoders_covered). Qed.
Print Assumptions C14_decoders_copy.

Theorem C14_no_global_state : g_global_effects = [].
Proof. exact sync_no_global_state. Qed.
Print Assumptions C14_no_global_state.
