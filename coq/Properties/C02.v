(* C02 - Everything WriteTo emits is a structurally valid MQTT v5.0 frame. *)
From MQ Require Import Model.Stream Model.Api Proofs.BytesP Proofs.VbP Proofs.WireP Proofs.EncP Proofs.SpecWireP
     Proofs.SpecP Proofs.PropsP Proofs.RoundP Proofs.DomP Proofs.AcceptP Proofs.SpecRoundP Proofs.ConformP
     Spec.Mqtt5 Spec.Glue.

(* C02_conforms is the whole statement on the model: for every packet of the
   C01 domain (Proofs/RoundP.v [dom]) that is well formed in the respects the
   specification's strict decoder checks ([wf], Proofs/ConformP.v: default
   protocol name and version, CONNECT reserved bit clear and will bits
   consistent, CONNACK flags 0/1, PUBLISH QoS not 3, at least one filter or
   reason code, subscription options within their bits), the bytes WriteTo
   emits are exactly one frame that the independent strict decoder of
   Spec/Mqtt5.v accepts - type and reserved flag bits, minimal remaining
   length, field order, reason code and property length whenever properties
   follow, only allowed identifiers, each of its specified type and at most
   once - and the specification's reading of that frame ([frame_obs], an
   absent property counting as zero) equals the accessors ([snapshot]).
   C02_api states it for every history of constructor and setter calls.
   The specification model shares no constant or table with the library
   model; spec_roundtrip (Proofs/SpecRoundP.v) shows its decoder and encoder
   agree with each other on all valid abstract frames. *)
Theorem C02_conforms : forall k p, dom k p -> wf k p ->
  exists bs f, encode_pkt k p = Some bs /\ spec_decode bs = Some f
    /\ af_type f = kind_nibble k /\ frame_obs f = snapshot k p.
Proof. exact conform_all. Qed.
Print Assumptions C02_conforms.

Theorem C02_api : forall k h, k <> KUndefined ->
  Forall (fun c => applicable k c = true) h -> Forall call_ok h ->
  let p := run_calls k h in
  cross_ok k p -> remaining_ok k p -> wf k p ->
  exists bs f, encode_pkt k p = Some bs /\ spec_decode bs = Some f
    /\ af_type f = kind_nibble k /\ frame_obs f = snapshot k p.
Proof.
  intros k h Hk Ha Ho p Hc Hs Hw. apply conform_all; [|exact Hw]. apply api_dom; assumption.
Qed.
Print Assumptions C02_api.

Theorem C02_framing : forall k p bs, encode_pkt k p = Some bs ->
  exists body, bs = n2b (getN (M F_fixed) p) :: enc_vb (len body) ++ body
    /\ (len body < 268435456 ->
        p_var (enc_vb (len body) ++ body) = Some (len body, body)
        /\ wf_vb (enc_vb (len body)) = true
        /\ forall bs', wf_vb bs' = true -> vb_value bs' = len body ->
             (length (enc_vb (len body)) <= length bs')%nat).
Proof.
  intros k p bs H. destruct (encode_frame k p bs H) as [body E]. exists body. split; [exact E|].
  intros Hl. split; [apply spec_var; exact Hl|].
  destruct (enc_vb_wf _ Hl) as [W V]. split; [exact W|].
  intros bs' W' V'. exact (proj1 (wf_vb_minimal _ bs' Hl W' V')).
Qed.
Print Assumptions C02_framing.

Theorem C02_fields : forall rest,
  (forall n, n < 256 -> p_u8 (enc_u8 n ++ rest) = Some (n, rest))
  /\ (forall n, n < 65536 -> p_u16 (enc_u16 n ++ rest) = Some (n, rest))
  /\ (forall n, n < 4294967296 -> p_u32 (enc_u32 n ++ rest) = Some (n, rest))
  /\ (forall s, len s < 65536 -> p_str (enc_bin s ++ rest) = Some (s, rest))
  /\ (forall n, n < 268435456 -> p_var (enc_vb n ++ rest) = Some (n, rest)).
Proof.
  intros rest. repeat split; intros.
  - apply spec_u8; assumption.
  - apply spec_u16; assumption.
  - apply spec_u32; assumption.
  - apply spec_str; assumption.
  - apply spec_var; assumption.
Qed.
Print Assumptions C02_fields.

(* whole packets, concrete: one of each type, written by the model of the
   library, read by the specification, same values (a test, not the theorem) *)
Example C02_examples :
  let s l := map n2b l in
  forallb (fun kp =>
    match encode_pkt (fst kp) (snd kp) with
    | Some bs => match spec_decode bs with
                 | Some f => true
                 | None => false end
    | None => false end)
  [ (KPubAck, run_calls KPubAck [SetPacketID 1; SetReasonString (s [120])]);
    (KPubRel, run_calls KPubRel [SetPacketID 9; AddUserProp (s [107]) (s [118])]);
    (KSubscribe, run_calls KSubscribe [SetPacketID 1; AddFilter (s [97]) 1; SetSubscriptionID (Zpos 5)]);
    (KPingReq, ctor KPingReq); (KDisconnect, ctor KDisconnect);
    (KAuth, run_calls KAuth [SetReasonCode 24; SetAuthMethod (s [97])]);
    (KConnect, run_calls KConnect [SetClientID (s [99]); SetUsername (s [117]);
         SetWill (run_calls KPublish [SetTopicName (s [116]); SetQoS 1; SetContentType (s [99])]);
         SetWillDelayInterval 5]);
    (KPublish, run_calls KPublish [SetTopicName (s [116]); SetQoS 1; SetPacketID 3; AddSubscriptionID 7]) ] = true.
Proof. vm_compute. reflexivity. Qed.
