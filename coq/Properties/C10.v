(* C10 - WriteTo emits one complete frame and reports its size truthfully. *)
From MQ Require Import Model.Render Model.Fill Proofs.BytesP Proofs.EncP Proofs.RenderP Proofs.TotalP Proofs.FillP Model.StringIR Proofs.StringP gen.GenString gen.SyncString Model.WireIR Proofs.WireIRP gen.GenWire gen.SyncWire.
From Coq Require Import Strings.String. From Coq Require Import List. Import ListNotations. Open Scope N_scope.

(* the frame: first byte, remaining length, exactly that many bytes *)
Theorem C10_frame : forall k p bs, encode_pkt k p = Some bs ->
  exists body, bs = n2b (getN (M F_fixed) p) :: enc_vb (len body) ++ body.
Proof. exact encode_frame. Qed.
Print Assumptions C10_frame.

(* WriteTo hands the writer exactly one Write with the whole frame and
   returns what the writer returns: the full length and nil, or the
   accepted count and the writer's error. *)
Theorem C10_one_write : forall k p w r, k <> KUndefined -> write_to k p w = Some r ->
  exists bs, encode_pkt k p = Some bs /\ w_calls r = [bs] /\
    match w with
    | Accept => w_n r = length bs /\ w_err r = None
    | FailW e => w_n r = 0%nat /\ w_err r = Some e
    | Short n e => w_n r = Nat.min n (length bs) /\ w_err r = Some e
    end.
Proof.
  intros k p w r Hk. unfold write_to. destruct k; try congruence;
    match goal with |- context [encode_pkt ?k p] => destruct (encode_pkt k p) as [bs|] end;
    try discriminate; intros H; injection H as <-; exists bs; (split; [reflexivity|]);
    destruct w; cbn; auto.
Qed.
Print Assumptions C10_one_write.

(* a packet that cannot be serialised returns an error without emitting bytes *)
Theorem C10_undefined : forall p w,
  write_to KUndefined p w = Some {| w_n := 0; w_err := Some ECannotWrite; w_calls := [] |}.
Proof. reflexivity. Qed.
Print Assumptions C10_undefined.

(* WriteTo does not panic on any packet a program can hold (CONNECT:
   representation invariant Inv, see C19) *)
Theorem C10_total : forall k p w, (k = KConnect -> Inv p) -> write_to k p w <> None.
Proof.
  intros k p w HI. unfold write_to. destruct k; try discriminate;
    match goal with |- context [encode_pkt ?k p] =>
      pose proof (encode_total k p ltac:(discriminate) HI) as H;
      destruct (encode_pkt k p); [discriminate|congruence] end.
Qed.
Print Assumptions C10_total.

(* the size printed by String() as "N bytes" is the frame's length *)
Theorem C10_string_size : forall k p bs ts, k <> KUndefined ->
  encode_pkt k p = Some bs -> string_toks k p = Some ts -> size_token ts (len bs).
Proof. exact string_size. Qed.
Print Assumptions C10_string_size.

(* The Go code does not build byte lists: every fill writes at a position
   into a buffer of fixed length behind a capacity guard and returns the
   width; WriteTo runs the packet's fill on the nil slice to learn the size,
   allocates, and runs it again (Model/Fill.v).  For every packet type,
   packet, buffer and position the positional run agrees with the byte-list
   reading used by all other theorems: it panics exactly when that is None;
   otherwise it returns i + the frame's length whether or not anything could
   be written, keeps the buffer's length, and - if the frame fits - leaves
   the frame at i and every other byte of the buffer untouched. *)
Theorem C10_fill_positional : forall k p buf i,
  match encode_pkt k p with
  | None => pfill_pkt k p buf i = None
  | Some bs => exists buf',
      pfill_pkt k p buf i = Some (buf', (i + length bs)%nat) /\
      length buf' = length buf /\
      ((i + length bs <= length buf)%nat ->
       buf' = firstn i buf ++ bs ++ skipn (i + length bs) buf)
  end.
Proof. exact pfill_pkt_ok. Qed.
Print Assumptions C10_fill_positional.

(* the same for any IR program that never calls rawdata.fillProp *)
Theorem C10_fill_program : forall es p buf i, noraw_list es = true ->
  match run_enc es p with
  | None => pfill es p buf i = None
  | Some bs => exists buf',
      pfill es p buf i = Some (buf', (i + length bs)%nat) /\
      length buf' = length buf /\
      ((i + length bs <= length buf)%nat ->
       buf' = firstn i buf ++ bs ++ skipn (i + length bs) buf)
  end.
Proof. intros es p buf i H. exact (pfill_ok es p buf i H). Qed.
Print Assumptions C10_fill_program.

(* width() = fill(_LEN, 0) is the frame's length, and the second pass fills
   the buffer of that size with exactly the frame *)
Theorem C10_dry_run : forall k p bs, encode_pkt k p = Some bs ->
  pfill_pkt k p [] 0%nat = Some ([], length bs) /\
  pfill_pkt k p (make_buf (length bs)) 0%nat = Some (bs, length bs).
Proof. intros k p bs H. split; [exact (dry_run_width k p bs H)|exact (second_pass k p bs H)]. Qed.
Print Assumptions C10_dry_run.

(* WriteTo as the Go code runs it (two passes, guarded positional writes)
   is WriteTo of the byte-list model, so C10_one_write, C10_undefined,
   C10_total and the theorems of C01/C02 speak about the two-pass code *)
Theorem C10_two_pass : forall k p w, write_to2 k p w = write_to k p w.
Proof. exact two_pass. Qed.
Print Assumptions C10_two_pass.

(* The property in one statement, about the code as it runs (two passes,
   guarded positional writes): for every defined type, packet and writer, if
   WriteTo returns at all (it panics only on a CONNECT whose will flag is set
   without a will, excluded by C10_total), the writer was handed exactly one
   Write, with the bytes [first byte] ++ [minimal variable byte integer of
   the body length] ++ body; the count returned is what the writer reports
   (the whole length on success, the accepted count with the writer's error
   otherwise); and the size String() prints is that length. *)
Theorem C10_whole : forall k p w r, k <> KUndefined -> write_to2 k p w = Some r ->
  exists bs body,
    w_calls r = [bs] /\
    bs = n2b (getN (M F_fixed) p) :: enc_vb (len body) ++ body /\
    pfill_pkt k p [] 0%nat = Some ([], length bs) /\
    match w with
    | Accept => w_n r = length bs /\ w_err r = None
    | FailW e => w_n r = 0%nat /\ w_err r = Some e
    | Short n e => w_n r = Nat.min n (length bs) /\ w_err r = Some e
    end /\
    forall ts, string_toks k p = Some ts -> size_token ts (len bs).
Proof.
  intros k p w r Hk H. rewrite two_pass in H.
  destruct (C10_one_write k p w r Hk H) as (bs & E & Hc & Hw).
  destruct (C10_frame k p bs E) as (body & Hb).
  exists bs, body. split; [exact Hc|]. split; [exact Hb|].
  split; [exact (dry_run_width k p bs E)|]. split; [exact Hw|].
  intros ts Hs. exact (string_size k p bs ts Hk E Hs).
Qed.
Print Assumptions C10_whole.

Example C10_two_pass_example :
  write_to2 KPublish (run_calls KPublish [SetTopicName [x61; x2f; x62]; SetPayload [x68; x69]]) Accept
  = Some {| w_n := 10; w_err := None;
            w_calls := [[x30; x08; x00; x03; x61; x2f; x62; x00; x68; x69]] |}
  /\ pfill_pkt KPingReq (ctor KPingReq) [xaa; xaa; xaa; xaa; xaa] 2
      = Some ([xaa; xaa; xc0; x00; xaa], 4%nat)
  /\ pfill_pkt KPingReq (ctor KPingReq) [xaa; xaa; xaa] 2
      = Some ([xaa; xaa; xc0], 4%nat).
Proof. vm_compute. repeat split. Qed.

Example C10_example :
  write_to KPubAck (run_calls KPubAck [SetPacketID 1]) (Short 3 (EReader 7))
  = Some {| w_n := 3; w_err := Some (EReader 7); w_calls := [[x40; x02; x00; x01]] |}.
Proof. vm_compute. reflexivity. Qed.

(* string_toks is the String method of the source for the fourteen packet
   types whose String is `return [withForm(p, | withReason(p, ]
   fmt.Sprintf(format, args...) [)]`: tools/gosync (acc.go) translates the
   format string and each argument (first byte, flag renderings, fields,
   accessors, the keep-alive duration, the size from the dry run, the reason
   code's name, the filter text) into an item list; the regenerated lists are
   those of Model/StringIR.v (gen/SyncString.v) and their interpretation is
   string_toks (PUBLISH, which builds its topic text first, and Undefined
   remain hand-modelled and fingerprinted). *)
Theorem C10_string_is_the_source : forall k p, string_ir k <> None ->
  run_string_of k p = string_toks k p.
Proof. exact run_string_is_string_toks. Qed.
Print Assumptions C10_string_is_the_source.

(* The functions C10_fill_positional and C10_two_pass are stated on - fill_u8,
   fill_u16, fill_u32, fill_bool, fill_bin, fill_raw, fill_vb, the common
   fillProp, UserProp's two methods, bits.fillOpt and the widths the guards
   use - are not only a hand-written reading of wiretypes.go: tools/gosync
   (wire.go) translates fill, fillProp, fillOpt and width of the nine wire
   types statement by statement (locals i, n, x, encodedByte; guarded stores;
   if/else; the loop of vbint.fill) and regenerates the table on every run;
   it is the table the model holds, and running each statement list - on every
   value, identifier, buffer and position - is the corresponding function of
   Model/Fill.v.  A call of another wire type's fill inside a method is run as
   that type's function, whose own statement list is covered by the same
   theorem. *)
Theorem C10_wire_encoders_are_the_source :
  g_wire_progs = wire_progs /\
  (forall w v id buf i,
     run_fill (prog (go_type w ++ ".fill")) (wenv_of w v id) buf i = wfill w v buf i /\
     run_fill (prog (go_type w ++ ".fillProp")) (wenv_of w v id) buf i = wfill_prop w id v buf i /\
     run_fill (prog (go_type w ++ ".width")) (wenv_of w v id) buf i = Some (buf, e_self_width (wenv_of w v id))) /\
  (forall n id buf i,
     run_fill (prog "Ident.fill") (wenv_of U8 (VN n) id) buf i = fill_u8 n buf i /\
     run_fill (prog "Ident.fillProp") (wenv_of U8 (VN n) id) buf i = Some (buf, 0%nat) /\
     run_fill (prog "Ident.width") (wenv_of U8 (VN n) id) buf i = Some (buf, 1%nat)) /\
  (forall n id buf i, run_fill (prog "bits.fillOpt") (wenv_of U8 (VN n) id) buf i = fill_opt n buf i) /\
  (forall kv id buf i,
     run_fill (prog "UserProp.fill") (env_userprop kv id) buf i = fill_userprop kv buf i /\
     run_fill (prog "UserProp.fillProp") (env_userprop kv id) buf i = fill_userprop_prop id kv buf i /\
     run_fill (prog "UserProp.width") (env_userprop kv id) buf i = Some (buf, width_userprop kv)).
Proof.
  exact (conj sync_wire_progs
        (conj (fun w v id buf i => conj (wire_fill_is_prog w v id buf i)
                                  (conj (wire_fillprop_is_prog w v id buf i) (wire_width_is_prog w v id buf i)))
        (conj ident_is_prog (conj run_bits_fillopt userprop_is_prog)))).
Qed.
Print Assumptions C10_wire_encoders_are_the_source.

(* so for the statement lists themselves: given room, the regenerated
   wuint16.fill ... vbint.fill write exactly the bytes of the byte-list
   encoder at the position and report their number; without room they write
   nothing and still report it *)
Theorem C10_wire_program_writes_encode : forall w v id buf i,
  exists b', run_fill (prog (go_type w ++ ".fill")) (wenv_of w v id) buf i = Some (b', List.length (Wire.encode w v)) /\
             List.length b' = List.length buf /\
             ((i + List.length (Wire.encode w v) <= List.length buf)%nat -> b' = put buf i (Wire.encode w v)).
Proof. intros w v id buf i. rewrite wire_fill_is_prog. exact (wfill_ok w v buf i). Qed.
Print Assumptions C10_wire_program_writes_encode.

(* non-vacuity: the regenerated wuint16.fill on a four-byte buffer at position 1 *)
Example C10_wire_example :
  run_fill (prog "wuint16.fill") (wenv_of U16 (VN 258) 0) [x00; x00; x00; x00] 1 = Some ([x00; x01; "002"%byte; x00], 2%nat)
  /\ run_fill (prog "vbint.fill") (wenv_of Vb (VN 300) 0) [x00; x00; x00] 0 = Some (["172"%byte; "002"%byte; x00], 2%nat)
  /\ run_fill (prog "vbint.fill") (wenv_of Vb (VN 300) 0) [] 0 = Some ([], 2%nat).
Proof. vm_compute. repeat split; reflexivity. Qed.
