(* C10 - WriteTo emits one complete frame and reports its size truthfully. *)
From MQ Require Import Model.Render Proofs.BytesP Proofs.EncP Proofs.RenderP Proofs.TotalP.
From Coq Require Import Strings.String. From Coq Require Import List. Import ListNotations. Open Scope N_scope.

(* the frame: first byte, remaining length, exactly that many bytes *)
Theorem C10_frame : forall k p bs, encode_pkt k p = Some bs ->
  exists body, bs = n2b (getN (M F_fixed) p) :: enc_vb (len body) ++ body.
Proof. exact encode_frame. Qed.
Print Assumptions C10_frame.

(* WriteTo hands the writer exactly one Write with the whole frame and
   returns what the writer returns: the full length and nil, or the
   accepted count and the writer's error. *)
Theorem C10_one_write : forall k p w r, k <> KUndefined -> write_to k p w = Some r ->
  exists bs, encode_pkt k p = Some bs /\ w_calls r = [bs] /\
    match w with
    | Accept => w_n r = length bs /\ w_err r = None
    | FailW e => w_n r = 0%nat /\ w_err r = Some e
    | Short n e => w_n r = Nat.min n (length bs) /\ w_err r = Some e
    end.
Proof.
  intros k p w r Hk. unfold write_to. destruct k; try congruence;
    match goal with |- context [encode_pkt ?k p] => destruct (encode_pkt k p) as [bs|] end;
    try discriminate; intros H; injection H as <-; exists bs; (split; [reflexivity|]);
    destruct w; cbn; auto.
Qed.
Print Assumptions C10_one_write.

(* a packet that cannot be serialised returns an error without emitting bytes *)
Theorem C10_undefined : forall p w,
  write_to KUndefined p w = Some {| w_n := 0; w_err := Some ECannotWrite; w_calls := [] |}.
Proof. reflexivity. Qed.
Print Assumptions C10_undefined.

(* WriteTo does not panic on any packet a program can hold (CONNECT:
   representation invariant Inv, see C19) *)
Theorem C10_total : forall k p w, (k = KConnect -> Inv p) -> write_to k p w <> None.
Proof.
  intros k p w HI. unfold write_to. destruct k; try discriminate;
    match goal with |- context [encode_pkt ?k p] =>
      pose proof (encode_total k p ltac:(discriminate) HI) as H;
      destruct (encode_pkt k p); [discriminate|congruence] end.
Qed.
Print Assumptions C10_total.

(* the size printed by String() as "N bytes" is the frame's length *)
Theorem C10_string_size : forall k p bs ts, k <> KUndefined ->
  encode_pkt k p = Some bs -> string_toks k p = Some ts -> size_token ts (len bs).
Proof. exact string_size. Qed.
Print Assumptions C10_string_size.

Example C10_example :
  write_to KPubAck (run_calls KPubAck [SetPacketID 1]) (Short 3 (EReader 7))
  = Some {| w_n := 3; w_err := Some (EReader 7); w_calls := [[x40; x02; x00; x01]] |}.
Proof. vm_compute. reflexivity. Qed.
