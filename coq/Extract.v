(* Extraction of the executable model to OCaml.  ExtrOcamlBasic only:
   N, positive, Z, nat and byte stay Coq inductives.  Run coqc from the
   directory that is to receive model.ml. *)
From MQ Require Import Model.Render Model.Fill Spec.Mqtt5 Spec.Glue.
From Coq Require Import ZArith.
Require Extraction.
Require Import ExtrOcamlBasic.
Extraction Language OCaml.
Extraction "model.ml"
  b2n n2b N.add N.mul N.div_eucl N.of_nat N.to_nat N.eqb N.ltb Z.of_N Z.opp Z.to_N
  Byte.of_N Byte.to_N
  enc_vb dec_vb width encode decode dec_userprop width_userprop
  vb_stream read_packet write_to write_to2 wfill wfill_prop fill_userprop fill_userprop_prop pfill_pkt run_calls step ctor snapshot wellformed
  encode_pkt unmarshal unmarshal_steps kind_of_nibble kind_nibble applicable zero_pkt
  read_full one string_toks dump_toks first_byte_string connect_flags_string
  connack_flags_string filter_string reason_toks stars
  spec_decode spec_encode frame_obs body_segs e_var e_body prop_type allowed is_bool_prop.
