(* modelrun: reads one case per line on stdin, runs it on the extracted
   Coq model (model.ml) and prints "<case>\t<result>" per line.  The Go
   harness implrun prints the same lines from the real library; the
   check diffs them.  Hand-written glue (trusted): parsing, printing. *)
open Model
module String = Stdlib.String
module List = Stdlib.List
type string = Stdlib.String.t

(* ---------- numbers ---------- *)
let rec pos_of_int n =
  if n = 1 then XH
  else if n land 1 = 0 then XO (pos_of_int (n lsr 1))
  else XI (pos_of_int (n lsr 1))
let n_of_int n = if n <= 0 then N0 else Npos (pos_of_int n)
let rec int_of_pos = function
  | XH -> 1 | XO p -> 2 * int_of_pos p | XI p -> 2 * int_of_pos p + 1
let int_of_n = function N0 -> 0 | Npos p -> int_of_pos p
let rec nat_of_int n = if n <= 0 then O else S (nat_of_int (n - 1))
let int_of_nat n = let rec go acc = function O -> acc | S m -> go (acc + 1) m in go 0 n

let ten = n_of_int 10
let n_of_string s =
  let acc = ref N0 in
  String.iter (fun c ->
      if c < '0' || c > '9' then failwith ("bad number " ^ s);
      acc := N.add (N.mul !acc ten) (n_of_int (Char.code c - 48))) s;
  !acc
let string_of_n n =
  if n = N0 then "0" else begin
    let b = Buffer.create 20 in
    let rec go n acc =
      if n = N0 then acc
      else let (q, r) = N.div_eucl n ten in go q (Char.chr (48 + int_of_n r) :: acc) in
    List.iter (Buffer.add_char b) (go n []);
    Buffer.contents b
  end
let z_of_string s =
  if String.length s > 0 && s.[0] = '-'
  then Z.opp (Z.of_N (n_of_string (String.sub s 1 (String.length s - 1))))
  else Z.of_N (n_of_string s)
let string_of_z = function
  | Z0 -> "0"
  | Zpos p -> string_of_n (Npos p)
  | Zneg p -> "-" ^ string_of_n (Npos p)

(* ---------- bytes ---------- *)
let byte_tab : byte array = Array.init 256 (fun i -> n2b (n_of_int i))
let int_of_byte (b : byte) : int = (Obj.magic b : int)
let () =
  Array.iteri (fun i b ->
      if int_of_n (b2n b) <> i || int_of_byte b <> i then failwith "byte table") byte_tab

let hexdig = "0123456789abcdef"
let hex_of_bytes (l : byte list) : string =
  match l with
  | [] -> "-"
  | _ ->
    let b = Buffer.create 64 in
    List.iter (fun x -> let i = int_of_byte x in
                Buffer.add_char b hexdig.[i lsr 4]; Buffer.add_char b hexdig.[i land 15]) l;
    Buffer.contents b
let hv c = match c with
  | '0'..'9' -> Char.code c - 48
  | 'a'..'f' -> Char.code c - 87
  | _ -> failwith "bad hex"
let bytes_of_hex (s : string) : byte list =
  if s = "-" || s = "" then [] else begin
    let n = String.length s / 2 in
    let rec go i acc = if i < 0 then acc
      else go (i - 1) (byte_tab.(hv s.[2*i] * 16 + hv s.[2*i+1]) :: acc) in
    go (n - 1) []
  end

