(* Generators over the MQTT v5.0 specification model (Spec/Mqtt5.v,
   extracted): valid frames with the values they carry (C03), frames
   that must be rejected (C09). Included by driver.ml. *)
open Model
module String = Stdlib.String
module List = Stdlib.List
type string = Stdlib.String.t
open Conv

let rnd = ref (Random.State.make [|0|])
let pick n = if n <= 0 then 0 else Int64.to_int (Random.State.int64 !rnd (Int64.of_int n))
let chance pct = pick 100 < pct
let pick_l l = List.nth l (pick (List.length l))

let gen_len () =
  let x = pick 1000 in
  if x < 150 then 0 else if x < 300 then 1 else if x < 650 then 2 + pick 9
  else if x < 730 then 127 + pick 2 else if x < 830 then 200 + pick 200
  else if x < 836 then 16383 + pick 2 else if x < 840 then 65534 + pick 2
  else pick 40

(* loose: for the must-reject generator (C09) only - source frames may carry empty topic
   filters (structurally fine, and the library accepts them) and, now and then, a user
   property key of 65534/65535 bytes *)
let loose = ref false

let gen_bytes_n n = List.init n (fun _ -> byte_tab.(pick 256))
(* strings software likes to treat specially *)
let magic = ["$share/"; "$share/g"; "$share/g/t"; "$share"; "$SYS/x"; "MQTT"; "MQIsdp"; "mqtt"; "%u"; "%c"; "a/%u/%c";
             "\xef\xbb\xbf"; "\xef\xbb\xbfbob"; "+"; "#"; "a/+/b"; "a/#"; "/"; "//"; "a/"; "\x00"; "\xc3\xa9";
             "\xef\xbf\xbd"; "sensor/\xef\xbf\xbd/temp"; "\xed\xa0\x80"; "\xf0\x9f\x98\x80"; "\xff\xfe"; "null"; " "; "a b"]
let of_string s = List.init (String.length s) (fun i -> byte_tab.(Char.code s.[i]))
let gen_bytes () = if chance 8 then of_string (pick_l magic) else gen_bytes_n (gen_len ())
let gen_nonempty () =
  if chance 8 then of_string (pick_l magic) else
  let n = gen_len () in gen_bytes_n (if n = 0 then 1 + pick 5 else n)

let gen_num bits =
  match pick 6 with
  | 0 -> 0 | 1 -> 1
  | 2 -> (1 lsl bits) - 1
  | 3 -> (1 lsl (bits / 2)) - 1 + pick 2
  | _ -> pick (1 lsl bits)

let vb_bounds = [1; 127; 128; 16383; 16384; 2097151; 2097152; 268435455]
let gen_subid () = if chance 50 then pick_l vb_bounds else 1 + pick 268435455

let gen_pval id (t : ptype) : pval =
  match t with
  | PTByte -> if is_bool_prop (n_of_int id) then VByte (n_of_int (pick 2))
    else VByte (n_of_int (if id = 36 then pick 2 else gen_num 8))
  | PTTwo -> VTwo (n_of_int (gen_num 16))
  | PTFour -> VFour (n_of_int (gen_num 32))
  | PTVar -> VVar (n_of_int (gen_subid ()))
  | PTStr -> VStr (gen_bytes ())
  | PTBin -> VBinary (gen_bytes ())
  | PTPair ->
    if !loose && chance 4 then VPair (gen_bytes_n (65534 + pick 2), gen_bytes_n (pick 3))
    else VPair (gen_nonempty (), gen_bytes ())

let all_ids = [1;2;3;8;9;11;17;18;19;21;22;23;24;25;26;28;31;33;34;35;36;37;38;39;40;41;42]

let shuffle l =
  let a = Array.of_list l in
  for i = Array.length a - 1 downto 1 do
    let j = pick (i + 1) in let t = a.(i) in a.(i) <- a.(j); a.(j) <- t
  done; Array.to_list a

(* a property list for the given place: random subset, random order,
   zero values transmitted explicitly now and then, repeatable ones repeated *)
let gen_props (where_ : int) : aprop list =
  let ids = List.filter (fun id -> allowed (n_of_int where_) (n_of_int id)) all_ids in
  let pct = pick_l [0; 10; 30; 60; 100] in
  let chosen = List.filter (fun _ -> chance pct) ids in
  let props = List.concat_map (fun id ->
      let t = match prop_type (n_of_int id) with Some t -> t | None -> failwith "type" in
      let reps = if id = 38 || (id = 11 && where_ = 3) then 1 + pick 3 else 1 in
      List.init reps (fun _ -> { ap_id = n_of_int id; ap_val = gen_pval id t })) chosen in
  shuffle props

let gen_frame () : aframe =
  let t = 1 + pick 15 in
  let mk fl b = { af_type = n_of_int t; af_flags = n_of_int fl; af_body = b } in
  match t with
  | 1 ->
    let will = chance 50 in
    let user = chance 50 and pass = chance 50 in
    let wq = if will then pick 3 else 0 and wr = will && chance 50 in
    let flags = (if user then 128 else 0) lor (if pass then 64 else 0) lor (if wr then 32 else 0)
                lor (wq lsl 3) lor (if will then 4 else 0) lor (if chance 50 then 2 else 0) in
    mk 0 (BConnect (n_of_int flags, n_of_int (gen_num 16), gen_props 1, gen_bytes (),
                    (if will then Some { w_props = gen_props 100; w_topic = gen_nonempty (); w_payload = gen_bytes () } else None),
                    (if user then Some (gen_bytes ()) else None),
                    (if pass then Some (gen_bytes ()) else None)))
  | 2 -> mk 0 (BConnack (n_of_int (pick 2), n_of_int (gen_num 8), gen_props 2))
  | 3 ->
    let q = pick 3 in
    let fl = (if chance 30 then 8 else 0) lor (q lsl 1) lor (if chance 50 then 1 else 0) in
    mk fl (BPublish (gen_nonempty (), (if q > 0 then Some (n_of_int (1 + pick 65535)) else None),
                     gen_props 3, gen_bytes ()))
  | 4 | 5 | 6 | 7 ->
    let form = pick_l [2; 3; 4; 4] in
    let rc = if form = 2 then 0 else gen_num 8 in
    mk (if t = 6 then 2 else 0)
      (BAck (n_of_int (1 + pick 65535), n_of_int form, n_of_int rc, (if form = 4 then gen_props t else [])))
  | 8 ->
    let opt () = pick 3 lor (pick 2 lsl 2) lor (pick 2 lsl 3) lor (pick 3 lsl 4) in
    mk 2 (BSubscribe (n_of_int (1 + pick 65535), gen_props 8,
                      List.init (1 + pick 4) (fun _ -> ((if !loose && chance 25 then [] else gen_nonempty ()), n_of_int (opt ())))))
  | 9 | 11 ->
    mk 0 (BSuback (n_of_int (1 + pick 65535), gen_props t,
                   List.init (1 + pick 5) (fun _ -> n_of_int (gen_num 8))))
  | 10 ->
    mk 2 (BUnsubscribe (n_of_int (1 + pick 65535), gen_props 10,
                        List.init (1 + pick 4) (fun _ -> if !loose && chance 25 then [] else gen_nonempty ())))
  | 12 | 13 -> mk 0 BPing
  | 14 ->
    let form = pick 3 in
    mk 0 (BDisc (n_of_int form, n_of_int (if form = 0 then 0 else gen_num 8), (if form = 2 then gen_props 14 else [])))
  | _ ->
    let form = pick_l [0; 2] in
    mk 0 (BDisc (n_of_int form, n_of_int (if form = 0 then 0 else pick_l [0; 24; 25]), (if form = 2 then gen_props 15 else [])))

let frame_too_big (bs : byte list) = List.length bs > 200000

(* ---------- C09: frames that must be rejected ---------- *)
let reframe (b0 : byte) (body : byte list) : byte list =
  b0 :: (e_var (n_of_int (List.length body)) @ body)

let cont5 () = [byte_tab.(128 + pick 128); byte_tab.(128 + pick 128); byte_tab.(128 + pick 128);
                byte_tab.(128 + pick 128); byte_tab.(pick 256)]

let undefined_ids = List.filter (fun i -> not (List.mem i all_ids)) (List.init 256 (fun i -> i))

let rec take n l = if n <= 0 then [] else match l with [] -> [] | x :: r -> x :: take (n - 1) r
let rec drop n l = if n <= 0 then l else match l with [] -> [] | _ :: r -> drop (n - 1) r

let fix_proplen segs i =
  (* recompute the property length segment that governs segment i *)
  let rec find j = if j < 0 then -1 else if fst (List.nth segs j) = 4 then j else find (j - 1) in
  let pl = find (i - 1) in
  if pl < 0 then segs else begin
    let n = List.length segs in
    let rec count j = if pl + 1 + j < n && fst (List.nth segs (pl + 1 + j)) = 5 then count (j + 1) else j in
    let np = count 0 in
    let block = List.filteri (fun j _ -> j > pl && j <= pl + np) segs in
    let plen = List.length (List.concat (List.map snd block)) in
    List.mapi (fun j s -> if j = pl then (4, e_var (n_of_int plen)) else s) segs
  end

(* returns (class, frame) list for one valid frame *)
let reject_variants (f : aframe) : (string * byte list) list =
  let segs = List.map (fun (k, bs) -> (int_of_n k, bs)) (body_segs f.af_body) in
  let b0 = byte_tab.(int_of_n f.af_type * 16 + int_of_n f.af_flags) in
  let out = ref [] in
  let emit c fr = out := (c, fr) :: !out in
  let nsegs = List.length segs in
  let body_of segs = List.concat (List.map snd segs) in
  (* (a) every kind of interior cut; all of them for short frames, a sample otherwise *)
  let pos = ref 0 in
  let body = body_of segs in
  List.iter (fun (k, bs) ->
      let l = List.length bs in
      if (k = 1 || k = 2 || k = 3 || k = 4 || k = 5) && l > 1 then begin
        let offs = if l <= 6 then List.init (l - 1) (fun i -> i + 1) else [1; 2; l / 2; l - 1; 1 + pick (l - 1)] in
        List.iter (fun o -> emit ("cut-" ^ string_of_int k) (reframe b0 (take (!pos + o) body))) offs
      end;
      pos := !pos + l) segs;
  (* (b) a variable byte integer that continues beyond four bytes *)
  emit "vb5-remaining" (b0 :: (cont5 () @ body));
  List.iteri (fun i (k, bs) ->
      if k = 4 then begin
        let segs' = List.mapi (fun j s -> if j = i then (4, cont5 ()) else s) segs in
        emit "vb5-proplen" (reframe b0 (body_of segs'))
      end;
      if k = 5 && int_of_byte (List.hd bs) = 11 then begin
        (* the property length stays as it was: the identifier now spills over it, still invalid *)
        let segs' = List.mapi (fun j s -> if j = i then (5, List.hd bs :: cont5 ()) else s) segs in
        let segs'' = fix_proplen segs' i in
        emit "vb5-subid" (reframe b0 (body_of segs''))
      end) segs;
  (* (c) boolean properties with a value other than 0/1 *)
  List.iteri (fun i (k, bs) ->
      if k = 5 && is_bool_prop (n_of_int (int_of_byte (List.hd bs))) then begin
        let v = 2 + pick 254 in
        let segs' = List.mapi (fun j s -> if j = i then (5, [List.hd bs; byte_tab.(v)]) else s) segs in
        emit "bool" (reframe b0 (body_of segs'))
      end) segs;
  (* (d) an identifier MQTT does not define, after the first j properties of a block *)
  List.iteri (fun i (k, _) ->
      if k = 4 then begin
        (* the properties of this block are the kind-5 segments that follow *)
        let rec count j = if i + 1 + j < nsegs && fst (List.nth segs (i + 1 + j)) = 5 then count (j + 1) else j in
        let np = count 0 in
        let j = pick (np + 1) in
        let u = pick_l undefined_ids in
        let tail = gen_bytes_n (pick 6) in
        let before = take (i + 1) segs and props = take j (drop (i + 1) segs) and after = drop (i + 1 + np) segs in
        let block = props @ [(5, byte_tab.(u) :: tail)] in
        let plen = List.length (body_of block) in
        let before' = take i before @ [(4, e_var (n_of_int plen))] in
        emit "undefined-id" (reframe b0 (body_of (before' @ block @ after)))
      end) segs;
  (* (d') the identifier of an existing property replaced by an undefined one, value kept:
     the high-bit twin of the identifier, and a random undefined one *)
  List.iteri (fun i (k, bs) ->
      if k = 5 then begin
        let id = int_of_byte (List.hd bs) in
        let cands = (if id < 128 then [id lor 128] else []) @ [pick_l undefined_ids] in
        List.iter (fun u ->
            if List.mem u undefined_ids then begin
              let segs' = List.mapi (fun j s -> if j = i then (5, byte_tab.(u) :: List.tl bs) else s) segs in
              emit "undefined-id-replace" (reframe b0 (body_of segs'))
            end) cands
      end) segs;
  ignore nsegs;
  !out

