(* modelrun driver: see conv.ml for the header. *)
open Model
module String = Stdlib.String
module List = Stdlib.List
type string = Stdlib.String.t
open Conv
open Specgen

(* ---------- printing ---------- *)
let err_s = function
  | EMissingData -> "missing" | ESizeExceeded -> "size" | EMalformedBool -> "bool"
  | EUnknownProp id -> "unknownprop:" ^ string_of_n id
  | EEOF -> "eof" | EUnexpectedEOF -> "ueof"
  | EReader t -> "reader:" ^ string_of_n t
  | ECannotWrite -> "cannotwrite"

let rec obs_s = function
  | ON n -> "N" ^ string_of_n n
  | OZ z -> "Z" ^ string_of_z z
  | OB b -> if b then "B1" else "B0"
  | OS s -> "S" ^ hex_of_bytes s
  | OL l -> "L[" ^ String.concat "," (List.map obs_s l) ^ "]"
let snap_s k p = String.concat ";" (List.map obs_s (snapshot k p))

let value_s = function
  | VN n -> "N" ^ string_of_n n
  | VB b -> if b then "B1" else "B0"
  | VS s -> "S" ^ hex_of_bytes s

let enc_s k p =
  match k with
  | KUndefined -> "enc=err:cannotwrite"
  | _ -> (match encode_pkt k p with
      | None -> "enc=panic"
      | Some bs -> "enc=" ^ hex_of_bytes bs)

let wf_s k p =
  match wellformed k p with
  | None -> "wf=ok"
  | Some e -> "wf=" ^ (match e with
      | WFTopicEmpty -> "topic" | WFPacketID -> "pid" | WFQoS -> "qos"
      | WFNoFilters -> "nofilters" | WFSubID -> "subid"
      | WFFilterEmpty -> "fempty" | WFFilterQoS -> "fqos")

(* ---------- parsing ---------- *)
let split c s = String.split_on_char c s
let kind_of_string s = kind_of_nibble (n_of_string s)
let kind_s k = string_of_n (kind_nibble k)

let wt_of_string = function
  | "u8" -> U8 | "u16" -> U16 | "u32" -> U32 | "bool" -> WBool | "bin" -> Bin
  | "raw" -> Raw | "vb" -> Vb | s -> failwith ("wt " ^ s)

let value_of_string s =
  let r = String.sub s 1 (String.length s - 1) in
  match s.[0] with
  | 'N' -> VN (n_of_string r)
  | 'B' -> VB (r = "1")
  | 'S' -> VS (bytes_of_hex r)
  | _ -> failwith "value"

let parse_err s =
  match s with
  | "E" -> EEOF
  | "U" -> EUnexpectedEOF
  | _ when s.[0] = 'R' -> EReader (n_of_string (String.sub s 1 (String.length s - 1)))
  | _ -> failwith ("err " ^ s)

(* script: chunk,chunk,...  chunk = hex | - | hex!E | hex!R7 *)
let parse_script s : script =
  if s = "" || s = "." then [] else
  List.map (fun c ->
      match split '!' c with
      | [h] -> Chunk (bytes_of_hex h, None)
      | [h; e] -> Chunk (bytes_of_hex h, Some (parse_err e))
      | _ -> failwith "chunk") (split ',' s)

let b_of s = (s = "1")

let rec parse_call (t : string) : call =
  let i = try String.index t ':' with Not_found -> String.length t in
  let name = String.sub t 0 i in
  let arg = if i < String.length t then String.sub t (i+1) (String.length t - i - 1) else "" in
  let n () = n_of_string arg and b () = b_of arg and s () = bytes_of_hex arg in
  match name with
  | "SetWill" ->
    (* SetWill:[call;call;...] *)
    let inner = String.sub arg 1 (String.length arg - 2) in
    let cs = if inner = "" then [] else List.map parse_call (split ';' inner) in
    SetWill (run_calls KPublish cs)
  | "SetWillDelayInterval" -> SetWillDelayInterval (n ())
  | "SetCleanStart" -> SetCleanStart (b ())
  | "SetProtocolVersion" -> SetProtocolVersion (n ())
  | "SetProtocolName" -> SetProtocolName (s ())
  | "SetClientID" -> SetClientID (s ())
  | "SetKeepAlive" -> SetKeepAlive (n ())
  | "SetSessionExpiryInterval" -> SetSessionExpiryInterval (n ())
  | "SetReceiveMax" -> SetReceiveMax (n ())
  | "SetMaxPacketSize" -> SetMaxPacketSize (n ())
  | "SetTopicAliasMax" -> SetTopicAliasMax (n ())
  | "SetRequestResponseInfo" -> SetRequestResponseInfo (b ())
  | "SetRequestProblemInfo" -> SetRequestProblemInfo (b ())
  | "SetAuthMethod" -> SetAuthMethod (s ())
  | "SetAuthData" -> SetAuthData (s ())
  | "SetUsername" -> SetUsername (s ())
  | "SetPassword" -> SetPassword (s ())
  | "SetSessionPresent" -> SetSessionPresent (b ())
  | "SetMaxQoS" -> SetMaxQoS (n ())
  | "SetRetainAvailable" -> SetRetainAvailable (b ())
  | "SetAssignedClientID" -> SetAssignedClientID (s ())
  | "SetReasonCode" -> SetReasonCode (n ())
  | "SetReasonString" -> SetReasonString (s ())
  | "SetWildcardSubAvailable" -> SetWildcardSubAvailable (b ())
  | "SetSubIdentifiersAvailable" -> SetSubIdentifiersAvailable (b ())
  | "SetSharedSubAvailable" -> SetSharedSubAvailable (b ())
  | "SetServerKeepAlive" -> SetServerKeepAlive (n ())
  | "SetResponseInformation" -> SetResponseInformation (s ())
  | "SetServerReference" -> SetServerReference (s ())
  | "SetDuplicate" -> SetDuplicate (b ())
  | "SetRetain" -> SetRetain (b ())
  | "SetQoS" -> SetQoS (n ())
  | "SetTopicName" -> SetTopicName (s ())
  | "SetPacketID" -> SetPacketID (n ())
  | "SetPayloadFormat" -> SetPayloadFormat (b ())
  | "SetMessageExpiryInterval" -> SetMessageExpiryInterval (n ())
  | "SetTopicAlias" -> SetTopicAlias (n ())
  | "SetResponseTopic" -> SetResponseTopic (s ())
  | "SetCorrelationData" -> SetCorrelationData (s ())
  | "AddSubscriptionID" -> AddSubscriptionID (n ())
  | "SetContentType" -> SetContentType (s ())
  | "SetPayload" -> SetPayload (s ())
  | "SetSubscriptionID" -> SetSubscriptionID (z_of_string arg)
  | "AddFilter" ->
    (match split ':' arg with
     | [f; o] -> AddFilter (bytes_of_hex f, n_of_string o)
     | _ -> failwith "AddFilter")
  | "AddReasonCode" -> AddReasonCode (n ())
  | "AddUnsubFilter" -> AddUnsubFilter (s ())
  | "AddUserProp" ->
    (match split ':' arg with
     | [k; v] -> AddUserProp (bytes_of_hex k, bytes_of_hex v)
     | _ -> failwith "AddUserProp")
  | _ -> failwith ("call " ^ name)

(* ---------- rendering of tokens (what fmt does with each verb) ---------- *)
let raw (l : byte list) : string =
  let b = Buffer.create 64 in
  List.iter (fun x -> Buffer.add_char b (Char.chr (int_of_byte x))) l; Buffer.contents b

let go_quote (l : byte list) : string =
  let b = Buffer.create 64 in
  Buffer.add_char b '"';
  List.iter (fun x ->
      let c = int_of_byte x in
      match c with
      | 7 -> Buffer.add_string b "\\a" | 8 -> Buffer.add_string b "\\b"
      | 9 -> Buffer.add_string b "\\t" | 10 -> Buffer.add_string b "\\n"
      | 11 -> Buffer.add_string b "\\v" | 12 -> Buffer.add_string b "\\f"
      | 13 -> Buffer.add_string b "\\r"
      | 34 -> Buffer.add_string b "\\\""
      | 92 -> Buffer.add_string b "\\\\"
      | _ when c < 32 || c >= 127 -> Buffer.add_string b (Printf.sprintf "\\x%02x" c)
      | _ -> Buffer.add_char b (Char.chr c)) l;
  Buffer.add_char b '"'; Buffer.contents b

let duration_s (n : n) : string =
  let s = int_of_n n in
  if s = 0 then "0s"
  else if s < 60 then Printf.sprintf "%ds" s
  else if s < 3600 then Printf.sprintf "%dm%ds" (s / 60) (s mod 60)
  else Printf.sprintf "%dh%dm%ds" (s / 3600) (s mod 3600 / 60) (s mod 60)

let tok_s = function
  | TLit s | TStr s -> raw s
  | TNum n -> string_of_n n
  | TInt z -> string_of_z z
  | TBool b -> if b then "true" else "false"
  | TBytes s -> "[" ^ String.concat " " (List.map (fun x -> string_of_int (int_of_byte x)) s) ^ "]"
  | TQuoted s -> go_quote s
  | TDuration n -> duration_s n
  | TNums l -> "[" ^ String.concat " " (List.map string_of_n l) ^ "]"

let hex_of_string (s : string) : string =
  if s = "" then "-" else begin
    let b = Buffer.create (2 * String.length s) in
    String.iter (fun c -> let i = Char.code c in
                  Buffer.add_char b hexdig.[i lsr 4]; Buffer.add_char b hexdig.[i land 15]) s;
    Buffer.contents b
  end

let render_s k p =
  let str = match string_toks k p with
    | None -> "PANIC"
    | Some ts -> hex_of_string (String.concat "" (List.map tok_s ts)) in
  "str=" ^ str ^ " dump=" ^ hex_of_string (String.concat "" (List.map tok_s (dump_toks k p)))

(* ---------- ops ---------- *)
let outcome_s f w = function
  | Ok v -> "OK " ^ f v ^ " w=" ^ string_of_int (w v)
  | Err e -> "ERR " ^ err_s e
  | Panic -> "PANIC"

let trace_s tr = String.concat "," (List.map string_of_n tr)

let pkt_result_s k p = "P" ^ kind_s k ^ " " ^ snap_s k p ^ " " ^ enc_s k p ^ " " ^ wf_s k p

(* successive ReadPacket calls on one stream *)
let read_all (maxcalls : int) (s : script) : string =
  let b = Buffer.create 256 in
  let rec go i s tr got =
    if i >= maxcalls then (tr, got) else
    match read_packet s with
    | RPPanic -> Buffer.add_string b "PANIC | "; (tr, got)
    | RPFuel -> Buffer.add_string b "FUEL | "; (tr, got)
    | RP r ->
      let tr = tr @ r.r_trace and got = got + List.length r.r_got in
      (match r.r_pkt, r.r_err with
       | Some (k, p), None ->
         Buffer.add_string b (pkt_result_s k p); Buffer.add_string b " | ";
         go (i + 1) r.r_rest tr got
       | None, Some e -> Buffer.add_string b ("E" ^ err_s e ^ " | "); (tr, got)
       | Some _, Some _ -> Buffer.add_string b "BOTH | "; (tr, got)
       | None, None -> Buffer.add_string b "NEITHER | "; (tr, got)) in
  let (tr, got) = go 0 s [] 0 in
  Buffer.add_string b ("trace=" ^ trace_s tr ^ " consumed=" ^ string_of_int got);
  Buffer.contents b

let parse_wscript s =
  match s.[0] with
  | 'A' -> Accept
  | 'F' -> FailW (EReader (n_of_string (String.sub s 1 (String.length s - 1))))
  | 'S' -> (match split ':' (String.sub s 1 (String.length s - 1)) with
      | [k; t] -> Short (nat_of_int (int_of_string k), EReader (n_of_string t))
      | _ -> failwith "wscript")
  | _ -> failwith "wscript"

let patbuf n = List.init n (fun _ -> byte_tab.(0xaa))
let fres_s = function
  | None -> "PANIC"
  | Some (b, n) -> hex_of_bytes b ^ " ret=" ^ string_of_int (int_of_nat n)

let run_case (line : string) : string =
  match split ' ' line with
  | ["VBENC"; n] ->
    let bs = enc_vb (n_of_string n) in
    hex_of_bytes bs ^ " w=" ^ string_of_int (List.length bs)
  | ["VBDEC"; h] ->
    outcome_s string_of_n (fun v -> int_of_nat (width Vb (VN v))) (dec_vb (bytes_of_hex h))
  | ["VBSTR"; sc] ->
    (match vb_stream (parse_script sc) with
     | None -> "FUEL"
     | Some (((o, _), _), got) ->
       (match o with
        | Ok v -> "OK " ^ string_of_n v
        | Err e -> "ERR " ^ err_s e
        | Panic -> "PANIC") ^ " consumed=" ^ string_of_int (List.length got))
  | ["WDEC"; w; old; h] ->
    let w = wt_of_string w in
    outcome_s value_s (fun v -> int_of_nat (width w v))
      (decode w (value_of_string old) (bytes_of_hex h))
  | ["UPDEC"; h] ->
    outcome_s (fun (k, v) -> "S" ^ hex_of_bytes k ^ ":S" ^ hex_of_bytes v)
      (fun kv -> int_of_nat (width_userprop kv)) (dec_userprop (bytes_of_hex h))
  | ["WENC"; w; v] ->
    let bs = encode (wt_of_string w) (value_of_string v) in
    hex_of_bytes bs ^ " w=" ^ string_of_int (List.length bs)
  | ["WFILL"; w; v; bl; i] ->
    fres_s (wfill (wt_of_string w) (value_of_string v) (patbuf (int_of_string bl)) (nat_of_int (int_of_string i)))
  | ["WFILLP"; w; v; id; bl; i] ->
    fres_s (wfill_prop (wt_of_string w) (n_of_string id) (value_of_string v)
              (patbuf (int_of_string bl)) (nat_of_int (int_of_string i)))
  | ["UPFILL"; k; v; prop; bl; i] ->
    let kv = (bytes_of_hex k, bytes_of_hex v) in
    let buf = patbuf (int_of_string bl) and i = nat_of_int (int_of_string i) in
    fres_s (if prop = "1" then fill_userprop_prop (n_of_int 38) kv buf i else fill_userprop kv buf i)
  | "PFILL" :: k :: bl :: i :: calls ->
    let k = kind_of_string k in
    let p = List.fold_left (fun p t -> step (parse_call t) p) (ctor k) calls in
    if k = KUndefined then "NOFILL" else
    fres_s (pfill_pkt k p (patbuf (int_of_string bl)) (nat_of_int (int_of_string i)))
  | ["R"; m; sc] -> read_all (int_of_string m) (parse_script sc)
  | ["U"; k; init; h] ->
    let k = kind_of_string k in
    let p0 = if init = "c" then ctor k else zero_pkt in
    (match unmarshal k p0 (bytes_of_hex h) with
     | UOk p -> "OK " ^ snap_s k p ^ " " ^ enc_s k p
     | UErr (e, _) -> "ERR " ^ err_s e
     | UPanic -> "PANIC"
     | UFuel -> "FUEL")
  | "H" :: k :: calls ->
    let k = kind_of_string k in
    let b = Buffer.create 256 in
    let p = List.fold_left (fun p t ->
        let c = parse_call t in
        if not (applicable k c) then failwith ("not applicable: " ^ t);
        let p' = step c p in
        Buffer.add_string b (snap_s k p'); Buffer.add_string b " | "; p') (ctor k) calls in
    Buffer.add_string b (enc_s k p); Buffer.add_string b " "; Buffer.add_string b (wf_s k p);
    Buffer.contents b
  | "S" :: k :: calls ->
    let k = kind_of_string k in
    let p = List.fold_left (fun p t -> step (parse_call t) p) (ctor k) calls in
    render_s k p
  | ["SR"; h] ->
    (match read_packet (one (bytes_of_hex h)) with
     | RP r -> (match r.r_pkt with
         | Some (k, p) -> "P" ^ kind_s k ^ " " ^ render_s k p
         | None -> "ERR")
     | _ -> "PANIC")
  | ["SZ"; k] -> let k = kind_of_string k in render_s k zero_pkt
  | ["FB"; n] -> hex_of_bytes (first_byte_string (n_of_string n))
  | ["CF"; n] -> hex_of_bytes (connect_flags_string (n_of_string n))
  | ["CAF"; n] -> hex_of_bytes (connack_flags_string (n_of_string n))
  | ["FO"; n] -> hex_of_bytes (filter_string ([], n_of_string n))
  | ["RC"; n] -> hex_of_string (String.concat "" (List.map tok_s (reason_toks (n_of_string n))))
  | ["J"; h; snap] ->
    (* judge a frame written by the library against the specification *)
    (match spec_decode (bytes_of_hex h) with
     | None -> "REJECTED"
     | Some f ->
       let got = String.concat ";" (List.map obs_s (frame_obs f)) in
       if got = snap || (got = "" && snap = ".") then "OK" else "VALUES spec=" ^ got)
  | ["SD"; h] ->
    (match spec_decode (bytes_of_hex h) with
     | None -> "REJECTED"
     | Some f -> "P" ^ string_of_n f.af_type ^ " " ^ String.concat ";" (List.map obs_s (frame_obs f)))
  | "W" :: k :: ws :: calls ->
    let k = kind_of_string k in
    let p = List.fold_left (fun p t -> step (parse_call t) p) (ctor k) calls in
    let ws = parse_wscript ws in
    if write_to2 k p ws <> write_to k p ws then "DRIVER-ERROR two-pass model differs from byte-list model" else
    (match write_to2 k p ws with
     | None -> "PANIC"
     | Some r ->
       "n=" ^ string_of_int (int_of_nat r.w_n) ^ " err=" ^
       (match r.w_err with None -> "nil" | Some e -> err_s e) ^ " calls=" ^
       String.concat "," (List.map hex_of_bytes r.w_calls))
  | _ -> failwith ("unknown case: " ^ line)

let gen03 seed n =
  rnd := Random.State.make [|seed|];
  let cnt = ref 0 in
  while !cnt < n do
    let f = gen_frame () in
    let bs = spec_encode f in
    if not (frame_too_big bs) then begin
      incr cnt;
      (* the specification's own decoder must read back what the encoder wrote *)
      let ok = match spec_decode bs with Some f' -> f' = f | None -> false in
      let has_disc_prop = int_of_n f.af_type = 14 && (match f.af_body with
          | BDisc (_, _, ps) -> List.exists (fun p -> let i = int_of_n p.ap_id in i = 17 || i = 28 || i = 31) ps
          | _ -> false) in
      Printf.printf "V %s %s %s %s\n" (hex_of_bytes bs)
        (let s = String.concat ";" (List.map obs_s (frame_obs f)) in if s = "" then "." else s)
        (if ok then "selfcheck-ok" else "SELFCHECK-FAILED")
        (if has_disc_prop then "disc-props" else "-")
    end
  done

let gen09 seed n =
  rnd := Random.State.make [|seed|];
  loose := true;
  let cnt = ref 0 in
  let big = ref 0 in
  while !cnt < n do
    let f = gen_frame () in
    let bs = spec_encode f in
    let l = List.length bs in
    if l < 3000 || (l < 140000 && !big < 12 && (incr big; true)) then begin
      List.iter (fun (c, fr) ->
          incr cnt;
          (* the strict decoder must reject it too, else the variant is not a must-reject frame *)
          let sr = match spec_decode fr with None -> "spec-rejects" | Some _ -> "SPEC-ACCEPTS" in
          Printf.printf "X %s %s %s\n" c (hex_of_bytes fr) sr) (reject_variants f)
    end
  done

let () =
  if Array.length Sys.argv >= 4 && Sys.argv.(1) = "gen03" then
    gen03 (int_of_string Sys.argv.(2)) (int_of_string Sys.argv.(3))
  else if Array.length Sys.argv >= 4 && Sys.argv.(1) = "gen09" then
    gen09 (int_of_string Sys.argv.(2)) (int_of_string Sys.argv.(3))
  else
  try
    while true do
      let line = input_line stdin in
      if line <> "" then begin
        let r = try run_case line with Failure m -> "DRIVER-ERROR " ^ m
                                     | Stack_overflow -> "DRIVER-ERROR stack" in
        print_string line; print_char '\t'; print_endline r
      end
    done
  with End_of_file -> ()
