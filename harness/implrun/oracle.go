package main

// Direct property oracles: the property is evaluated on the real
// library without the Coq model. Output:
//   FAIL\t<key>\t<case>\t<detail>   a failing input (key names the class)
//   STAT\t<name>\t<json>            coverage facts for the evidence file

import (
	"bufio"
	"bytes"
	"encoding/json"
	"errors"
	"fmt"
	"hash"
	"hash/adler32"
	"hash/crc32"
	"hash/fnv"
	"io"
	"os"
	"os/exec"
	"sort"
	"strconv"
	"strings"
	"sync"
	"testing/iotest"
	"time"

	"github.com/gregoryv/mq"
)

type report struct {
	mu      sync.Mutex
	fails   int
	evals   int
	nontriv map[string]struct{}
	ntCount int
	samples []interface{}
	dist    map[string]int
}

func newReport() *report {
	return &report{nontriv: map[string]struct{}{}, dist: map[string]int{}}
}

func (r *report) fail(key, c, detail string) {
	r.mu.Lock()
	defer r.mu.Unlock()
	r.fails++
	if r.fails <= 40 {
		if len(c) > 4000 {
			c = c[:4000] + "..."
		}
		fmt.Printf("FAIL\t%s\t%s\t%s\n", key, c, detail)
	}
}

// eval counts one evaluated case; if nontrivial, it is counted once per distinct id.
func (r *report) eval(class string, nontrivial bool, id string) {
	r.mu.Lock()
	defer r.mu.Unlock()
	r.evals++
	r.dist[class]++
	if nontrivial {
		if len(r.nontriv) < 2000000 {
			if _, ok := r.nontriv[id]; !ok {
				r.nontriv[id] = struct{}{}
				r.ntCount++
			}
		}
	}
}

// evalN counts n distinct non-trivial cases that are distinct by construction (exhaustive sweeps).
func (r *report) evalN(class string, n, nontrivial int) {
	r.mu.Lock()
	defer r.mu.Unlock()
	r.evals += n
	r.dist[class] += n
	r.ntCount += nontrivial
}

func (r *report) sample(v interface{}) {
	r.mu.Lock()
	defer r.mu.Unlock()
	if len(r.samples) < 6 {
		r.samples = append(r.samples, v)
	}
}

func (r *report) finish() int {
	stat("evaluations", r.evals)
	stat("distinct_nontrivial", r.ntCount)
	stat("distribution", r.dist)
	stat("samples", r.samples)
	stat("failures", r.fails)
	if r.fails > 0 {
		return 1
	}
	return 0
}

func stat(name string, v interface{}) {
	b, _ := json.Marshal(v)
	fmt.Printf("STAT\t%s\t%s\n", name, b)
}

func oracle(prop string, seed int64, n int, args []string) int {
	r := newReport()
	single := ""
	for i := 0; i+1 < len(args); i++ {
		if args[i] == "--case" {
			single = args[i+1]
		}
		if args[i] == "--casefile" {
			if b, err := os.ReadFile(args[i+1]); err == nil {
				single = strings.TrimSpace(string(b))
			}
		}
	}
	f, ok := oracles[prop]
	if !ok {
		fmt.Fprintln(os.Stderr, "no oracle for", prop)
		return 2
	}
	curReport = r
	// overall deadline: an oracle that stops making progress is itself a finding
	go func() {
		time.Sleep(40 * time.Minute)
		r.fail("oracle-deadline", prop, "the oracle did not finish within 40 minutes")
		r.finish()
		os.Exit(1)
	}()
	f(r, newG(seed), n, single)
	return r.finish()
}

var oracles = map[string]func(r *report, g *G, n int, single string){
	"C15": oracleC15,
}

func sortedKeys(m map[string]int) []string {
	var ks []string
	for k := range m {
		ks = append(ks, k)
	}
	sort.Strings(ks)
	return ks
}

// ---------------------------------------------------------------- C15

// refVbLen is MQTT 1.5.5 table 1-1, written from the specification.
func refVbLen(v uint64) int {
	switch {
	case v <= 127:
		return 1
	case v <= 16383:
		return 2
	case v <= 2097151:
		return 3
	default:
		return 4
	}
}

func checkVbValue(r *report, v uint64) {
	c := "VBENC " + strconv.FormatUint(v, 10)
	w := mq.VerifVbintWidth(uint(v))
	buf, ret := mq.VerifVbintFill(uint(v), w, 0)
	want := refVbLen(v)
	if w != want || ret != want || len(buf) != want {
		r.fail("vb-length", c, fmt.Sprintf("width=%d ret=%d want=%d", w, ret, want))
		return
	}
	// seven bits per byte, least significant first, continuation on all but the last
	var val uint64
	for i, b := range buf {
		val |= uint64(b&127) << (7 * uint(i))
		if (b&128 != 0) != (i < len(buf)-1) {
			r.fail("vb-continuation", c, hexs(buf))
			return
		}
	}
	if val != v {
		r.fail("vb-value", c, hexs(buf))
		return
	}
	got, adv, err := mq.VerifVbintUnmarshal(buf)
	if err != nil || uint64(got) != v || adv != want {
		r.fail("vb-mem-decode", c, fmt.Sprintf("%v %d %v", got, adv, err))
		return
	}
	sr := &scriptReader{chunks: []chunk{{bs: append(buf, 0x55)}}}
	got2, n2, err := mq.VerifVbintReadFrom(sr)
	if err != nil || uint64(got2) != v || int(n2) != want || sr.got != want {
		r.fail("vb-stream-decode", c, fmt.Sprintf("%v %d %v", got2, n2, err))
	}
}

func checkVbBytes(r *report, bs []byte) {
	c := "VBDEC " + hexs(bs)
	v1, _, e1 := mq.VerifVbintUnmarshal(bs)
	sr := &scriptReader{chunks: []chunk{{bs: append([]byte{}, bs...)}}}
	v2, n2, e2 := mq.VerifVbintReadFrom(sr)
	if (e1 == nil) != (e2 == nil) {
		r.fail("vb-decoders-disagree", c, fmt.Sprintf("mem: %v %v stream: %v %v", v1, e1, v2, e2))
		return
	}
	if e1 == nil && v1 != v2 {
		r.fail("vb-decoders-disagree", c, fmt.Sprintf("mem: %v stream: %v", v1, v2))
		return
	}
	// independent reading: first byte without continuation within the first four
	term := -1
	for i := 0; i < len(bs) && i < 4; i++ {
		if bs[i]&128 == 0 {
			term = i
			break
		}
	}
	if term < 0 && e1 == nil {
		r.fail("vb-accepts-unterminated", c, fmt.Sprintf("value %v", v1))
		return
	}
	if term >= 0 {
		var val uint
		for i := 0; i <= term; i++ {
			val |= uint(bs[i]&127) << (7 * uint(i))
		}
		if e1 != nil || v1 != val || int(n2) != term+1 {
			r.fail("vb-rejects-or-misreads", c, fmt.Sprintf("want %v got mem %v %v stream %v n=%d", val, v1, e1, v2, n2))
		}
	}
}

// vbCallSites: bs is an unterminated variable byte integer (continuation bytes only); frames of
// every type that end inside it - as property length, or as a subscription identifier that is
// the last thing in the frame - must be rejected by ReadPacket.
func vbCallSites(r *report, bs []byte) {
	heads := [][]byte{
		{0x20, 0, 0x00, 0x00},       // CONNACK flags, reason code
		{0x40, 0, 0x00, 0x01, 0x00}, // PUBACK id, reason code
		{0x50, 0, 0x00, 0x01, 0x10},
		{0x62, 0, 0x00, 0x01, 0x00},
		{0x70, 0, 0x00, 0x01, 0x00},
		{0x82, 0, 0x00, 0x01},      // SUBSCRIBE id
		{0x90, 0, 0x00, 0x01},      // SUBACK id
		{0xa2, 0, 0x00, 0x01},      // UNSUBSCRIBE id
		{0xb0, 0, 0x00, 0x01},      // UNSUBACK id
		{0xe0, 0, 0x00},            // DISCONNECT reason code
		{0xf0, 0, 0x18},            // AUTH reason code
		{0x30, 0, 0x00, 0x01, 't'}, // PUBLISH topic
		{0x10, 0, 0x00, 0x04, 'M', 'Q', 'T', 'T', 0x05, 0x00, 0, 0}, // CONNECT up to keep alive
	}
	for _, h := range heads {
		f := append(append([]byte{}, h...), bs...)
		f[1] = byte(len(f) - 2)
		if o := readOnce(oneChunk(f)); o.kind >= 0 || o.panic {
			r.fail("vb-accepts-unterminated", "R 1 "+hexs(f), "a frame that ends inside its property length ("+hexs(bs)+") was taken: "+trunc(o.verdict()))
		}
		r.eval("call-site-unterminated", true, hexs(f))
	}
	// subscription identifier as the last property: the property length is exact, the identifier is cut
	for _, h := range [][]byte{{0x82, 0, 0x00, 0x01}, {0x30, 0, 0x00, 0x01, 't'}} {
		f := append(append([]byte{}, h...), byte(1+len(bs)), 0x0b)
		f = append(f, bs...)
		f[1] = byte(len(f) - 2)
		if o := readOnce(oneChunk(f)); o.kind >= 0 || o.panic {
			r.fail("vb-accepts-unterminated", "R 1 "+hexs(f), "a frame that ends inside a subscription identifier ("+hexs(bs)+") was taken: "+trunc(o.verdict()))
		}
		r.eval("call-site-unterminated", true, hexs(f))
	}
}

func oracleC15(r *report, g *G, n int, single string) {
	if single != "" {
		f := splitWS(single)
		if len(f) == 2 && f[0] == "VBENC" {
			v, _ := strconv.ParseUint(f[1], 10, 64)
			if v < 1<<28 {
				checkVbValue(r, v)
			}
		}
		if len(f) == 2 && (f[0] == "VBDEC" || f[0] == "VBSTR") {
			checkVbBytes(r, unhex(firstChunk(f[1])))
		}
		if len(f) >= 2 && f[0] == "H" {
			k, _ := strconv.Atoi(f[1])
			roundTrip(r, k, f[2:])
		}
		if len(f) == 3 && f[0] == "R" {
			// a frame that ends inside a variable byte integer
			fr := unhex(firstChunk(f[2]))
			if o := readOnce(oneChunk(fr)); len(fr) > 0 && fr[len(fr)-1]&128 != 0 && (o.kind >= 0 || o.panic) {
				r.fail("vb-accepts-unterminated", single, "taken: "+trunc(o.verdict()))
			}
		}
		return
	}
	if n == 0 {
		// all 2^28 values, 16 shards
		var wg sync.WaitGroup
		const shards = 16
		per := uint64(1<<28) / shards
		for s := uint64(0); s < shards; s++ {
			wg.Add(1)
			go func(lo, hi uint64) {
				defer wg.Done()
				for v := lo; v < hi; v++ {
					checkVbValue(r, v)
				}
			}(s*per, (s+1)*per)
		}
		wg.Wait()
		r.evalN("value", 1<<28, 1<<28-128)
		r.mu.Lock()
		r.dist["exhaustive_values"] = 1
		r.mu.Unlock()
	} else {
		for _, v := range vbBoundaries {
			for d := -2; d <= 2; d++ {
				x := int64(v) + int64(d)
				if x >= 0 && x < 1<<28 {
					checkVbValue(r, uint64(x))
					r.eval("boundary", x > 127, "v"+strconv.FormatInt(x, 10))
				}
			}
		}
		for i := 0; i < n; i++ {
			var v uint64
			switch g.pick(4) {
			case 0:
				v = uint64(g.pick(128))
			case 1:
				v = 128 + uint64(g.pick(16384-128))
			case 2:
				v = 16384 + uint64(g.pick(2097152-16384))
			default:
				v = 2097152 + uint64(g.pick(268435456-2097152))
			}
			checkVbValue(r, v)
			r.eval("len"+strconv.Itoa(refVbLen(v)), v > 127, "v"+strconv.FormatUint(v, 10))
		}
	}
	r.sample(map[string]interface{}{"value": 268435455, "encoded": hexs(vbEnc(268435455))})
	// byte strings: all of length <= 2 (quick) / <= 3 (thorough)
	checkVbBytes(r, nil)
	for a := 0; a < 256; a++ {
		checkVbBytes(r, []byte{byte(a)})
		for b := 0; b < 256; b++ {
			checkVbBytes(r, []byte{byte(a), byte(b)})
			if n == 0 {
				for c := 0; c < 256; c++ {
					checkVbBytes(r, []byte{byte(a), byte(b), byte(c)})
				}
			}
		}
	}
	if n == 0 {
		r.evalN("bytes<=3", 1+256+65536+16777216, 128+32768+16777216)
		// all 4-byte strings whose first three bytes carry the continuation bit,
		// and all-continuation 4-byte prefixes x 256 fifth bytes
		for a := 128; a < 256; a++ {
			for b := 128; b < 256; b++ {
				for c := 128; c < 256; c++ {
					for d := 0; d < 256; d++ {
						checkVbBytes(r, []byte{byte(a), byte(b), byte(c), byte(d)})
					}
				}
			}
		}
		r.evalN("bytes4-cont3", 128*128*128*256, 128*128*128*256)
		for i := 0; i < 2000000; i++ {
			bs := []byte{byte(128 + g.pick(128)), byte(128 + g.pick(128)), byte(128 + g.pick(128)), byte(128 + g.pick(128)), byte(g.pick(256))}
			checkVbBytes(r, bs)
		}
		r.evalN("bytes5-cont4-sampled", 2000000, 0)
	} else {
		r.evalN("bytes<=2", 1+256+65536, 128+32768)
		for i := 0; i < 50000; i++ {
			l := 3 + g.pick(3)
			bs := make([]byte, l)
			for j := range bs {
				bs[j] = byte(g.pick(256))
				if j < l-1 || g.chance(50) {
					bs[j] |= 128
				}
			}
			if g.chance(20) {
				bs[g.pick(l)] &= 127
			}
			checkVbBytes(r, bs)
			r.eval("bytes3-5", true, hexs(bs))
		}
	}
	for l := 5; l <= 12; l++ {
		for _, fill := range []byte{0x80, 0xff} {
			for _, last := range []byte{0x00, 0x7f, 0x80} {
				bs := append(bytesRepeat(fill, l-1), last)
				checkVbBytes(r, bs)
				r.eval("long-continuation", true, hexs(bs))
			}
		}
	}
	// decoding into a receiver that already holds a value gives the decoded value, not a mixture
	for _, v := range vbBoundaries {
		for _, old := range []uint64{5, 128, 268435455} {
			got, _, err := mq.VerifWireDecode(mq.VerifVb, mq.VerifValue{N: old}, vbEnc(v))
			if err != nil || got.N != v {
				r.fail("vb-receiver-state", fmt.Sprintf("WDEC vb N%d %s", old, hexs(vbEnc(v))), fmt.Sprintf("decoded %d err %v, want %d", got.N, err, v))
			}
			r.eval("receiver", true, fmt.Sprintf("%d/%d", old, v))
		}
	}
	r.sample(map[string]interface{}{"bytes": "ffffffff01", "expect": "rejected by both decoders"})
	// cross-check through the public API
	for _, v := range vbBoundaries {
		if v == 0 {
			continue
		}
		p := mq.NewSubscribe()
		p.SetSubscriptionID(int(v))
		p.AddFilters(mq.NewTopicFilter("a", 0))
		q, err := mq.ReadPacket(&scriptReader{chunks: []chunk{{bs: frameOf(p)}}})
		if err != nil {
			r.fail("vb-api-roundtrip", "SetSubscriptionID "+strconv.FormatUint(v, 10), err.Error())
			continue
		}
		if got := q.(*mq.Subscribe).SubscriptionID(); got != int(v) {
			r.fail("vb-api-roundtrip", "SetSubscriptionID "+strconv.FormatUint(v, 10), strconv.Itoa(got))
		}
		r.eval("api", true, "api"+strconv.FormatUint(v, 10))
	}
	// a remaining length of five bytes through ReadPacket, whatever the fifth byte and the groups say
	for _, b0 := range []byte{0xc0, 0xd0, 0x30, 0x40, 0xe0, 0x00} {
		for _, grp := range [][]byte{{0x80, 0x80, 0x80, 0x80}, {0x83, 0x80, 0x80, 0x80}, {0xff, 0xff, 0xff, 0xff}, {0x80, 0x80, 0x80, 0xff}} {
			for _, last := range []byte{0x00, 0x01, 0x7f, 0x80} {
				f := append(append([]byte{b0}, grp...), last)
				f = append(f, 0, 1, 't', 0, 0, 0, 0, 0)
				rd := oneChunk(f)
				if o := readOnce(rd); o.kind >= 0 || rd.got > 6 {
					r.fail("vb-stream-five-bytes", "R 1 "+hexs(f), fmt.Sprintf("a five-byte remaining length was taken: %s after %d bytes", trunc(o.verdict()), rd.got))
				}
				r.eval("packet-level-five-bytes", true, hexs(f))
			}
		}
	}
	// a frame that ends on a continuation byte of its property length or of a subscription
	// identifier is rejected, whatever bits the continuation bytes carry (all zero included):
	// every packet type with a property section, one to four continuation bytes
	var conts [][]byte
	for l := 1; l <= 4; l++ {
		for _, pat := range [][]byte{{0x80, 0x80, 0x80, 0x80}, {0x81, 0x80, 0x80, 0x80}, {0x80, 0x80, 0x80, 0x81}, {0xff, 0xff, 0xff, 0xff}, {0x80, 0xff, 0x80, 0xff}} {
			conts = append(conts, append([]byte{}, pat[4-l:]...))
		}
	}
	for _, bs := range conts {
		vbCallSites(r, bs)
	}
	// the property length and the subscription identifiers at their call sites: packets whose
	// property section is exactly 126..129, 255..257, 383..385, 512, 16383..16385 bytes long,
	// every type; PUBLISH with one and several subscription identifiers at every boundary
	for _, bc := range propBoundaryCases(g) {
		roundTrip(r, bc.k, bc.cs)
	}
	for _, v := range vbBoundaries {
		if v == 0 {
			continue
		}
		vs := strconv.FormatUint(v, 10)
		roundTrip(r, 3, []string{"SetTopicName:74", "AddSubscriptionID:" + vs})
		roundTrip(r, 3, []string{"SetTopicName:74", "AddSubscriptionID:1", "AddSubscriptionID:" + vs, "AddSubscriptionID:127", "SetPayload:7061"})
		roundTrip(r, 8, []string{"SetPacketID:3", "SetSubscriptionID:" + vs, "AddFilter:61:1", "AddUserProp:6b:76"})
	}
	// remaining lengths at the boundaries, through ReadPacket
	for _, bc := range boundaryCases(g) {
		roundTrip(r, bc.k, bc.cs)
	}
}

func splitWS(s string) []string {
	var out []string
	cur := ""
	for _, c := range s {
		if c == ' ' {
			if cur != "" {
				out = append(out, cur)
			}
			cur = ""
		} else {
			cur += string(c)
		}
	}
	if cur != "" {
		out = append(out, cur)
	}
	return out
}

func firstChunk(sc string) string {
	b := []byte{}
	for _, c := range parseScript(sc).chunks {
		b = append(b, c.bs...)
	}
	return hexs(b)
}

// ---------------------------------------------------------------- shared helpers

type readOutcome struct {
	kind  int    // -1 if no packet
	snap  string // snapshot of the packet
	enc   string
	err   string // class, "nil" if none
	panic bool
	both  bool
	none  bool
	got   int
	trace []int
	p     mq.Packet
	e     error
}

func (o readOutcome) verdict() string {
	switch {
	case o.panic:
		return "PANIC"
	case o.both:
		return "BOTH"
	case o.none:
		return "NEITHER"
	case o.kind >= 0:
		return "P" + strconv.Itoa(o.kind) + " " + o.snap + " " + o.enc
	}
	return "E" + o.err
}

// readOnce runs ReadPacket under a watchdog: a call that does not return ends the
// whole oracle run with a failing input (the stuck goroutine cannot be stopped).
func readOnce(r *scriptReader) (o readOutcome) {
	var in []byte
	for _, c := range r.chunks {
		in = append(in, c.bs...)
	}
	done := make(chan readOutcome, 1)
	go func() { done <- readOnceRaw(r) }()
	select {
	case o = <-done:
		return o
	case <-time.After(caseTimeout):
		if curReport != nil {
			curReport.fail("decode-timeout", "R 1 "+hexs(in), "ReadPacket did not return within the watchdog limit")
			curReport.finish()
		}
		os.Exit(1)
	}
	return
}

var curReport *report

func readOnceRaw(r *scriptReader) (o readOutcome) {
	o.kind = -1
	defer func() {
		if e := recover(); e != nil {
			o.panic = true
		}
		o.got = r.got
		o.trace = r.trace
	}()
	p, err := mq.ReadPacket(r)
	o.p, o.e = p, err
	switch {
	case typedNil(p):
		o.both = err != nil
		o.none = err == nil
		o.p = nil
	case !isNilPacket(p) && err == nil:
		o.kind = kindOf(p)
		o.snap = snapshot(p)
		o.enc = encS(p)
		o.err = "nil"
	case isNilPacket(p) && err != nil:
		o.err = errClass(err)
	case !isNilPacket(p) && err != nil:
		o.both = true
	default:
		o.none = true
	}
	return
}

// ---- readers of the standard library: the same bytes through the reader types a
// program is likely to hand to ReadPacket (a decoder may special-case a dynamic type)
type namedReader struct {
	name string
	r    io.Reader
}

type onlyReader struct{ r io.Reader } // hides every method but Read

func (o onlyReader) Read(p []byte) (int, error) { return o.r.Read(p) }

func nativeReaders(b []byte) []namedReader {
	c := func() []byte { return append([]byte{}, b...) }
	return []namedReader{
		{"bytes.Buffer", bytes.NewBuffer(c())},
		{"bytes.Reader", bytes.NewReader(c())},
		{"strings.Reader", strings.NewReader(string(b))},
		{"bufio.Reader16", bufio.NewReaderSize(bytes.NewReader(c()), 16)},
		{"bufio.Reader4096", bufio.NewReader(bytes.NewReader(c()))},
		{"iotest.OneByte", iotest.OneByteReader(bytes.NewReader(c()))},
		{"iotest.Half", iotest.HalfReader(bytes.NewReader(c()))},
		{"iotest.DataErr", iotest.DataErrReader(bytes.NewReader(c()))},
		{"io.MultiReader", io.MultiReader(bytes.NewReader(c()[:len(b)/2]), bytes.NewBuffer(c()[len(b)/2:]))},
		{"io.LimitReader", io.LimitReader(bytes.NewBuffer(append(c(), 0xff, 0xff, 0xff)), int64(len(b)))},
		{"onlyRead(bytes.Buffer)", onlyReader{bytes.NewBuffer(c())}},
	}
}

// readNative runs ReadPacket on an arbitrary reader under the watchdog.
func readNative(rd io.Reader, in []byte) (o readOutcome) {
	done := make(chan readOutcome, 1)
	go func() {
		var o readOutcome
		o.kind = -1
		defer func() {
			if e := recover(); e != nil {
				o.panic = true
			}
			done <- o
		}()
		p, err := mq.ReadPacket(rd)
		o.p, o.e = p, err
		switch {
		case typedNil(p):
			o.both = err != nil
			o.none = err == nil
			o.p = nil
		case !isNilPacket(p) && err == nil:
			o.kind = kindOf(p)
			o.snap = snapshot(p)
			o.enc = encS(p)
			o.err = "nil"
		case isNilPacket(p) && err != nil:
			o.err = errClass(err)
		case !isNilPacket(p) && err != nil:
			o.both = true
		default:
			o.none = true
		}
	}()
	select {
	case o = <-done:
		return o
	case <-time.After(caseTimeout):
		if curReport != nil {
			curReport.fail("decode-timeout", "R 1 "+hexs(in), "ReadPacket did not return within the watchdog limit")
			curReport.finish()
		}
		os.Exit(1)
	}
	return
}

// remaining reports how many bytes a standard reader still holds, -1 if unknown.
func remaining(rd io.Reader) int {
	switch x := rd.(type) {
	case *bytes.Buffer:
		return x.Len()
	case *bytes.Reader:
		return x.Len()
	case *strings.Reader:
		return x.Len()
	}
	return -1
}

// a PUBLISH frame whose body is larger than 64 KiB (and than any internal
// buffer size a decoder might choose)
func (g *G) bigPublish() []byte {
	topic := g.bytesN(1 + g.pick(5))
	payload := g.bytesN(65536 + g.pick(70000))
	body := append([]byte{0, byte(len(topic))}, topic...)
	body = append(body, 0) // no properties
	body = append(body, payload...)
	return append(append([]byte{0x30}, vbEnc(uint64(len(body)))...), body...)
}

func oneChunk(bs []byte) *scriptReader {
	return &scriptReader{chunks: []chunk{{bs: append([]byte{}, bs...)}}}
}

// hostile inputs for the decoders: prefixes, length-field mutations, nibbles, random
func (g *G) hostileFrames(n int, emit func(f []byte)) {
	for i := 0; i < n; i++ {
		f := g.validFrame()
		if len(f) > 4000 {
			f = f[:4000]
		}
		switch g.pick(6) {
		case 0:
			emit(f)
		case 1: // every prefix of a (short) frame, re-framed
			_, hl := splitFrame(f)
			if hl > 0 && len(f)-hl < 80 {
				for k := 0; k <= len(f)-hl; k++ {
					body := f[hl : hl+k]
					emit(append(append([]byte{f[0]}, vbEnc(uint64(len(body)))...), body...))
				}
			} else {
				emit(g.mutate1(f))
			}
		case 2:
			emit(g.mutate1(f))
		case 3:
			emit(g.mutate1(g.mutate1(f)))
		case 4: // every type nibble over this body
			for nb := 0; nb < 16; nb++ {
				ff := append([]byte{}, f...)
				ff[0] = byte(nb<<4) | ff[0]&0x0f
				emit(ff)
			}
		case 5:
			b := g.bytesN(2 + g.pick(20))
			b[1] = byte(len(b) - 2)
			emit(b)
		}
	}
}

func countLists(p mq.Packet) int {
	n := 0
	switch p := p.(type) {
	case *mq.Connect:
		n = len(p.UserProperties)
		if w := p.Will(); w != nil {
			n += len(w.UserProperties) + len(w.SubscriptionIDs())
		}
	case *mq.ConnAck:
		n = len(p.UserProperties)
	case *mq.Publish:
		n = len(p.UserProperties) + len(p.SubscriptionIDs())
	case *mq.PubAck:
		n = len(p.UserProperties)
	case *mq.PubRec:
		n = len(p.UserProperties)
	case *mq.PubRel:
		n = len(p.UserProperties)
	case *mq.PubComp:
		n = len(p.UserProperties)
	case *mq.Subscribe:
		n = len(p.UserProperties) + len(p.Filters())
	case *mq.SubAck:
		n = len(p.UserProperties) + len(p.ReasonCodes())
	case *mq.Unsubscribe:
		n = len(p.UserProperties) + len(p.Filters())
	case *mq.UnsubAck:
		n = len(p.UserProperties) + len(p.ReasonCodes())
	case *mq.Disconnect:
		n = len(p.UserProperties)
	case *mq.Auth:
		n = len(p.UserProperties)
	}
	return n
}

// ---------------------------------------------------------------- C04 / C05

func init() {
	oracles["C04"] = func(r *report, g *G, n int, single string) { oracleDecode(r, g, n, single, false) }
	oracles["C05"] = func(r *report, g *G, n int, single string) { oracleDecode(r, g, n, single, true) }
}

func caseBytes(single string) ([]byte, bool) {
	f := splitWS(single)
	switch {
	case len(f) == 3 && f[0] == "R":
		var b []byte
		for _, c := range parseScript(f[2]).chunks {
			b = append(b, c.bs...)
		}
		return b, true
	case len(f) == 4 && f[0] == "U":
		return unhex(f[3]), true
	}
	return nil, false
}

func oracleDecode(r *report, g *G, n int, single string, bounded bool) {
	check := func(f []byte) {
		c := "R 1 " + hexs(f)
		work := func() string {
			o := readOnce(oneChunk(f))
			if o.panic || o.both || o.none {
				return o.verdict()
			}
			if bounded && o.kind >= 0 {
				if l := countLists(o.p); l > len(f) {
					return fmt.Sprintf("LISTS %d > %d bytes", l, len(f))
				}
			}
			return ""
		}
		res, ok := runWithWatchdog(work)
		if !ok {
			r.fail("decode-timeout", c, "ReadPacket did not return within the watchdog limit")
			r.finish()
			os.Exit(1) // the stuck goroutine cannot be stopped
		}
		if res != "" {
			key := "decode-panic"
			if bounded {
				key = "decode-unbounded"
			}
			if !bounded || res[0] == 'L' {
				r.fail(key, c, res)
			}
		}
		// UnmarshalBinary of every packet type on the body
		_, hl := splitFrame(f)
		if hl > 0 && hl <= len(f) {
			body := f[hl:]
			ks := []int{int(f[0] >> 4), g.pick(16)}
			for _, k := range ks {
				k := k
				cu := fmt.Sprintf("U %d z %s", k, hexs(body))
				res, ok := runWithWatchdog(func() (s string) {
					defer func() {
						if e := recover(); e != nil {
							s = "PANIC"
						}
					}()
					p := zeroPacket(k)
					err := p.UnmarshalBinary(append([]byte{}, body...))
					if bounded && err == nil {
						if l := countLists(p); l > len(body) {
							return fmt.Sprintf("LISTS %d > %d bytes", l, len(body))
						}
					}
					return ""
				})
				if !ok {
					r.fail("decode-timeout", cu, "UnmarshalBinary did not return")
					r.finish()
					os.Exit(1)
				}
				if res != "" && (!bounded || res[0] == 'L') {
					key := "decode-panic"
					if bounded {
						key = "decode-unbounded"
					}
					r.fail(key, cu, res)
				}
			}
		}
		cls := "short"
		if len(f) > 64 {
			cls = "long"
		}
		r.eval(cls, len(f) > 2, hexs(f))
	}
	if single != "" {
		if b, ok := caseBytes(single); ok {
			check(b)
		}
		return
	}
	for _, l := range corpusLines("read") {
		if b, ok := caseBytes(l); ok {
			check(b)
		}
	}
	// all frames with a body of <= 1 byte for every first byte
	for b := 0; b < 256; b++ {
		check([]byte{byte(b), 0})
		check([]byte{byte(b), 1, byte(g.pick(256))})
		check([]byte{byte(b), 2, 0, byte(g.pick(256))})
	}
	if bounded {
		oracleAlloc(r, g)
		bigFrameStreams(r, g, true)
		strayStreams(r, g, 25) // a packet must not grow after it was returned
	}
	// a remaining length that never ends, or ends after 5..11 bytes with any last byte: the
	// header reader must give up after five bytes (C05) and must not panic on the value (C04)
	for _, k := range []int{4, 5, 6, 7, 8, 9, 10, 11, 64, 1000, 65536} {
		for _, fill := range []byte{0x80, 0xff, 0x81} {
			for _, last := range []byte{0x00, 0x01, 0x7f} {
				stream := append([]byte{byte(g.pick(256))}, bytesRepeat(fill, k)...)
				stream = append(stream, last, 0x00)
				rd := oneChunk(stream)
				o := readOnce(rd)
				c := fmt.Sprintf("R 1 %02x + %d x %02x + %02x00", stream[0], k, fill, last)
				if bounded {
					if o.kind >= 0 || rd.got > 6 {
						r.fail("header-unbounded", "R 1 "+trunc(hexs(stream)), fmt.Sprintf("%s: consumed %d bytes, result %s", c, rd.got, trunc(o.verdict())))
					}
				} else if o.panic || o.both || o.none {
					r.fail("decode-panic", "R 1 "+trunc(hexs(stream)), fmt.Sprintf("%s: %s", c, trunc(o.verdict())))
				}
				r.eval("long-header", true, c)
				// the same through the readers of the standard library (a decoder may read the
				// header differently from a reader that offers ReadByte)
				if k >= 5 && last != 0x7f {
					for _, nr := range []struct {
						name string
						mk   func([]byte) (io.Reader, func() int)
					}{
						{"bytes.Reader", func(b []byte) (io.Reader, func() int) { x := bytes.NewReader(b); return x, x.Len }},
						{"bytes.Buffer", func(b []byte) (io.Reader, func() int) { x := bytes.NewBuffer(append([]byte{}, b...)); return x, x.Len }},
						{"strings.Reader", func(b []byte) (io.Reader, func() int) { x := strings.NewReader(string(b)); return x, x.Len }},
						{"bufio.Reader", func(b []byte) (io.Reader, func() int) {
							u := bytes.NewReader(b)
							x := bufio.NewReaderSize(u, 16)
							return x, func() int { return u.Len() + x.Buffered() }
						}},
					} {
						rdn, left := nr.mk(stream)
						on := readNative(rdn, stream[:6])
						used := len(stream) - left()
						if bounded {
							if on.kind >= 0 || used > 6 {
								r.fail("header-unbounded", "R 1 "+trunc(hexs(stream)), fmt.Sprintf("%s through %s: consumed %d bytes, result %s", c, nr.name, used, trunc(on.verdict())))
							}
						} else if on.panic || on.both || on.none {
							r.fail("decode-panic", "R 1 "+trunc(hexs(stream)), fmt.Sprintf("%s through %s: %s", c, nr.name, trunc(on.verdict())))
						}
					}
				}
			}
		}
	}
	g.hostileFrames(n, check)
	// any defined property, any number of times, in any packet (the encoder never does this)
	for i := 0; i < n/4+100; i++ {
		check(g.soupFrame())
		if g.chance(30) {
			check(g.mutate(g.soupFrame()))
		}
	}
	// CONNECT bodies with and without will, user name and password under every one of the 256
	// flag bytes (the flags promise fields that are or are not there)
	for _, cs := range [][]string{{"SetClientID:63"}, {"SetClientID:63", "SetWill:[SetTopicName:74;SetPayload:70;SetQoS:1;SetRetain:1]"},
		{"SetUsername:75", "SetPassword:70"}, {"SetWill:[SetTopicName:74;AddUserProp:6b:76]", "SetUsername:75", "SetPassword:70", "AddUserProp:6b:76"}} {
		f := frameOf(build(1, cs))
		_, hl := splitFrame(f)
		for fl := 0; fl < 256; fl++ {
			f2 := append([]byte{}, f...)
			f2[hl+7] = byte(fl) // name (6 bytes), level, flags
			check(f2)
		}
	}
	r.sample(map[string]string{"case": "R 1 400100", "expect": "error, no panic"})
	r.sample(map[string]string{"case": "R 1 8206000100000561", "expect": "returns with an error"})
}

// allocation proportional to the declared frame length
func oracleAlloc(r *report, g *G) {
	measure := func(f []byte, class string) {
		var m0, m1 runtimeMem
		// warm up (the first call of a kind pays for lazily initialised tables), then measure.
		// Other goroutines of the process (timers, the collector) allocate too: the figure is
		// the smallest of up to four measurements, so that only what the call itself needs counts.
		readOnce(oneChunk(f))
		rl, _ := splitFrame(f)
		limit := uint64(64*(rl+len(f)) + 32<<10)
		best := ^uint64(0)
		for try := 0; try < 4 && best > limit; try++ {
			readMem(&m0)
			readOnce(oneChunk(f))
			readMem(&m1)
			if d := m1.total - m0.total; d < best {
				best = d
			}
		}
		if best > limit {
			r.fail("decode-alloc", "R 1 "+hexs(f), fmt.Sprintf("allocated %d bytes for a frame of %d (declared %d)", best, len(f), rl))
		}
		r.eval(class, true, "alloc"+hexs(f))
	}
	for i := 0; i < 200; i++ {
		measure(g.mutate(g.validFrame()), "alloc")
	}
	// a two-byte length prefix of 0xFFFE/0xFFFF (or another large value) written over any
	// two bytes of a short frame, the frame cut shortly after it
	for i := 0; i < 600; i++ {
		f := g.validFrame()
		_, hl := splitFrame(f)
		if hl == 0 || len(f) < hl+2 || len(f) > 400 {
			continue
		}
		body := append([]byte{}, f[hl:]...)
		at := g.pick(len(body) - 1)
		v := []uint16{0xffff, 0xfffe, 0xfffd, 0xff00, 0x8000}[g.pick(5)]
		body[at], body[at+1] = byte(v>>8), byte(v)
		if g.chance(70) {
			end := at + 2 + g.pick(4)
			if end < len(body) {
				body = body[:end]
			}
		}
		measure(append(append([]byte{f[0]}, vbEnc(uint64(len(body)))...), body...), "alloc-long-prefix")
	}
	// thousands of small list elements (user properties of the packet and of the will,
	// subscription identifiers, filters, reason codes): memory stays proportional to the frame
	many := func(unit []byte, count int) []byte {
		var b []byte
		for i := 0; i < count; i++ {
			b = append(b, unit...)
		}
		return b
	}
	up := []byte{0x26, 0, 1, 'k', 0, 1, 'v'}
	for _, count := range []int{3000, 6000} {
		ups := many(up, count)
		sec := append(vbEnc(uint64(len(ups))), ups...)
		frame := func(b0 byte, body []byte) []byte {
			return append(append([]byte{b0}, vbEnc(uint64(len(body)))...), body...)
		}
		sids := many([]byte{0x0b, 5}, count)
		measureBig := func(f []byte, class string) {
			var m0, m1 runtimeMem
			readOnce(oneChunk(f))
			best := ^uint64(0)
			limit := uint64(200*len(f) + 1<<20)
			for try := 0; try < 3 && best > limit; try++ {
				readMem(&m0)
				readOnce(oneChunk(f))
				readMem(&m1)
				if d := m1.total - m0.total; d < best {
					best = d
				}
			}
			if best > limit {
				r.fail("decode-alloc", "R 1 "+trunc(hexs(f)), fmt.Sprintf("%s: allocated %d bytes for a frame of %d bytes with %d list elements", class, best, len(f), count))
			}
			r.eval("alloc-many-elements", true, class+strconv.Itoa(count))
		}
		measureBig(frame(0x20, append([]byte{0, 0}, sec...)), "CONNACK user properties")
		measureBig(frame(0xe0, append([]byte{0}, sec...)), "DISCONNECT user properties")
		measureBig(frame(0x30, append(append([]byte{0, 1, 't'}, sec...), 'p')), "PUBLISH user properties")
		measureBig(frame(0x30, append([]byte{0, 1, 't'}, append(vbEnc(uint64(len(sids))), sids...)...)), "PUBLISH subscription identifiers")
		measureBig(frame(0x10, append(append([]byte{0, 4, 'M', 'Q', 'T', 'T', 5, 2, 0, 9}, sec...), 0, 1, 'c')), "CONNECT user properties")
		measureBig(frame(0x10, append(append([]byte{0, 4, 'M', 'Q', 'T', 'T', 5, 6, 0, 9, 0, 0, 1, 'c'}, sec...), 0, 1, 'w', 0, 1, 'p')), "CONNECT will user properties")
		measureBig(frame(0x82, append([]byte{0, 7, 0}, many([]byte{0, 1, 'f', 1}, count)...)), "SUBSCRIBE filters")
		measureBig(frame(0xa2, append([]byte{0, 7, 0}, many([]byte{0, 1, 'f'}, count)...)), "UNSUBSCRIBE filters")
		measureBig(frame(0x90, append([]byte{0, 7, 0}, many([]byte{1}, count*4)...)), "SUBACK reason codes")
	}
	// a property length that promises far more than the frame holds (up to 256 MiB), followed by
	// one or two properties: every type with a property section, and the will's section
	for _, L := range []uint64{1 << 14, 1 << 21, 1 << 22, 1 << 24, 1<<28 - 1} {
		for _, props := range [][]byte{{0x26, 0, 1, 'k', 0, 1, 'v'}, {0x26, 0, 1, 'k', 0, 1, 'v', 0x26, 0, 1, 'k', 0, 1, 'w'}, {0x1f, 0, 1, 'r'}, {0x0b, 5}, {0x0b, 5, 0x26, 0, 1, 'k', 0, 1, 'v'}} {
			for _, h := range [][]byte{{0x20, 0, 0}, {0x40, 0, 1, 0}, {0x50, 0, 1, 0}, {0x62, 0, 1, 0}, {0x70, 0, 1, 0}, {0x82, 0, 1}, {0x90, 0, 1},
				{0xa2, 0, 1}, {0xb0, 0, 1}, {0xe0, 0}, {0xf0, 0x18}, {0x30, 0, 1, 't'}, {0x32, 0, 1, 't', 0, 9},
				{0x10, 0, 4, 'M', 'Q', 'T', 'T', 5, 2, 0, 9}, {0x10, 0, 4, 'M', 'Q', 'T', 'T', 5, 6, 0, 9, 0, 0, 1, 'c'}} {
				body := append(append(append([]byte{}, h[1:]...), vbEnc(L)...), props...)
				measure(append(append([]byte{h[0]}, vbEnc(uint64(len(body)))...), body...), "alloc-long-property-length")
			}
		}
	}
	for _, f := range [][]byte{{0x30, 3, 0xff, 0xff, 'a'}, {0x30, 3, 0xff, 0xfe, 'a'}, {0xa2, 6, 0, 1, 0, 0xff, 0xff, 'a'},
		{0x82, 6, 0, 1, 0, 0xff, 0xff, 'a'}, {0x10, 4, 0xff, 0xff, 'M', 'Q'}, {0xe0, 7, 0, 5, 0x26, 0xff, 0xff, 'a', 'b'},
		{0xe0, 9, 0, 7, 0x26, 0, 1, 'k', 0xff, 0xff, 'v'}, {0x20, 7, 0, 0, 4, 0x12, 0xff, 0xff, 'a'}} {
		measure(f, "alloc-long-prefix")
	}
}

// big frames with more of the stream behind them: exactly the frame is taken
func bigFrameStreams(r *report, g *G, bounded bool) {
	for i := 0; i < 6; i++ {
		var frame []byte
		switch i % 3 {
		case 0:
			frame = g.bigPublish()
		case 1: // SUBACK with more than 64 Ki reason codes
			body := append([]byte{0, 9, 0}, bytesRepeat(byte(g.pick(3)), 65537+g.pick(3000))...)
			frame = append(append([]byte{0x90}, vbEnc(uint64(len(body)))...), body...)
		default: // UNSUBSCRIBE with many filters
			body := []byte{0, 9, 0}
			for len(body) < 66000+g.pick(3000) {
				body = append(body, 0, 1, 'f')
			}
			frame = append(append([]byte{0xa2}, vbEnc(uint64(len(body)))...), body...)
		}
		tail := []byte{}
		for len(tail) < 70000+g.pick(70000) {
			tail = append(tail, [][]byte{{0xc0, 0}, {0x40, 2, 0, 7}, {0xd0, 0}}[g.pick(3)]...)
		}
		stream := append(append([]byte{}, frame...), tail...)
		c := fmt.Sprintf("R 1 %s... (%d-byte frame followed by %d bytes)", hexs(frame[:12]), len(frame), len(tail))
		for _, mk := range []func() (io.Reader, func() int){
			func() (io.Reader, func() int) {
				rd := oneChunk(stream)
				return rd, func() int { return len(stream) - rd.got }
			},
			func() (io.Reader, func() int) { b := bytes.NewBuffer(append([]byte{}, stream...)); return b, b.Len },
			func() (io.Reader, func() int) { b := bytes.NewReader(stream); return b, b.Len },
			func() (io.Reader, func() int) {
				rd := scriptOf(stream, []int{len(frame) / 2, len(frame) - len(frame)/2, len(tail)}, false, 0)
				return rd, func() int { return len(stream) - rd.got }
			},
		} {
			rd, left := mk()
			o := readNative(rd, frame[:12])
			alone := readOnce(oneChunk(frame))
			if got := len(stream) - left(); got != len(frame) {
				r.fail("sequence-consumed", c, fmt.Sprintf("consumed %d bytes of the stream for a frame of %d", got, len(frame)))
			}
			if o.verdict() != alone.verdict() {
				r.fail("sequence-result", c, "in a stream "+trunc(o.verdict())+", alone "+trunc(alone.verdict()))
			}
			if bounded && o.kind >= 0 {
				if l := countLists(o.p); l > len(frame) {
					r.fail("decode-unbounded", c, fmt.Sprintf("LISTS %d > %d bytes", l, len(frame)))
				}
			}
			r.eval("big-frame-in-stream", true, c)
		}
	}
}

// bigLastFrame: two small frames, then a frame above 64 KiB that ends the stream, through
// readers that hand out the last bytes together with io.EOF or less than asked for: three
// packets, then io.EOF.
func bigLastFrame(r *report, g *G) {
	for i := 0; i < 4; i++ {
		var frame []byte
		if i%2 == 0 {
			frame = g.bigPublish()
		} else {
			body := append([]byte{0, 9, 0}, bytesRepeat(byte(g.pick(3)), 65537+g.pick(3000))...)
			frame = append(append([]byte{0x90}, vbEnc(uint64(len(body)))...), body...)
		}
		pre := []byte{0xc0, 0, 0x40, 2, 0, 7}
		stream := append(append([]byte{}, pre...), frame...)
		alone := readOnce(oneChunk(frame))
		c := fmt.Sprintf("R 4 c000400200 07%s... (two small frames, then a %d-byte frame that ends the stream)", hexs(frame[:8]), len(frame))
		cp := func() []byte { return append([]byte{}, stream...) }
		for _, nr := range []namedReader{
			{"iotest.DataErr", iotest.DataErrReader(bytes.NewReader(cp()))},
			{"last bytes with io.EOF", scriptOf(stream, []int{3, len(stream) - 3 - 4000, 4000}, false, 1)},
			{"iotest.Half", iotest.HalfReader(bytes.NewReader(cp()))},
			{"bufio over DataErr", bufio.NewReaderSize(iotest.DataErrReader(bytes.NewReader(cp())), 4096)},
			{"iotest.DataErr over Half", iotest.DataErrReader(iotest.HalfReader(bytes.NewReader(cp())))},
			{"bytes.Buffer", bytes.NewBuffer(cp())},
		} {
			o1 := readNative(nr.r, stream[:8])
			o2 := readNative(nr.r, stream[:8])
			o3 := readNative(nr.r, stream[:8])
			o4 := readNative(nr.r, stream[:8])
			if o1.kind != 12 || o2.kind != 4 {
				r.fail("sequence-result", c, nr.name+": the small frames read as "+trunc(o1.verdict())+" and "+trunc(o2.verdict()))
			} else if o3.verdict() != alone.verdict() {
				r.fail("sequence-result", c, nr.name+": the last frame reads as "+trunc(o3.verdict())+", alone "+trunc(alone.verdict()))
			} else if o4.kind >= 0 || !errors.Is(o4.e, io.EOF) {
				r.fail("sequence-end", c, nr.name+": after the last frame "+trunc(o4.verdict()))
			}
			r.eval("big-frame-last", true, c)
		}
	}
}

func bytesRepeat(b byte, n int) []byte {
	out := make([]byte, n)
	for i := range out {
		out[i] = b
	}
	return out
}

func corpusLines(suite string) []string {
	b, err := os.ReadFile("corpus/" + suite + ".txt")
	if err != nil {
		return nil
	}
	var out []string
	cur := ""
	for _, c := range string(b) {
		if c == '\n' {
			if cur != "" {
				out = append(out, cur)
			}
			cur = ""
		} else {
			cur += string(c)
		}
	}
	if cur != "" {
		out = append(out, cur)
	}
	return out
}

// ---------------------------------------------------------------- C06

func init() {
	oracles["C06"] = oracleC06
	oracles["C07"] = oracleC07
	oracles["C08"] = oracleC08
	oracles["C16"] = oracleC16
}

// frameFor: a frame for the sequence tests: valid, content-malformed or empty.
// property table of MQTT v5.0 (identifier, wire type: 1 byte, 2 two-byte int, 4 four-byte int,
// v variable byte int, s string/binary, p pair)
var propTable = []struct {
	id byte
	wt byte
}{{1, 1}, {2, 4}, {3, 's'}, {8, 's'}, {9, 's'}, {11, 'v'}, {17, 4}, {18, 's'}, {19, 2}, {21, 's'}, {22, 's'}, {23, 1}, {24, 4}, {25, 1},
	{26, 's'}, {28, 's'}, {31, 's'}, {33, 2}, {34, 2}, {35, 2}, {36, 1}, {37, 1}, {38, 'p'}, {39, 4}, {40, 1}, {41, 1}, {42, 1}}

// soupProps: a well-formed property section holding ANY of the 27 defined properties, with
// repeats - whether or not the packet it ends up in may carry them
func (g *G) soupProps(n int) []byte {
	var ps []byte
	str := func() []byte {
		b := g.bytesN(g.pick(4))
		return append([]byte{0, byte(len(b))}, b...)
	}
	for i := 0; i < n; i++ {
		e := propTable[g.pick(len(propTable))]
		if g.chance(30) {
			e = propTable[5] // subscription identifier
		}
		ps = append(ps, e.id)
		switch e.wt {
		case 1:
			ps = append(ps, byte(g.pick(2)))
		case 2:
			ps = append(ps, byte(g.pick(256)), byte(g.pick(256)))
		case 4:
			ps = append(ps, byte(g.pick(256)), byte(g.pick(256)), byte(g.pick(256)), byte(g.pick(256)))
		case 'v':
			ps = append(ps, vbEnc(uint64(1+g.pick(300)))...)
		case 's':
			ps = append(ps, str()...)
		case 'p':
			ps = append(ps, append(append([]byte{0, 1, 'k'}, str()...))...)
		}
	}
	return append(vbEnc(uint64(len(ps))), ps...)
}

// soupFrame puts such a section where each packet type has its properties
func (g *G) soupFrame() []byte {
	props := g.soupProps(1 + g.pick(4))
	var b0 byte
	var body []byte
	switch g.pick(12) {
	case 0:
		b0, body = 0x20, append([]byte{0, 0}, props...)
	case 1:
		b0, body = 0x30, append(append([]byte{0, 1, 't'}, props...), 'p')
	case 2:
		b0, body = byte(0x40+0x10*g.pick(4)), append([]byte{0, 7, 0}, props...)
		if b0 == 0x60 {
			b0 = 0x62
		}
	case 3:
		b0, body = 0x82, append(append([]byte{0, 7}, props...), 0, 1, 'a', 1)
	case 4:
		b0, body = byte(0x90+0x20*g.pick(2)), append(append([]byte{0, 7}, props...), 0)
	case 5:
		b0, body = 0xa2, append(append([]byte{0, 7}, props...), 0, 1, 'a')
	case 6:
		b0, body = 0xe0, append([]byte{0}, props...)
	case 7:
		b0, body = 0xf0, append([]byte{0}, props...)
	case 8: // CONNECT
		b0, body = 0x10, append(append([]byte{0, 4, 'M', 'Q', 'T', 'T', 5, 2, 0, 9}, props...), 0, 1, 'c')
	case 9: // CONNECT with such a section as will properties
		b0 = 0x10
		body = append([]byte{0, 4, 'M', 'Q', 'T', 'T', 5, 6, 0, 9, 0, 0, 1, 'c'}, props...)
		body = append(body, 0, 1, 'w', 0, 1, 'p')
	case 10:
		b0, body = 0x32, append(append([]byte{0, 1, 't', 0, 9}, props...), 'p')
	default:
		b0, body = 0x20, append([]byte{1, 0}, props...)
	}
	return append(append([]byte{b0}, vbEnc(uint64(len(body)))...), body...)
}

// padded: the same frame with its remaining length written in a longer, zero-padded form
func padLength(f []byte) []byte {
	rl, hl := splitFrame(f)
	if hl == 0 || hl > 3 || hl+rl != len(f) {
		return f
	}
	hdr := append([]byte{}, f[1:hl]...)
	hdr[len(hdr)-1] |= 0x80
	hdr = append(hdr, 0)
	return append(append([]byte{f[0]}, hdr...), f[hl:]...)
}

func (g *G) seqFrame() []byte {
	var f []byte
	switch g.pick(8) {
	case 6:
		f = g.soupFrame()
	case 7:
		f = padLength(g.validFrame())
	case 0:
		f = []byte{byte(g.pick(16)<<4 | g.pick(16)), 0}
	case 1:
		f = g.mutate(g.validFrame())
		rl, hl := splitFrame(f)
		if hl == 0 || hl+rl != len(f) { // keep it a well framed (content may be bad)
			f = g.validFrame()
			body := g.bytesN(1 + g.pick(10))
			f = append(append([]byte{f[0]}, vbEnc(uint64(len(body)))...), body...)
		}
	default:
		f = g.validFrame()
	}
	if len(f) > 5000 {
		f = []byte{0xd0, 0}
	}
	return f
}

func oracleC06(r *report, g *G, n int, single string) {
	if single != "" {
		f := splitWS(single)
		if len(f) == 3 && f[0] == "R" {
			// judge: consumed must equal the total size of the frames the header declares
			rd := parseScript(f[2])
			var all []byte
			for _, c := range rd.chunks {
				all = append(all, c.bs...)
			}
			checkSequenceBytes(r, g, all, single)
		}
		return
	}
	for i := 0; i < n; i++ {
		m := 1 + g.pick(6)
		var all []byte
		for j := 0; j < m; j++ {
			all = append(all, g.seqFrame()...)
		}
		all = append(all, g.bytesN(g.pick(5))...)
		checkSequenceBytes(r, g, all, "")
	}
	bigFrameStreams(r, g, false)
	bigLastFrame(r, g)
	strayStreams(r, g, n/20+10)
	r.sample(map[string]string{"stream": "9002000a c000 + trailing", "expect": "SUBACK then PINGREQ, 4 and 2 bytes consumed"})
}

// strayStreams: a PUBLISH (or another packet with lists), then frames of other types that carry a
// property they have no field for, then more: every packet returned stays what it was
func strayStreams(r *report, g *G, rounds int) {
	for i := 0; i < rounds; i++ {
		sid := byte(1 + g.pick(100))
		stray := [][]byte{{0x40, 6, 0, 9, 0, 2, 0x0b, sid}, {0x50, 6, 0, 9, 0, 2, 0x0b, sid}, {0x62, 6, 0, 9, 0, 2, 0x0b, sid}, {0x70, 6, 0, 9, 0, 2, 0x0b, sid},
			{0x20, 5, 0, 0, 2, 0x0b, sid}, {0xe0, 4, 0, 2, 0x0b, sid}, {0x90, 6, 0, 1, 2, 0x0b, sid, 0}, {0xb0, 6, 0, 1, 2, 0x0b, sid, 0},
			{0xa2, 9, 0, 1, 2, 0x0b, sid, 0, 1, 'a'}, {0xf0, 4, 0, 2, 0x0b, sid}, {0x40, 10, 0, 9, 0, 6, 0x0b, sid, 0x0b, 0x81, 0x01, 0x0b, 1}}
		g.domain, g.big = true, false
		pub := frameOf(build(3, append(domainFix(3, g.subset(3, 50)), "SetTopicName:742f31")))
		g.domain, g.big = false, true
		var all []byte
		all = append(all, pub...)
		for j := 0; j < 2+g.pick(4); j++ {
			all = append(all, stray[g.pick(len(stray))]...)
			if g.chance(30) {
				all = append(all, pub...)
			}
			if g.chance(30) {
				all = append(all, g.soupFrame()...)
			}
		}
		all = append(all, 0xc0, 0)
		checkSequenceBytes(r, g, all, "")
		// the same stream read by successive calls on ONE goroutine (whatever a decoder recycles
		// per processor is then handed from one call to the next), several times over
		res, ok := runWithWatchdog(func() (out string) {
			defer func() {
				if e := recover(); e != nil {
					out = "PANIC " + fmt.Sprint(e)
				}
			}()
			for rep := 0; rep < 6; rep++ {
				rd := bytes.NewReader(all)
				var pkts []mq.Packet
				var snaps []string
				for {
					p, err := mq.ReadPacket(rd)
					if err != nil {
						break
					}
					pkts = append(pkts, p)
					snaps = append(snaps, snapshot(p)+" "+encS(p))
					for j, q := range pkts {
						if now := snapshot(q) + " " + encS(q); now != snaps[j] {
							return fmt.Sprintf("the packet returned by call %d changed during call %d: %s, was %s", j, len(pkts)-1, trunc(now), trunc(snaps[j]))
						}
						if l := countLists(q); kindOf(q) == 3 && l > len(pub) {
							return fmt.Sprintf("LISTS %d > %d bytes", l, len(pub))
						}
					}
				}
			}
			return ""
		})
		if !ok {
			r.fail("decode-timeout", "R 8 "+hexs(all), "ReadPacket did not return")
			r.finish()
			os.Exit(1)
		}
		if res != "" {
			r.fail("sequence-result", "R 8 "+hexs(all), res)
		}
		r.eval("stray-stream-one-goroutine", true, "")
	}
}

// checkSequenceBytes splits the byte string into declared frames and checks that
// successive ReadPacket calls consume exactly each frame and give the result the
// frame gives on its own.
func checkSequenceBytes(r *report, g *G, all []byte, label string) {
	sc := g.fragment(all, g.pick(2))
	if label == "" {
		label = "R 8 " + sc
	} else {
		sc = splitWS(label)[2]
	}
	rd := parseScript(sc)
	pos := 0
	nframes := 0
	type earlier struct {
		p    mq.Packet
		snap string
		enc  string
		f    []byte
	}
	var kept []earlier
	defer func() {
		// what a call returned is the caller's: later calls (on this or any stream) leave it alone
		for i, e := range kept {
			if s, en := snapshot(e.p), encS(e.p); s != e.snap || en != e.enc {
				r.fail("sequence-result", label, fmt.Sprintf("the packet returned for frame %d (%s) changed while later frames were read: %s, was %s", i, trunc(hexs(e.f)), trunc(s), trunc(e.snap)))
				return
			}
		}
	}()
	for pos < len(all) {
		rl, hl := splitFrame(all[pos:])
		if hl == 0 || pos+hl+rl > len(all) {
			break // trailing bytes: not a complete frame
		}
		frame := all[pos : pos+hl+rl]
		before := rd.got
		o := readOnce(rd)
		if o.kind >= 0 && len(kept) < 8 {
			kept = append(kept, earlier{o.p, snapshot(o.p), encS(o.p), frame})
		}
		if o.kind < 0 && o.e != nil {
			// an error value handed out is the caller's too: decorating it must not show in
			// the error for the same bytes later
			var m *mq.Malformed
			text := o.e.Error()
			if errors.As(o.e, &m) {
				func() {
					defer func() { recover() }()
					m.SetReasonString("decorated-by-caller")
					m.SetPacket(mq.NewPingReq())
				}()
			}
			if again := readOnce(oneChunk(frame)); again.e == nil || again.e.Error() != text {
				r.fail("sequence-result", label, fmt.Sprintf("frame %d (%s): the error for the same bytes changed after the caller modified the first error value: %q, before %q", nframes, trunc(hexs(frame)), fmt.Sprint(again.e), text))
				return
			}
		}
		alone := readOnce(oneChunk(frame))
		if o.verdict() != alone.verdict() {
			r.fail("sequence-result", label, fmt.Sprintf("frame %d (%s): in stream %s, alone %s", nframes, hexs(frame), o.verdict(), alone.verdict()))
			return
		}
		if rd.got-before != len(frame) {
			r.fail("sequence-consumed", label, fmt.Sprintf("frame %d (%s): consumed %d want %d", nframes, hexs(frame), rd.got-before, len(frame)))
			return
		}
		pos += len(frame)
		nframes++
		if o.kind < 0 && o.err != "nil" && (o.err == "eof" || o.err == "ueof") {
			// a content error never is an EOF
			r.fail("sequence-result", label, "content error reported as EOF")
		}
	}
	if pos == len(all) {
		o := readOnce(rd)
		if o.err != "eof" {
			r.fail("sequence-eof", label, "after the last frame: "+o.verdict())
		}
	}
	r.eval(fmt.Sprintf("frames%d", nframes), nframes >= 2, sc)
	// the same stream through the standard library's reader types, handed to
	// ReadPacket as they are: same results, and exactly the frame consumed
	type lenReader interface {
		io.Reader
		Len() int
	}
	mk := []func() (io.Reader, func() int){
		func() (io.Reader, func() int) { b := bytes.NewBuffer(append([]byte{}, all...)); return b, b.Len },
		func() (io.Reader, func() int) { b := bytes.NewReader(append([]byte{}, all...)); return b, b.Len },
		func() (io.Reader, func() int) { b := strings.NewReader(string(all)); return b, b.Len },
		func() (io.Reader, func() int) {
			u := bytes.NewReader(append([]byte{}, all...))
			b := bufio.NewReaderSize(u, 16)
			return b, func() int { return u.Len() + b.Buffered() }
		},
		func() (io.Reader, func() int) {
			u := bytes.NewReader(append([]byte{}, all...))
			b := bufio.NewReader(u)
			return b, func() int { return u.Len() + b.Buffered() }
		},
		func() (io.Reader, func() int) {
			u := bytes.NewReader(append([]byte{}, all...))
			return iotest.OneByteReader(u), u.Len
		},
	}
	names := []string{"bytes.Buffer", "bytes.Reader", "strings.Reader", "bufio.Reader16", "bufio.Reader", "iotest.OneByte"}
	for i, f := range mk {
		nrd, left := f()
		pos := 0
		k := 0
		for pos < len(all) {
			rl, hl := splitFrame(all[pos:])
			if hl == 0 || pos+hl+rl > len(all) {
				break
			}
			frame := all[pos : pos+hl+rl]
			o := readNative(nrd, all)
			alone := readOnce(oneChunk(frame))
			if o.verdict() != alone.verdict() {
				r.fail("sequence-result", "R 8 "+hexs(all), fmt.Sprintf("through %s, frame %d (%s): in stream %s, alone %s", names[i], k, trunc(hexs(frame)), trunc(o.verdict()), trunc(alone.verdict())))
				break
			}
			pos += len(frame)
			if got := len(all) - left(); got != pos {
				r.fail("sequence-consumed", "R 8 "+hexs(all), fmt.Sprintf("through %s, after frame %d: %d bytes consumed, want %d", names[i], k, got, pos))
				break
			}
			k++
		}
		r.eval("sequence-reader-type", k >= 2, names[i])
	}
}

// ---------------------------------------------------------------- C07

// compositions enumerates every split of n into ordered positive parts.
func compositions(n int, f func(parts []int)) {
	var rec func(rem int, acc []int)
	rec = func(rem int, acc []int) {
		if rem == 0 {
			f(acc)
			return
		}
		for k := 1; k <= rem; k++ {
			rec(rem-k, append(acc, k))
		}
	}
	rec(n, nil)
}

func scriptOf(frame []byte, parts []int, zeroReads bool, eofStyle int) *scriptReader {
	rd := &scriptReader{}
	i := 0
	for _, k := range parts {
		if zeroReads {
			rd.chunks = append(rd.chunks, chunk{})
		}
		rd.chunks = append(rd.chunks, chunk{bs: append([]byte{}, frame[i:i+k]...)})
		i += k
	}
	if eofStyle == 1 && len(rd.chunks) > 0 {
		rd.chunks[len(rd.chunks)-1].err = io.EOF
	}
	return rd
}

var nativeRound int

func oracleC07(r *report, g *G, n int, single string) {
	checkFrame := func(f []byte, exhaustive bool) {
		want := readOnce(oneChunk(f)).verdict()
		try := func(rd *scriptReader, desc string) {
			got := readOnce(rd)
			if got.verdict() != want {
				r.fail("fragmentation", "R 1 "+desc, fmt.Sprintf("frame %s: fragmented %s, contiguous %s", hexs(f), got.verdict(), want))
			}
		}
		if exhaustive {
			cnt := 0
			compositions(len(f), func(parts []int) {
				for z := 0; z < 2; z++ {
					for e := 0; e < 2; e++ {
						try(scriptOf(f, parts, z == 1, e), fmt.Sprintf("%v zero=%d eof=%d", parts, z, e))
						cnt++
					}
				}
			})
			r.evalN("exhaustive-compositions", cnt, cnt-4)
		} else if len(f) > 60000 {
			// a large frame: halves, a cut just past 64 KiB, and the reader types below
			for _, k := range []int{len(f) / 2, 65536, 65537 + g.pick(len(f)-65537)} {
				try(scriptOf(f, []int{k, len(f) - k}, g.chance(50), g.pick(2)), fmt.Sprintf("big split at %d", k))
				r.eval("big-frame-split", true, "")
			}
		} else {
			for j := 0; j < 8; j++ {
				sc := g.fragment(f, g.pick(2))
				try(parseScript(sc), sc)
				r.eval("random-schedule", true, sc)
			}
			// one byte at a time
			parts := make([]int, len(f))
			for i := range parts {
				parts[i] = 1
			}
			try(scriptOf(f, parts, true, 1), "bytewise")
		}
		// the same bytes through the standard library's reader types
		nativeRound++
		for _, nr := range nativeReaders(f) {
			if nativeRound%3 != 0 && len(f) < 60000 {
				break
			}
			got := readNative(nr.r, f)
			if got.verdict() != want {
				r.fail("reader-type", "R 1 "+hexs(f), fmt.Sprintf("frame %s through %s: %s, through a plain reader %s", trunc(hexs(f)), nr.name, got.verdict(), want))
			}
			r.eval("reader-type", true, nr.name)
		}
	}
	if single != "" {
		if b, ok := caseBytes(single); ok {
			_, hl := splitFrame(b)
			if hl > 0 {
				checkFrame(b, len(b) <= 10)
			}
		}
		return
	}
	for _, l := range corpusLines("read") {
		if b, ok := caseBytes(l); ok {
			rl, hl := splitFrame(b)
			if hl > 0 && hl+rl == len(b) {
				checkFrame(b, len(b) <= 11)
			}
		}
	}
	for i := 0; i < n; i++ {
		f := g.seqFrame()
		checkFrame(f, len(f) <= 10)
	}
	// byte strings that are not frames: over-long or unterminated remaining lengths, random bytes
	// (the same rejection must result under every delivery)
	for i := 0; i < n/4+20; i++ {
		var f []byte
		switch g.pick(4) {
		case 0: // five-byte remaining length, terminated
			f = []byte{byte(g.pick(256)), byte(128 + g.pick(128)), byte(128 + g.pick(128)), byte(128 + g.pick(128)), byte(128 + g.pick(128)), byte(g.pick(128))}
			f = append(f, g.bytesN(g.pick(3))...)
		case 1: // 2-4 byte remaining length, possibly non-minimal, with a matching body
			hdr := []byte{byte(128 + g.pick(128)), byte(g.pick(2))}
			if g.chance(40) {
				hdr = []byte{byte(128 + g.pick(4)), 128, byte(g.pick(2))}
			}
			rl, _ := splitFrame(append([]byte{0}, hdr...))
			if rl > 600 {
				rl = 0
				hdr = []byte{0x80, 0x00}
			}
			f = append(append([]byte{byte(g.pick(256))}, hdr...), g.bytesN(rl)...)
		case 2:
			f = g.bytesN(1 + g.pick(9))
		default:
			f = g.mutate(g.seqFrame())
		}
		if len(f) > 0 && len(f) < 400 {
			checkFrame(f, len(f) <= 10)
		}
	}
	for i := 0; i < 2+n/200; i++ {
		checkFrame(g.bigPublish(), false)
	}
	// several frames in one stream (valid, rejected, with zero-padded remaining lengths): however
	// the bytes are cut up - and whatever a buffering reader already holds when ReadPacket is
	// called - each call returns what its frame returns alone
	for i := 0; i < n/10+20; i++ {
		var all []byte
		for j := 0; j < 2+g.pick(3); j++ {
			f := g.seqFrame()
			if g.chance(25) {
				f = padLength(g.validFrame())
			}
			all = append(all, f...)
		}
		checkSequenceBytes(r, g, all, "")
	}
	r.sample(map[string]string{"frame": "40020007", "schedules": "all 8 compositions x zero-length reads x EOF styles"})
}

// ---------------------------------------------------------------- C08

// errors a transport returns: plain ones, ones that wrap io.EOF (tls, websocket layers
// decorate it), ones that call themselves temporary or timeouts, the standard sentinels
type netLikeErr struct {
	msg                string
	temporary, timeout bool
}

func (e *netLikeErr) Error() string   { return e.msg }
func (e *netLikeErr) Temporary() bool { return e.temporary }
func (e *netLikeErr) Timeout() bool   { return e.timeout }

type wrapsEOF struct{ tag int }

func (e *wrapsEOF) Error() string { return fmt.Sprintf("transport %d: EOF", e.tag) }
func (e *wrapsEOF) Unwrap() error { return io.EOF }

var sentinelErrs = []error{io.ErrUnexpectedEOF, io.ErrClosedPipe, io.ErrNoProgress, os.ErrDeadlineExceeded, io.ErrShortBuffer,
	fmt.Errorf("tls: use of closed connection: %w", io.EOF), fmt.Errorf("read tcp: %w", os.ErrDeadlineExceeded)}

func transportErr(g *G) error {
	switch g.pick(6) {
	case 0:
		return &netLikeErr{"i/o timeout", true, true}
	case 1:
		return &netLikeErr{"connection reset", g.chance(50), false}
	case 2:
		return &wrapsEOF{g.pick(9)}
	case 3:
		return sentinelErrs[g.pick(len(sentinelErrs))]
	}
	return injectedErr(1 + g.pick(9))
}

func oracleC08(r *report, g *G, n int, single string) {
	checkFrame := func(f []byte) {
		cuts := []int{}
		if len(f) <= 40 {
			for k := 0; k < len(f); k++ {
				cuts = append(cuts, k)
			}
		} else {
			cuts = []int{0, 1, 2, len(f) / 2, len(f) - 1, g.pick(len(f)), g.pick(len(f))}
		}
		for _, k := range cuts {
			for style := 0; style < 2; style++ { // fault with the last bytes / in a later call
				for fault := 0; fault < 2; fault++ { // EOF / transport error
					var ferr error = io.EOF
					if fault == 1 {
						ferr = transportErr(g)
					}
					rd := parseScript(g.fragment(f[:k], 0))
					// a failed transport keeps failing: the error is reported with the
					// last bytes (style 0) or in the next call (style 1), and again on
					// every later call
					if style == 0 && len(rd.chunks) > 0 {
						rd.chunks[len(rd.chunks)-1].err = ferr
					}
					rd.chunks = append(rd.chunks, chunk{err: ferr}, chunk{err: ferr})
					desc := fmt.Sprintf("frame=%s cut=%d style=%d fault=%s", hexs(f), k, style, errClass(ferr))
					o := readOnce(rd)
					switch {
					case o.panic || o.both || o.none:
						r.fail("fault-"+o.verdict(), desc, o.verdict())
					case o.kind >= 0:
						r.fail("fault-papered-over", desc, "packet returned from a truncated frame: "+o.verdict())
					case fault == 1 && !errors.Is(o.e, ferr):
						r.fail("fault-error-lost", desc, "errors.Is(err, E) is false: "+o.e.Error())
					case fault == 0 && k == 0 && !errors.Is(o.e, io.EOF):
						r.fail("fault-eof-lost", desc, "errors.Is(err, io.EOF) is false: "+o.e.Error())
					}
					r.eval(fmt.Sprintf("style%d-fault%d", style, fault), k > 0, desc)
				}
			}
		}
		// a packet only if every byte was delivered
		o := readOnce(oneChunk(f))
		if o.kind >= 0 && o.got != len(f) {
			r.fail("fault-incomplete", "R 1 "+hexs(f), "packet returned after reading fewer bytes than the frame")
		}
		// the stream ends inside the frame, through the standard library's reader types
		ncuts := cuts
		if len(ncuts) > 8 {
			ncuts = []int{0, 1, 2, len(f) / 2, len(f) - 2, len(f) - 1, g.pick(len(f)), g.pick(len(f))}
		}
		for _, k := range ncuts {
			if k < 0 || k >= len(f) {
				continue
			}
			for _, nr := range nativeReaders(f[:k]) {
				o := readNative(nr.r, f[:k])
				desc := fmt.Sprintf("frame=%s cut=%d reader=%s", trunc(hexs(f)), k, nr.name)
				switch {
				case o.panic || o.both || o.none:
					r.fail("fault-"+o.verdict(), desc, o.verdict()+" through "+nr.name)
				case o.kind >= 0:
					r.fail("fault-papered-over", desc, "packet returned from a truncated frame through "+nr.name+": "+trunc(o.verdict()))
				case k == 0 && !errors.Is(o.e, io.EOF):
					r.fail("fault-eof-lost", desc, "errors.Is(err, io.EOF) is false: "+o.e.Error())
				}
				r.eval("reader-type-cut", k > 0, nr.name)
			}
		}
	}
	if single != "" {
		if b, ok := caseBytes(single); ok {
			rl, hl := splitFrame(b)
			if hl > 0 && hl+rl <= len(b) {
				checkFrame(b[:hl+rl])
			}
		}
		return
	}
	for i := 0; i < n; i++ {
		checkFrame(g.seqFrame())
	}
	for i := 0; i < 2+n/100; i++ {
		checkFrame(g.bigPublish())
	}
	r.sample(map[string]string{"frame": "3005000174aabb", "cut": "every offset 0..6", "faults": "EOF and injected error, with the last bytes or in the next call"})
}

// ---------------------------------------------------------------- C16

func oracleC16(r *report, g *G, n int, single string) {
	checkFirst := func(b byte, body []byte) {
		f := append(append([]byte{b}, vbEnc(uint64(len(body)))...), body...)
		c := "R 1 " + hexs(f)
		o := readOnce(oneChunk(f))
		if o.kind < 0 {
			// the body is one the library itself wrote for this type (and, for PUBLISH, this
			// QoS): the flag nibble must not make it unreadable
			r.fail("dispatch-rejected", c, fmt.Sprintf("a body valid for first byte %02x is rejected: %s", b, trunc(o.verdict())))
			r.eval("rejected", false, c)
			return
		}
		if o.kind != int(b>>4) {
			r.fail("dispatch-type", c, fmt.Sprintf("type %d for first byte %02x", o.kind, b))
		}
		if b>>4 == 0 {
			if !bytesEq(o.p.(*mq.Undefined).Data(), body) {
				r.fail("dispatch-undefined-data", c, "Undefined does not carry the frame's bytes")
			}
		} else {
			if fx, ok := mq.VerifFixed(o.p); !ok || fx != b {
				r.fail("dispatch-fixed", c, fmt.Sprintf("fixed %02x", fx))
			}
			out := frameOf(o.p)
			if len(out) == 0 || out[0] != b {
				r.fail("dispatch-rewrite", c, "first byte written "+hexs(out))
			}
		}
		if b>>4 == 3 {
			p := o.p.(*mq.Publish)
			wantQ := uint8((b >> 1) & 3)
			if p.Duplicate() != (b&8 != 0) || p.Retain() != (b&1 != 0) || p.QoS() != wantQ {
				r.fail("dispatch-publish-flags", c, fmt.Sprintf("dup=%v retain=%v qos=%d", p.Duplicate(), p.Retain(), p.QoS()))
			}
		}
		// the packet keeps those bits whatever it is asked next: printed, dumped, written to a
		// writer that fails at once and to one that fails after a few bytes
		if b>>4 != 0 && len(f) < 5000 {
			func() {
				defer func() { recover() }()
				_ = o.p.String()
				mq.Dump(io.Discard, o.p)
				o.p.WriteTo(&scriptWriter{err: injectedErr(3)})
				o.p.WriteTo(&scriptWriter{mode: 'S', k: 1 + len(f)/2, err: injectedErr(4)})
				o.p.WriteTo(&scriptWriter{mode: 'S', k: 1, err: io.ErrShortWrite})
			}()
			if fx, ok := mq.VerifFixed(o.p); !ok || fx != b {
				r.fail("dispatch-fixed", c, fmt.Sprintf("after String, Dump and failed writes the first byte is %02x", fx))
			}
			if out := frameOf(o.p); len(out) == 0 || out[0] != b {
				r.fail("dispatch-rewrite", c, "after String, Dump and failed writes the first byte written is "+trunc(hexs(out)))
			}
			if pub, ok := o.p.(*mq.Publish); ok {
				if pub.Duplicate() != (b&8 != 0) || pub.Retain() != (b&1 != 0) || pub.QoS() != uint8((b>>1)&3) {
					r.fail("dispatch-publish-flags", c, fmt.Sprintf("after failed writes dup=%v retain=%v qos=%d", pub.Duplicate(), pub.Retain(), pub.QoS()))
				}
			}
		}
		// ... and whatever the program does with that packet, the same frame read again is
		// dispatched and flagged as before (no packet is handed out twice)
		if len(f) < 5000 {
			func() {
				defer func() { recover() }()
				switch q := o.p.(type) {
				case *mq.Publish:
					q.SetQoS((q.QoS() + 1) % 3)
					q.SetRetain(!q.Retain())
					q.SetDuplicate(!q.Duplicate())
					q.SetTopicName("changed/by/the/program")
				case *mq.PubAck:
					q.SetPacketID(q.PacketID() + 1)
				case *mq.ConnAck:
					q.SetSessionPresent(!q.SessionPresent())
				case *mq.Connect:
					q.SetCleanStart(!q.CleanStart())
					q.SetUsername("changed")
				case *mq.Subscribe:
					q.SetPacketID(q.PacketID() + 1)
				case *mq.Disconnect:
					q.SetReasonCode(q.ReasonCode() + 1)
				case *mq.Auth:
					q.SetReasonCode(q.ReasonCode() + 1)
				}
			}()
			o2 := readOnce(oneChunk(f))
			if o2.verdict() != o.verdict() {
				r.fail("dispatch-repeat", c, "after the program changed the first packet the same frame reads as "+trunc(o2.verdict())+", before "+trunc(o.verdict()))
			} else if o2.kind > 0 {
				if fx, ok := mq.VerifFixed(o2.p); !ok || fx != b {
					r.fail("dispatch-repeat", c, fmt.Sprintf("second read: fixed %02x", fx))
				}
			}
		}
		r.eval(fmt.Sprintf("type%d", b>>4), b&15 != 0, c)
	}
	if single != "" {
		if b, ok := caseBytes(single); ok && len(b) > 0 {
			_, hl := splitFrame(b)
			if hl > 0 {
				checkFirst(b[0], b[hl:])
			}
		}
		return
	}
	// bodies valid for each type, including empty ones
	bodies := map[int][][]byte{}
	for k := 0; k < 16; k++ {
		bodies[k] = append(bodies[k], nil)
	}
	for i := 0; i < 400+n; i++ {
		f := g.validFrame()
		_, hl := splitFrame(f)
		k := int(f[0] >> 4)
		if len(bodies[k]) < 12 && len(f) < 3000 {
			bodies[k] = append(bodies[k], f[hl:])
		}
	}
	bodies[0] = append(bodies[0], []byte{1, 2, 3}, g.bytesN(40))
	for b := 0; b < 256; b++ {
		for _, body := range bodies[b>>4] {
			if b>>4 == 3 && len(body) > 0 {
				// a PUBLISH body is valid for a given QoS only: rebuild it
				p := mq.NewPublish()
				p.SetTopicName("t/" + string(rune('a'+g.pick(26))))
				p.SetPacketID(uint16(1 + g.pick(65535)))
				p.SetQoS(uint8((b >> 1) & 3))
				p.SetPayload(g.bytesN(g.pick(5)))
				f := frameOf(p)
				_, hl := splitFrame(f)
				body = f[hl:]
			}
			checkFirst(byte(b), body)
		}
	}
	// big bodies: a type-0 frame of 64 KiB and more keeps all its bytes; frames whose remaining
	// length needs the third and the fourth length byte are dispatched like any other
	for _, sz := range []int{65535, 65536, 70000, 2097151, 2097152} {
		checkFirst(byte(g.pick(16)), g.bytesN(sz))
	}
	for _, sz := range []int{16384, 2097151, 2097152, 2100000} {
		codes := bytesRepeat(byte(g.pick(3)), sz-3)
		checkFirst(0x90, append([]byte{0, 7, 0}, codes...))
		checkFirst(0xb0, append([]byte{0, 7, 0}, codes...))
		checkFirst(byte(0xc0+0x10*g.pick(2)), g.bytesN(sz)) // PINGREQ/PINGRESP ignore their body
		// an acknowledgement made large by user properties
		var ups []byte
		for len(ups) < sz-16 {
			v := g.bytesN(60000)
			if rest := sz - 16 - len(ups) - 7; rest < len(v) {
				if rest < 0 {
					rest = 0
				}
				v = v[:rest]
			}
			ups = append(ups, 0x26, 0, 1, 'k', byte(len(v)>>8), byte(len(v)))
			ups = append(ups, v...)
		}
		body := append([]byte{0, 7, 0}, append(vbEnc(uint64(len(ups))), ups...)...)
		checkFirst(byte(0x40+0x10*g.pick(2)), body)
		checkFirst(0x62, body)
		checkFirst(0x70, body)
		checkFirst(0xe0, body[2:])
	}
	r.sample(map[string]string{"first byte": "0x3b", "expect": "PUBLISH dup=1 qos=1 retain=1, rewritten first byte 0x3b"})
}

func bytesEq(a, b []byte) bool {
	if len(a) != len(b) {
		return false
	}
	for i := range a {
		if a[i] != b[i] {
			return false
		}
	}
	return true
}

// ---------------------------------------------------------------- C01

func init() {
	oracles["C01"] = oracleC01
	oracles["C10"] = oracleC10
	oracles["C11"] = oracleC11
	oracles["C12"] = oracleC12
	oracles["C17"] = oracleC17
}

// domainCalls: a packet of the C01 domain as a call list.
func (g *G) domainCalls(k int) []string {
	g.domain = true
	defer func() { g.domain = false }()
	var cs []string
	switch g.pick(3) {
	case 0:
		cs = g.subset(k, 15+g.pick(85))
	case 1:
		cs = g.calls(k, 1+g.pick(10))
	default:
		cs = g.subset(k, 100)
	}
	return cs
}

// roundTripRec: the accessors of the built packet are first compared with the record of the
// values its own setters were given (what the program does with its own variables afterwards is
// not a call on the packet), then the packet goes through roundTrip.
func roundTripRec(r *report, k int, cs []string) {
	c := "H " + strconv.Itoa(k) + sp(cs)
	ok := func() (ok bool) {
		defer func() {
			if e := recover(); e != nil {
				r.fail("roundtrip-panic", c, fmt.Sprint(e))
			}
		}()
		p := build(k, cs)
		rec := newSpec(k)
		for _, call := range cs {
			rec.apply(call)
		}
		if got, want := snapshot(p), rec.snapshot(); got != want {
			r.fail("roundtrip-accessors", c, "set "+trunc(want)+" but the packet reports (and writes) "+trunc(got))
			return false
		}
		return true
	}()
	if ok {
		roundTrip(r, k, cs)
	}
}

func roundTrip(r *report, k int, cs []string) {
	c := "H " + strconv.Itoa(k) + sp(cs)
	defer func() {
		if e := recover(); e != nil {
			r.fail("roundtrip-panic", c, fmt.Sprint(e))
		}
	}()
	p := build(k, cs)
	want := snapshot(p)
	f := frameOf(p)
	o := readOnce(oneChunk(f))
	switch {
	case o.panic:
		r.fail("roundtrip-panic", c, "ReadPacket panicked on "+trunc(hexs(f)))
	case o.kind < 0:
		r.fail("roundtrip-rejected", c, "ReadPacket: "+o.err+" on "+trunc(hexs(f)))
	case o.kind != k:
		r.fail("roundtrip-type", c, fmt.Sprintf("type %d", o.kind))
	case o.snap != want:
		r.fail("roundtrip-accessors", c, "set "+trunc(want)+" read "+trunc(o.snap))
	case o.enc != "enc="+hexs(f):
		r.fail("roundtrip-reencode", c, "first "+trunc(hexs(f))+" second "+trunc(o.enc))
	case o.got != len(f):
		r.fail("roundtrip-consumed", c, fmt.Sprintf("%d of %d", o.got, len(f)))
	}
	// the same frame through readers that deliver it in pieces (C01 is about ReadPacket on any
	// reader): two halves with the error-free style, and - for short frames - one byte per Read
	// with zero-length reads in between and io.EOF together with the last byte
	if o.kind == k && o.snap == want && len(f) > 1<<16 {
		// frames above 64 KiB through readers that deliver less than asked for: halves, and
		// pieces of a few thousand bytes with the last one together with io.EOF
		var pieces []int
		for rest, sz := len(f), 3000+len(f)%4096; rest > 0; rest -= sz {
			if sz > rest {
				sz = rest
			}
			pieces = append(pieces, sz)
		}
		for di, parts := range [][]int{{len(f) / 2, len(f) - len(f)/2}, pieces} {
			o2 := readOnce(scriptOf(f, parts, false, di))
			if o2.panic || o2.kind != k || o2.snap != want || o2.enc != o.enc || o2.got != len(f) {
				r.fail("roundtrip-fragmented", c, fmt.Sprintf("delivery %d (pieces of %d bytes) of a frame of %d bytes: %s", di, parts[0], len(f), trunc(o2.verdict())))
				break
			}
		}
	}
	if o.kind == k && o.snap == want && len(f) >= 2 && len(f) <= 1<<16 {
		deliveries := [][]int{{len(f) / 2, len(f) - len(f)/2}, {1, 1, len(f) - 2}}
		if len(f) <= 600 {
			ones := make([]int, len(f))
			for i := range ones {
				ones[i] = 1
			}
			deliveries = append(deliveries, ones)
		}
		for di, parts := range deliveries {
			var ps []int
			for _, x := range parts {
				if x > 0 {
					ps = append(ps, x)
				}
			}
			o2 := readOnce(scriptOf(f, ps, di == 2, di%2))
			if o2.panic || o2.kind != k || o2.snap != want || o2.enc != o.enc {
				r.fail("roundtrip-fragmented", c, fmt.Sprintf("delivery %d of frame %s: %s, contiguous %s", di, trunc(hexs(f)), trunc(o2.verdict()), trunc(o.verdict())))
				break
			}
		}
	}
	rlForm := 1
	if rl, _ := splitFrame(f); rl > 127 {
		rlForm = len(vbEnc(uint64(rl)))
	}
	r.eval(fmt.Sprintf("type%d-rl%d", k, rlForm), len(cs) > 0, c)
}

type kcs struct {
	k  int
	cs []string
}

var roOps = []string{"~String", "~Dump", "~WriteTo", "~WellFormed", "~Acc", "~FailWrite", "~String", "~WriteTo", "~PartWrite", "~PartWrite:3"}

// interleaveRO inserts read-only operations into a history (at least one of
// them before the last call): what a packet was asked earlier must not matter.
func (g *G) interleaveRO(cs []string) []string {
	if len(cs) == 0 {
		return cs
	}
	out := []string{}
	first := g.pick(len(cs))
	for i, c := range cs {
		if i == first || g.chance(25) {
			out = append(out, roOps[g.pick(len(roOps))])
			if g.chance(30) {
				out = append(out, roOps[g.pick(len(roOps))])
			}
		}
		out = append(out, c)
	}
	return out
}

func hasSetter(k int, name string) bool {
	for _, st := range settersOf(k) {
		if st.name == name {
			return true
		}
	}
	return false
}

func stripRO(cs []string) []string {
	var out []string
	for _, c := range cs {
		switch c {
		case "~String", "~Dump", "~WriteTo", "~WellFormed", "~Acc", "~FailWrite", "~PartWrite", "~PartWrite:3":
		default:
			out = append(out, c)
		}
	}
	return out
}

// rewriteCases: a packet that is written (or printed) in the middle of its history and
// changed afterwards - a field made shorter, made longer, a list element or user property
// added: what the earlier write computed must not show in the later one.
func rewriteCases(g *G) []kcs {
	var out []kcs
	mids := []string{"~WriteTo", "~String", "~WriteTo", "~PartWrite:3", "~Dump"}
	for _, k := range allKinds {
		base := baseCalls(k)
		for _, st := range settersOf(k) {
			long, short := hexs(g.bytesN(20+g.pick(60))), hexs(g.bytesN(1+g.pick(5)))
			mid := mids[g.pick(len(mids))]
			var a, b string
			switch st.typ {
			case "str", "bin":
				a, b = st.name+":"+long, st.name+":"+short
			case "up":
				a, b = st.name+":6b:"+long, st.name+":6b32:"+short
			case "filter":
				a, b = st.name+":"+long+":1", st.name+":"+short+":2"
			case "ufilter":
				a, b = st.name+":"+long, st.name+":"+short
			case "u16", "u32", "u8", "rc", "bool":
				a, b = st.name+":1", st.name+":0"
			default:
				continue
			}
			cat := func(xs ...[]string) []string {
				var o []string
				for _, x := range xs {
					o = append(o, x...)
				}
				return o
			}
			out = append(out, kcs{k, cat(base, []string{a, mid, b})})
			out = append(out, kcs{k, cat(base, []string{b, mid, a})})
			out = append(out, kcs{k, cat(base, []string{mid, a})})
			if st.typ == "up" {
				// the exported UserProperties slice changed in place by the program
				out = append(out, kcs{k, cat(base, []string{a, mid, "~UPSet:0:6b:" + short})})
				out = append(out, kcs{k, cat(base, []string{b, a, mid, "~UPSet:1:6b6b:" + long, mids[g.pick(len(mids))], "~UPSet:0:6b:" + short})})
			}
		}
	}
	return out
}

// minimal valid history per type (what a packet needs besides the field under test)
func baseCalls(k int) []string {
	switch k {
	case 3:
		return []string{"SetTopicName:74"}
	case 8:
		return []string{"SetPacketID:3", "AddFilter:61:1"}
	case 10:
		return []string{"SetPacketID:3", "AddUnsubFilter:61"}
	case 9, 11:
		return []string{"SetPacketID:3", "AddReasonCode:0"}
	case 4, 5, 6, 7:
		return []string{"SetPacketID:3"}
	}
	return nil
}

// stringBoundaryCases: every string/binary setter of every type (and of the will)
// with values of 0, 1, 127, 128, 16383, 16384, 65533, 65534 and 65535 bytes.
func stringBoundaryCases(g *G, lens []int) []kcs {
	var out []kcs
	for _, k := range allKinds {
		for _, st := range settersOf(k) {
			for _, l := range lens {
				v := hexs(g.bytesN(l))
				if l == 0 {
					v = "-"
				}
				var call string
				switch st.typ {
				case "str", "bin":
					call = st.name + ":" + v
				case "up":
					if l == 0 {
						continue
					}
					if g.chance(50) {
						call = st.name + ":" + v + ":76"
					} else {
						call = st.name + ":6b:" + v
					}
				case "filter":
					call = st.name + ":" + v + ":1"
				case "ufilter":
					call = st.name + ":" + v
				default:
					continue
				}
				out = append(out, kcs{k, append(append([]string{}, baseCalls(k)...), call)})
			}
		}
	}
	for _, st := range willSetters {
		if st.typ != "str" && st.typ != "bin" {
			continue
		}
		for _, l := range lens {
			out = append(out, kcs{1, []string{"SetWill:[SetTopicName:74;" + st.name + ":" + hexs(g.bytesN(l)) + "]"}})
		}
	}
	return out
}

// propBoundaryCases: packets whose property section is exactly 127..129, 255..257,
// 383..385, 16383..16385 bytes long (a user property padded to fit), for every
// type that carries user properties, and for the will properties.
func propBoundaryCases(g *G) []kcs {
	var out []kcs
	targets := []int{126, 127, 128, 129, 255, 256, 257, 383, 384, 385, 512, 16383, 16384, 16385, 16512}
	for _, k := range allKinds {
		hasUP := false
		for _, st := range settersOf(k) {
			if st.typ == "up" {
				hasUP = true
			}
		}
		if !hasUP {
			continue
		}
		for _, t := range targets {
			// identifier (1) + key length (2) + key (1) + value length (2) + value
			n := t - 6
			out = append(out, kcs{k, append(append([]string{}, baseCalls(k)...), "AddUserProp:6b:"+hexs(g.bytesN(n)))})
			// ... and split over two properties
			out = append(out, kcs{k, append(append([]string{}, baseCalls(k)...), "AddUserProp:6b:"+hexs(g.bytesN(n-10)), "AddUserProp:61:"+hexs(g.bytesN(4)))})
		}
	}
	for _, t := range targets {
		out = append(out, kcs{1, []string{"SetWill:[SetTopicName:74;AddUserProp:6b:" + hexs(g.bytesN(t-6)) + "]"}})
	}
	return out
}

// boundaryCases builds, for every packet type with a string field, packets whose remaining
// length is exactly 126..129 and 16382..16385: the sizes at which the remaining-length field
// changes form (also hits property-length boundaries on the way).
func boundaryCases(g *G) []kcs {
	grow := map[int]string{1: "SetClientID", 2: "SetReasonString", 3: "SetPayload", 4: "SetReasonString", 5: "SetReasonString",
		6: "SetReasonString", 7: "SetReasonString", 8: "AddFilter", 9: "SetReasonString", 10: "AddUnsubFilter",
		11: "SetReasonString", 14: "AddUserProp", 15: "SetAuthMethod"}
	var out []kcs
	for k, setter := range grow {
		mk := func(n int) []string {
			v := hexs(bytesRepeat('a', n))
			switch setter {
			case "AddFilter":
				return []string{"SetPacketID:3", "AddFilter:" + v + ":1"}
			case "AddUserProp":
				return []string{"AddUserProp:6b:" + v}
			case "SetPayload":
				return []string{"SetTopicName:74", "SetPayload:" + v}
			}
			return []string{setter + ":" + v}
		}
		base := func(n int) int {
			rl, _ := splitFrame(frameOf(build(k, mk(n))))
			return rl
		}
		for _, target := range []int{126, 127, 128, 129, 16382, 16383, 16384, 16385} {
			// the remaining length grows by one per byte of the value, except where a property
			// length changes form: search the neighbourhood
			guess := target - base(1) + 1
			for d := -3; d <= 3; d++ {
				if n := guess + d; n >= 1 && n <= 65535 && base(n) == target {
					out = append(out, kcs{k, mk(n)})
					break
				}
			}
		}
	}
	return out
}

func trunc(s string) string {
	if len(s) > 300 {
		return s[:300] + "..."
	}
	return s
}

func oracleC01(r *report, g *G, n int, single string) {
	pollute(g) // frames rejected or decoded earlier in the process must not matter
	if single != "" {
		f := splitWS(single)
		if len(f) >= 2 && (f[0] == "H" || f[0] == "W") {
			k, _ := strconv.Atoi(f[1])
			cs := f[2:]
			if f[0] == "W" {
				cs = f[3:]
			}
			if k != 0 {
				if strings.Contains(single, "~Reuse") {
					roundTripRec(r, k, cs)
				} else {
					roundTrip(r, k, cs)
				}
			}
		}
		return
	}
	for _, l := range corpusLines("hist") {
		f := splitWS(l)
		k, _ := strconv.Atoi(f[1])
		roundTrip(r, k, f[2:])
	}
	// empty packets of every type
	for _, k := range allKinds {
		roundTrip(r, k, nil)
	}
	for i := 0; i < n; i++ {
		k := g.kind()
		g.big = g.chance(8)
		cs := g.domainCalls(k)
		if g.chance(25) {
			cs = g.interleaveRO(cs) // written or printed before it was complete
		}
		if k == 8 && g.chance(40) {
			// the program goes on using the TopicFilter variables it passed to AddFilters: the
			// packet must still hold, write and read back the values that were set on it
			cs = append(cs, "~Reuse")
			if g.chance(50) {
				cs = append(cs, "AddFilter:"+hexs(g.nonEmpty())+":1")
			}
			roundTripRec(r, k, cs)
			continue
		}
		roundTrip(r, k, cs)
	}
	for _, f := range []string{"73656e736f72732f6b69746368656e2f74656d70", "61", "612f622f63"} {
		roundTripRec(r, 8, []string{"SetPacketID:5", "AddFilter:" + f + ":1", "~Reuse"})
		roundTripRec(r, 8, []string{"SetPacketID:5", "AddFilter:" + f + ":1", "AddFilter:" + f + ":2", "~WriteTo", "~Reuse", "AddFilter:62:0"})
	}
	g.big = true
	g.domain = true
	for _, rc := range rewriteCases(g) {
		roundTrip(r, rc.k, domainFix(rc.k, rc.cs))
	}
	g.domain = false
	// boundary lengths of every string/binary field, and sizes that move the remaining length form
	for _, l := range []int{0, 1, 127, 128, 16383, 16384, 65534, 65535} {
		s := hexs(g.bytesN(l))
		if l == 0 {
			s = "-"
		}
		roundTrip(r, 3, []string{"SetTopicName:" + s, "SetQoS:1", "SetPacketID:7"})
		roundTrip(r, 3, []string{"SetTopicName:74", "SetCorrelationData:" + s, "SetResponseTopic:" + s, "SetContentType:" + s})
		roundTrip(r, 1, []string{"SetClientID:" + s, "SetUsername:" + s, "SetPassword:" + s})
		roundTrip(r, 1, []string{"SetWill:[SetTopicName:" + s + ";SetPayload:" + s + ";SetQoS:2;SetRetain:1]", "SetAuthData:" + s})
		roundTrip(r, 2, []string{"SetReasonString:" + s, "SetAssignedClientID:" + s, "SetAuthData:" + s})
		roundTrip(r, 4, []string{"SetPacketID:9", "SetReasonString:" + s})
		roundTrip(r, 8, []string{"SetPacketID:9", "AddFilter:" + s + ":1", "AddFilter:61:2"})
		roundTrip(r, 10, []string{"SetPacketID:9", "AddUnsubFilter:" + s})
		roundTrip(r, 15, []string{"SetAuthMethod:" + s, "SetReasonCode:24"})
		if l > 0 {
			roundTrip(r, 14, []string{"AddUserProp:" + s + ":" + s})
		}
	}
	for _, l := range []int{100, 127, 128, 16383 - 10, 16384, 2097151 - 10, 2097152 + 10, 3000000} {
		roundTrip(r, 3, []string{"SetTopicName:74", "SetPayload:" + hexs(g.bytesN(l))})
	}
	for _, bc := range boundaryCases(g) {
		roundTrip(r, bc.k, bc.cs)
	}
	for _, bc := range stringBoundaryCases(g, []int{65533, 65534, 65535}) {
		roundTrip(r, bc.k, bc.cs)
	}
	for _, bc := range propBoundaryCases(g) {
		roundTrip(r, bc.k, bc.cs)
	}
	// protocol names that resemble the default one
	for _, nm := range []string{"mqtt", "Mqtt", "MQTt", "mQTT", "MQT", "MQTTT", "MQTT ", " MQTT", "MQIsdp", "MQTT\x00", "\x00MQTT", "MQ", "M"} {
		roundTrip(r, 1, []string{"SetProtocolName:" + hexs([]byte(nm)), "SetClientID:63"})
		roundTrip(r, 1, []string{"SetProtocolName:" + hexs([]byte(nm)), "SetProtocolVersion:" + strconv.Itoa(3+g.pick(3)), "SetUsername:75"})
	}
	// a will attached twice (the second replaces the first in every respect), with every pair of QoS
	for q1 := 0; q1 < 3; q1++ {
		for q2 := 0; q2 < 3; q2++ {
			for ret := 0; ret < 2; ret++ {
				roundTrip(r, 1, []string{fmt.Sprintf("SetWill:[SetTopicName:74;SetQoS:%d;SetRetain:%d;SetPayload:7061]", q1, 1-ret),
					fmt.Sprintf("SetWill:[SetTopicName:75;SetQoS:%d;SetRetain:%d]", q2, ret)})
			}
		}
	}
	r.sample(map[string]string{"case": "H 1 SetWill:[SetRetain:1;SetQoS:2;SetTopicName:74] SetUsername:75", "check": "write, read, all accessors equal, re-encode identical"})
}

// ---------------------------------------------------------------- C10

// richWriter takes bytes through Write and through the optional interfaces the io package looks
// for, up to a budget; once the budget is used up every further byte is refused with err.
type richWriter struct {
	budget int
	err    error
	got    []byte
}

func (w *richWriter) Write(p []byte) (int, error) {
	n := len(p)
	if n > w.budget {
		n = w.budget
	}
	w.got = append(w.got, p[:n]...)
	w.budget -= n
	if n < len(p) {
		return n, w.err
	}
	return n, nil
}
func (w *richWriter) WriteByte(b byte) error {
	_, err := w.Write([]byte{b})
	return err
}
func (w *richWriter) WriteString(s string) (int, error) { return w.Write([]byte(s)) }
func (w *richWriter) ReadFrom(r io.Reader) (int64, error) {
	var total int64
	buf := make([]byte, 512)
	for {
		n, err := r.Read(buf)
		m, werr := w.Write(buf[:n])
		total += int64(m)
		if werr != nil {
			return total, werr
		}
		if err == io.EOF {
			return total, nil
		}
		if err != nil {
			return total, err
		}
	}
}

func oracleC10(r *report, g *G, n int, single string) {
	check := func(k int, cs []string) {
		c := "W " + strconv.Itoa(k) + " A" + sp(cs)
		defer func() {
			if e := recover(); e != nil {
				r.fail("write-panic", c, fmt.Sprint(e))
			}
		}()
		p := build(k, cs)
		w := &scriptWriter{mode: 'A'}
		nn, err := p.WriteTo(w)
		if k == 0 {
			if err == nil || nn != 0 || len(w.calls) != 0 {
				r.fail("write-undefined", c, fmt.Sprintf("n=%d err=%v calls=%d", nn, err, len(w.calls)))
			}
			r.eval("undefined", false, c)
			return
		}
		if len(w.calls) != 1 || err != nil || int(nn) != len(w.calls[0]) {
			r.fail("write-accept", c, fmt.Sprintf("n=%d err=%v calls=%d", nn, err, len(w.calls)))
			return
		}
		f := w.calls[0]
		rl, hl := splitFrame(f)
		if hl == 0 || hl+rl != len(f) || len(vbEnc(uint64(rl))) != hl-1 {
			r.fail("write-framing", c, fmt.Sprintf("frame of %d bytes: header %d remaining %d", len(f), hl, rl))
		}
		// String() prints the size
		s := p.String()
		want := fmt.Sprintf(" %d bytes", len(f))
		if !strings.Contains(s, want) {
			r.fail("write-string-size", c, fmt.Sprintf("String() %q lacks %q", s, want))
		}
		// failing writers
		ks := []int{}
		if len(f) <= 64 {
			for i := 0; i < len(f); i++ {
				ks = append(ks, i)
			}
		} else {
			ks = []int{0, 1, hl, hl + 1, 5 + g.pick(30), len(f) / 2, len(f) - 1, g.pick(len(f))}
		}
		for _, kk := range ks {
			e := injectedErr(1 + g.pick(9))
			if kk%3 == 1 {
				// errors a writer may well return: the library must hand back whatever it gets
				e = []error{io.ErrShortWrite, io.EOF, io.ErrClosedPipe, io.ErrUnexpectedEOF}[g.pick(4)]
			}
			sw := &scriptWriter{mode: 'S', k: kk, err: e}
			n2, err2 := p.WriteTo(sw)
			if len(sw.calls) != 1 || !bytesEq(sw.calls[0], f) || int(n2) != kk || err2 != e {
				r.fail("write-short", fmt.Sprintf("W %d S%d:1%s", k, kk, sp(cs)), fmt.Sprintf("n=%d err=%v calls=%d", n2, err2, len(sw.calls)))
			}
		}
		// a writer that also offers the optional fast paths of the io package (WriteByte,
		// WriteString, ReadFrom) and a budget of k bytes over all of them: whichever way the
		// bytes are handed over, the count returned is the number of bytes the writer took
		for _, kk := range append([]int{len(f), len(f) + 5}, ks...) {
			e := injectedErr(1 + g.pick(9))
			rw := &richWriter{budget: kk, err: e}
			n4, err4 := p.WriteTo(rw)
			took := kk
			if took > len(f) {
				took = len(f)
			}
			wantErr := error(nil)
			if kk < len(f) {
				wantErr = e
			}
			if int(n4) != len(rw.got) || !bytesEq(rw.got, f[:took]) || err4 != wantErr {
				r.fail("write-short", fmt.Sprintf("W %d S%d:1%s", k, kk, sp(cs)), fmt.Sprintf("a writer with WriteByte/WriteString/ReadFrom and room for %d bytes took %d bytes (%s), WriteTo returned n=%d err=%v; the frame is %s", kk, len(rw.got), trunc(hexs(rw.got)), n4, err4, trunc(hexs(f))))
				break
			}
		}
		e := injectedErr(3)
		fw := &scriptWriter{mode: 'F', err: e}
		n3, err3 := p.WriteTo(fw)
		if n3 != 0 || err3 != e || len(fw.calls) != 1 {
			r.fail("write-fail", "W "+strconv.Itoa(k)+" F3"+sp(cs), fmt.Sprintf("n=%d err=%v", n3, err3))
		}
		r.eval(fmt.Sprintf("type%d", k), len(cs) > 0, c)
	}
	if single != "" {
		f := splitWS(single)
		if len(f) >= 3 && f[0] == "W" {
			k, _ := strconv.Atoi(f[1])
			check(k, f[3:])
		}
		if len(f) >= 2 && f[0] == "H" {
			k, _ := strconv.Atoi(f[1])
			check(k, f[2:])
		}
		return
	}
	check(0, nil)
	for i := 0; i < 20; i++ {
		body := g.bytesN(1 + g.pick(40))
		f := append(append([]byte{byte(g.pick(16))}, vbEnc(uint64(len(body)))...), body...)
		if o := readOnce(oneChunk(f)); o.kind == 0 {
			w := &scriptWriter{mode: 'A'}
			nn, err := o.p.WriteTo(w)
			if err == nil || nn != 0 || len(w.calls) != 0 {
				r.fail("write-undefined", "R 1 "+hexs(f), fmt.Sprintf("an Undefined read from the wire was written: n=%d err=%v calls=%d", nn, err, len(w.calls)))
			}
			u := &mq.Undefined{}
			u.UnmarshalBinary(body)
			w = &scriptWriter{mode: 'A'}
			if nn, err := u.WriteTo(w); err == nil || nn != 0 || len(w.calls) != 0 {
				r.fail("write-undefined", "U 0 z "+hexs(body), fmt.Sprintf("an Undefined holding data was written: n=%d err=%v", nn, err))
			}
			r.eval("undefined-with-data", true, hexs(f))
		}
	}
	for _, k := range allKinds {
		check(k, nil)
	}
	for i := 0; i < n; i++ {
		k := g.kind()
		g.big = g.chance(5)
		g.domain = g.chance(60) // also malformed-but-constructible packets
		var cs []string
		if g.chance(50) {
			cs = g.subset(k, 20+g.pick(80))
		} else {
			cs = g.calls(k, 1+g.pick(8))
		}
		g.domain = false
		check(k, cs)
		// the same packet asked for its size, text or bytes while it was being built
		if len(cs) > 0 {
			csi := g.interleaveRO(cs)
			check(k, csi)
			if a, b := frameOf(build(k, csi)), frameOf(build(k, cs)); !bytesEq(a, b) {
				r.fail("write-after-readonly", "W "+strconv.Itoa(k)+" A"+sp(csi), "a packet that was printed or written while under construction writes "+trunc(hexs(a))+", the same calls without that "+trunc(hexs(b)))
			}
		}
	}
	for _, bc := range boundaryCases(g) {
		check(bc.k, bc.cs)
	}
	for _, bc := range stringBoundaryCases(g, []int{65533, 65534, 65535}) {
		check(bc.k, bc.cs)
	}
	for _, bc := range propBoundaryCases(g) {
		check(bc.k, bc.cs)
	}
	// written or printed, then changed (also in place: an element of UserProperties, a filter
	// through Filters()): the later frame is the frame of the same calls without the earlier look
	g.domain = true
	for _, rc := range rewriteCases(g) {
		check(rc.k, rc.cs)
		func() {
			defer func() { recover() }()
			if a, b := frameOf(build(rc.k, rc.cs)), frameOf(build(rc.k, stripRO(rc.cs))); !bytesEq(a, b) {
				r.fail("write-after-readonly", "W "+strconv.Itoa(rc.k)+" A"+sp(rc.cs), "a packet that was printed or written before it was changed writes "+trunc(hexs(a))+", the same calls without that "+trunc(hexs(b)))
			}
		}()
	}
	g.domain = false
	// frames above 64 KiB: still one Write, and the count of a writer that gives up anywhere
	for _, sz := range []int{65535, 65536, 65537, 70000, 200000} {
		check(3, []string{"SetTopicName:742f62", "SetPayload:" + hexs(g.bytesN(sz))})
		check(3, []string{"SetTopicName:742f62", "SetQoS:1", "SetPacketID:9", "AddUserProp:6b:76", "SetPayload:" + hexs(g.bytesN(sz))})
	}
	check(1, []string{"SetClientID:63", "SetWill:[SetTopicName:74;SetPayload:" + hexs(g.bytesN(65535)) + "]", "SetPassword:" + hexs(g.bytesN(65535))})
	r.sample(map[string]string{"case": "W 4 S3:7 SetPacketID:1", "expect": "one Write of the whole frame, n=3, err=injected"})
}

// ---------------------------------------------------------------- C11

func readOnlyOps(p mq.Packet, g *G) {
	for i := 0; i < 3; i++ {
		switch g.pick(7) {
		case 5: // writing to a writer that fails at once is still only writing
			p.WriteTo(&scriptWriter{mode: 'F', err: &readerErr{tag: 7}})
		case 6: // ... or that accepts a few bytes and then fails
			p.WriteTo(&scriptWriter{mode: 'S', k: g.pick(6), err: &readerErr{tag: 8}})
		case 0:
			_ = p.String()
		case 1:
			mq.Dump(io.Discard, p)
		case 2:
			if h, ok := p.(mq.HasWellFormed); ok {
				h.WellFormed()
			}
		case 3:
			snapshot(p)
		case 4:
			frameOf(p)
		}
	}
}

func oracleC11(r *report, g *G, n int, single string) {
	pollute(g)
	defer checkCanary(r, "after the determinism oracle")
	var crossCases []string
	check := func(k int, cs []string) {
		c := "W " + strconv.Itoa(k) + " A" + sp(cs)
		defer func() {
			if e := recover(); e != nil {
				r.fail("determinism-panic", c, fmt.Sprint(e))
			}
		}()
		p := build(k, cs)
		snap0 := snapshot(p)
		first := frameOf(p)
		// what a read-only call handed out stays what it was: the text String() returned
		// (kept as it was returned, and as a copy) is compared again after everything else
		text0 := p.String()
		textCopy := strings.Clone(text0)
		defer func() {
			_ = build(k, cs).String()
			// ... and other packets are printed in between
			_ = build(3, []string{"SetTopicName:" + hexs([]byte("another/topic/altogether")), "SetQoS:1", "SetPacketID:4711", "SetCorrelationData:7a7a7a7a7a7a7a7a"}).String()
			for _, kk := range allKinds {
				_ = build(kk, baseCalls(kk)).String()
			}
			if text0 != textCopy {
				r.fail("readonly-result-changes", c, fmt.Sprintf("the string String() returned reads %q later, it was %q", trunc(text0), trunc(textCopy)))
			}
		}()
		for i := 0; i < 32; i++ {
			readOnlyOps(p, g)
			if f := frameOf(p); !bytesEq(f, first) {
				r.fail("nondeterministic-encoding", c, "encoding "+strconv.Itoa(i)+": "+trunc(hexs(f))+" first: "+trunc(hexs(first)))
				return
			}
			if s := snapshot(p); s != snap0 {
				r.fail("readonly-op-mutates", c, "before "+trunc(snap0)+" after "+trunc(s))
				return
			}
		}
		// a second, independently built packet with the same history
		if f := frameOf(build(k, cs)); !bytesEq(f, first) {
			r.fail("nondeterministic-encoding", c, "two packets with the same history differ")
		}
		if len(crossCases) < 300 && len(first) < 3000 {
			crossCases = append(crossCases, c)
		}
		r.eval(fmt.Sprintf("type%d", k), len(cs) > 1, c)
	}
	if single != "" {
		f := splitWS(single)
		if len(f) >= 3 && f[0] == "W" {
			k, _ := strconv.Atoi(f[1])
			if k != 0 {
				check(k, f[3:])
			}
		}
		if len(f) >= 2 && f[0] == "H" {
			k, _ := strconv.Atoi(f[1])
			check(k, f[2:])
		}
		return
	}
	for _, l := range corpusLines("hist") {
		f := splitWS(l)
		k, _ := strconv.Atoi(f[1])
		check(k, f[2:])
	}
	// values beyond what a frame can carry (the encoder truncates the length prefix): reading
	// such a packet still changes nothing
	g.domain = false
	for _, bc := range stringBoundaryCases(g, []int{65536, 70000}) {
		check(bc.k, bc.cs)
	}
	// a read-only call in the middle of a history changes nothing that comes later: the frame
	// is the frame of the same calls without it
	g.domain = true
	for _, rc := range rewriteCases(g) {
		func() {
			c := "W " + strconv.Itoa(rc.k) + " A" + sp(rc.cs)
			defer func() {
				if e := recover(); e != nil {
					r.fail("determinism-panic", c, fmt.Sprint(e))
				}
			}()
			pa, pb := build(rc.k, rc.cs), build(rc.k, stripRO(rc.cs))
			if a, b := frameOf(pa), frameOf(pb); !bytesEq(a, b) {
				r.fail("readonly-op-mutates", c, "with the read-only calls the packet writes "+trunc(hexs(a))+", without them "+trunc(hexs(b)))
			} else if sa, sb := pa.String(), pb.String(); sa != sb {
				r.fail("readonly-op-mutates", c, fmt.Sprintf("with the read-only calls String() is %q, without them %q", trunc(sa), trunc(sb)))
			}
			r.eval("rewrite", true, c)
		}()
	}
	g.domain = false
	for i := 0; i < n; i++ {
		k := g.kind()
		g.big = false
		cs := g.domainCalls(k)
		if k == 1 && g.chance(70) {
			// wills with many properties: the encoder used to range over a map here
			cs = append(cs, "SetWill:[SetTopicName:74;SetPayloadFormat:1;SetMessageExpiryInterval:5;SetContentType:63;SetResponseTopic:72;SetCorrelationData:64]", "SetWillDelayInterval:9")
		}
		check(k, cs)
		// outside the round-trip domain but inside this property: a will message that is
		// changed after it was attached (reading must still not write), several filters
		// handed over in one call from a slice the caller reuses, read-only calls in the
		// middle of the history
		switch {
		case k == 1:
			ws := willSetters[g.pick(len(willSetters))]
			old := g.domain
			g.domain = true
			cs2 := append(append([]string{}, cs...), "SetWill:["+[]string{"SetQoS:1", "SetQoS:2;SetRetain:1", "SetTopicName:74", ""}[g.pick(4)]+"]",
				"~WillSet:"+ws.name+":"+g.arg(ws), "~WillSet:SetRetain:"+g.boolS(), "~WillSet:SetQoS:"+strconv.Itoa(g.pick(3)))
			g.domain = old
			check(k, cs2)
		case k == 8:
			check(k, append(append([]string{}, cs...), "~Spread:612f62:1,63:2,642f23:0", "AddFilter:65:1"))
			// the packet's first filters come from a slice of the caller; what the caller does
			// with that slice afterwards is none of the packet's business
			func() {
				defer func() { recover() }()
				pre := []string{"SetPacketID:7", "~Spread:612f62:1,63:2,642f23:0"}
				if g.chance(50) {
					pre = append(pre, "AddFilter:65:1")
				}
				p := build(8, pre)
				before, snapBefore := frameOf(p), snapshot(p)
				applyCall(p, "~Reuse")
				if after := frameOf(p); !bytesEq(after, before) || snapshot(p) != snapBefore {
					r.fail("nondeterministic-encoding", "W 8 A"+sp(append(pre, "~Reuse")), "the packet writes "+trunc(hexs(after))+" after the caller reused the slice it had passed to AddFilters; before "+trunc(hexs(before)))
				}
			}()
		default:
			check(k, g.interleaveRO(cs))
		}
	}
	// packets that came from the wire: encoded now, and again after the clock has moved on
	{
		type dec struct {
			p    mq.Packet
			enc  []byte
			snap string
			f    []byte
		}
		var ds []dec
		g.domain, g.big = true, false
		for i := 0; i < 60; i++ {
			k := g.kind()
			cs := domainFix(k, g.subset(k, 100))
			if k == 3 {
				cs = append(cs, "SetMessageExpiryInterval:"+strconv.Itoa(2+g.pick(1000)))
			}
			if k == 1 {
				cs = append(cs, "SetSessionExpiryInterval:"+strconv.Itoa(2+g.pick(1000)), "SetWill:[SetTopicName:74;SetMessageExpiryInterval:30]", "SetWillDelayInterval:5", "SetKeepAlive:10")
			}
			f := frameOf(build(k, cs))
			if o := readOnce(oneChunk(f)); o.kind == k {
				ds = append(ds, dec{o.p, frameOf(o.p), snapshot(o.p), f})
			}
		}
		g.domain, g.big = false, true
		// other frames are decoded in the meantime (some carry properties their type has no field for)
		for j := 0; j < 30; j++ {
			sid := byte(1 + g.pick(100))
			for _, f := range [][]byte{{0x40, 6, 0, 9, 0, 2, 0x0b, sid}, {0x50, 6, 0, 9, 0, 2, 0x0b, sid}, {0x62, 6, 0, 9, 0, 2, 0x0b, sid},
				{0x70, 6, 0, 9, 0, 2, 0x0b, sid}, {0x20, 5, 0, 0, 2, 0x0b, sid}, {0xe0, 4, 0, 2, 0x0b, sid}, {0x90, 6, 0, 1, 2, 0x0b, sid, 0}} {
				readOnce(oneChunk(f))
			}
			readOnce(oneChunk(g.soupFrame()))
		}
		time.Sleep(2100 * time.Millisecond)
		for _, d := range ds {
			if e := frameOf(d.p); !bytesEq(e, d.enc) || snapshot(d.p) != d.snap {
				r.fail("nondeterministic-encoding", "R 1 "+hexs(d.f), "a decoded packet written again two seconds later: "+trunc(hexs(e))+", before "+trunc(hexs(d.enc)))
			}
			r.eval("decoded-later", true, hexs(d.f))
		}
	}
	// other processes (fresh hash seeds): same bytes
	if len(crossCases) > 0 {
		in := strings.Join(crossCases, "\n") + "\n"
		var outs []string
		for i := 0; i < 4; i++ {
			cmd := exec.Command(os.Args[0], "run")
			cmd.Stdin = strings.NewReader(in)
			out, err := cmd.Output()
			if err != nil {
				r.fail("cross-process-run", "implrun run", err.Error())
				break
			}
			outs = append(outs, string(out))
		}
		for i := 1; i < len(outs); i++ {
			if outs[i] != outs[0] {
				a, b := strings.Split(outs[0], "\n"), strings.Split(outs[i], "\n")
				for j := range a {
					if j < len(b) && a[j] != b[j] {
						r.fail("nondeterministic-encoding", crossCases[j], "process 0 and process "+strconv.Itoa(i)+" wrote different bytes")
						break
					}
				}
			}
		}
		// and the same bytes as in this process
		lines := strings.Split(outs[0], "\n")
		for j, c := range crossCases {
			f := splitWS(c)
			k, _ := strconv.Atoi(f[1])
			want := fmt.Sprintf("%s\tn=%d err=nil calls=%s", c, len(frameOf(build(k, f[3:]))), hexs(frameOf(build(k, f[3:]))))
			if j < len(lines) && lines[j] != want {
				r.fail("nondeterministic-encoding", c, "another process wrote different bytes")
			}
		}
		r.evalN("cross-process", 4*len(crossCases), 0)
	}
	r.sample(map[string]string{"case": "CONNECT with six will properties", "check": "33 encodings in process + 4 processes identical; snapshots unchanged by String/Dump/WellFormed/accessors"})
}

// ---------------------------------------------------------------- C12
// An independent record-of-fields model: every setter stores its
// argument under its own name, adders append; flags are functions of
// the stored values.

type specPkt struct {
	kind    int
	v       map[string]string // plain fields by accessor name, already rendered as obs
	ups     []string
	subids  []string
	filters []string
	ufilt   []string
	rcodes  []string
	subid   string // "" = not set
	will    *specPkt
}

func newSpec(k int) *specPkt {
	s := &specPkt{kind: k, v: map[string]string{}}
	if k == 1 {
		s.v["ProtocolVersion"] = "N5"
		s.v["ProtocolName"] = "S" + hexs([]byte("MQTT"))
	}
	return s
}

func (s *specPkt) get(name, def string) string {
	if x, ok := s.v[name]; ok {
		return x
	}
	return def
}

func obsOfArg(typ, arg string) string {
	switch typ {
	case "bool":
		return "B" + arg
	case "str", "bin":
		if arg == "" {
			arg = "-" // an empty, non-nil slice is the empty value too
		}
		return "S" + arg
	}
	return "N" + arg
}

func argType(k int, name string) string {
	for _, s := range append(append([]setter{}, settersOf(k)...), willSetters...) {
		if s.name == name {
			return s.typ
		}
	}
	return ""
}

func (s *specPkt) apply(tok string) {
	name, arg := tok, ""
	if i := strings.IndexByte(tok, ':'); i >= 0 {
		name, arg = tok[:i], tok[i+1:]
	}
	switch name {
	case "~String", "~Dump", "~WriteTo", "~FailWrite", "~PartWrite", "~WellFormed", "~Acc", "~Reuse":
		return // read-only operations, and what the caller does with its own slices, change nothing
	case "~UPSet":
		parts := strings.Split(arg, ":")
		if i, _ := strconv.Atoi(parts[0]); i < len(s.ups) {
			s.ups[i] = "L[S" + parts[1] + ",S" + parts[2] + "]"
		}
		return
	case "~FilterSet":
		parts := strings.Split(arg, ":")
		if i, _ := strconv.Atoi(parts[0]); i < len(s.filters) {
			s.filters[i] = "L[S" + parts[1] + ",N" + parts[2] + "]"
		}
		return
	case "~Spread":
		for _, it := range strings.Split(arg, ",") {
			s.apply("AddFilter:" + it)
		}
		return
	case "~UserProps":
		for _, it := range strings.Split(arg, ",") {
			s.apply("AddUserProp:" + it)
		}
		return
	case "~Feed":
		parts := strings.Split(arg, ">")
		if v, ok := s.v[parts[0]]; ok {
			s.v[parts[1]] = v
		} else {
			delete(s.v, parts[1])
		}
		return
	case "SetWill":
		w := newSpec(3)
		inner := arg[1 : len(arg)-1]
		if inner != "" {
			for _, c := range strings.Split(inner, ";") {
				w.apply(c)
			}
		}
		s.will = w
	case "AddUserProp":
		p := strings.Split(arg, ":")
		s.ups = append(s.ups, "L[S"+p[0]+",S"+p[1]+"]")
	case "AddSubscriptionID":
		s.subids = append(s.subids, "N"+arg)
	case "AddFilter":
		p := strings.Split(arg, ":")
		s.filters = append(s.filters, "L[S"+p[0]+",N"+p[1]+"]")
	case "AddUnsubFilter":
		s.ufilt = append(s.ufilt, "S"+arg)
	case "AddReasonCode":
		s.rcodes = append(s.rcodes, "N"+arg)
	case "SetSubscriptionID":
		s.subid = "Z" + arg
	case "SetQoS":
		q, _ := strconv.Atoi(arg)
		if q > 3 {
			q = 0 // documented: other values unset the QoS
		}
		s.v["QoS"] = "N" + strconv.Itoa(q)
	default:
		s.v[strings.TrimPrefix(name, "Set")] = obsOfArg(argType(s.kind, name), arg)
	}
}

func (s *specPkt) snapPublish() []string {
	return []string{s.get("Duplicate", "B0"), s.get("Retain", "B0"), s.get("QoS", "N0"),
		s.get("TopicName", "S-"), s.get("PacketID", "N0"), s.get("PayloadFormat", "B0"),
		s.get("MessageExpiryInterval", "N0"), s.get("TopicAlias", "N0"), s.get("ResponseTopic", "S-"),
		s.get("CorrelationData", "S-"), s.get("ContentType", "S-"), s.get("Payload", "S-"),
		ls(s.subids), ls(s.ups)}
}

func (s *specPkt) snapshot() string {
	var l []string
	switch s.kind {
	case 1:
		flags := 0
		if s.get("Username", "S-") != "S-" {
			flags |= 128
		}
		if s.get("Password", "S-") != "S-" {
			flags |= 64
		}
		if s.get("CleanStart", "B0") == "B1" {
			flags |= 2
		}
		if s.will != nil {
			flags |= 4
			if s.will.get("Retain", "B0") == "B1" {
				flags |= 32
			}
			q, _ := strconv.Atoi(s.will.get("QoS", "N0")[1:])
			if q < 3 {
				flags |= q << 3
			}
		}
		l = []string{"N" + strconv.Itoa(flags), s.get("CleanStart", "B0"), s.get("ProtocolVersion", "N0"),
			s.get("ProtocolName", "S-"), s.get("ClientID", "S-"), s.get("KeepAlive", "N0"),
			s.get("SessionExpiryInterval", "N0"), s.get("ReceiveMax", "N0"), s.get("MaxPacketSize", "N0"),
			s.get("TopicAliasMax", "N0"), s.get("RequestResponseInfo", "B0"), s.get("RequestProblemInfo", "B0"),
			s.get("AuthMethod", "S-"), s.get("AuthData", "S-"), s.get("Username", "S-"), s.get("Password", "S-"),
			s.get("WillDelayInterval", "N0"), ls(s.ups)}
		if s.will != nil {
			l = append(l, ls(s.will.snapPublish()))
		} else {
			l = append(l, "L[]")
		}
	case 2:
		fl := "N0"
		if s.get("SessionPresent", "B0") == "B1" {
			fl = "N1"
		}
		l = []string{fl, s.get("SessionPresent", "B0"), s.get("SessionExpiryInterval", "N0"),
			s.get("ReceiveMax", "N0"), s.get("MaxQoS", "N0"), s.get("RetainAvailable", "B0"),
			s.get("MaxPacketSize", "N0"), s.get("AssignedClientID", "S-"), s.get("TopicAliasMax", "N0"),
			s.get("ReasonCode", "N0"), s.get("ReasonString", "S-"), s.get("WildcardSubAvailable", "B0"),
			s.get("SubIdentifiersAvailable", "B0"), s.get("SharedSubAvailable", "B0"),
			s.get("ServerKeepAlive", "N0"), s.get("ResponseInformation", "S-"), s.get("ServerReference", "S-"),
			s.get("AuthMethod", "S-"), s.get("AuthData", "S-"), ls(s.ups)}
	case 3:
		l = s.snapPublish()
	case 4, 5, 6, 7:
		l = []string{s.get("PacketID", "N0"), s.get("ReasonCode", "N0"), s.get("ReasonString", "S-"), ls(s.ups)}
	case 8:
		sid := s.subid
		if sid == "" {
			sid = "Z-1"
		}
		l = []string{s.get("PacketID", "N0"), sid, ls(s.filters), ls(s.ups)}
	case 9, 11:
		l = []string{s.get("PacketID", "N0"), s.get("ReasonString", "S-"), ls(s.rcodes), ls(s.ups)}
	case 10:
		l = []string{s.get("PacketID", "N0"), ls(s.ufilt), ls(s.ups)}
	case 12, 13:
	case 14:
		l = []string{s.get("ReasonCode", "N0"), s.get("SessionExpiryInterval", "N0"), s.get("ReasonString", "S-"), s.get("ServerReference", "S-"), ls(s.ups)}
	case 15:
		l = []string{s.get("ReasonCode", "N0"), s.get("ReasonString", "S-"), s.get("AuthMethod", "S-"), s.get("AuthData", "S-"), ls(s.ups)}
	}
	return strings.Join(l, ";")
}

func oracleC12(r *report, g *G, n int, single string) {
	inDomain := false
	check := func(k int, cs []string) {
		c := "H " + strconv.Itoa(k) + sp(cs)
		defer func() {
			if e := recover(); e != nil {
				r.fail("setter-panic", c, fmt.Sprint(e))
			}
		}()
		p := newPacket(k)
		s := newSpec(k)
		for i, call := range cs {
			applyCall(p, call)
			s.apply(call)
			if got, want := snapshot(p), s.snapshot(); got != want {
				r.fail("setter-accessor", "H "+strconv.Itoa(k)+sp(cs[:i+1]),
					fmt.Sprintf("after step %d (%s): accessors %s, last-write-wins record %s", i+1, trunc(call), trunc(got), trunc(want)))
				return
			}
		}
		// the encoded frame reflects the same final state: read it back (for states inside
		// the C01 domain, where everything set is carried by the frame)
		if inDomain {
			f := frameOf(p)
			o := readOnce(oneChunk(f))
			if o.kind != k || o.snap != s.snapshot() {
				r.fail("frame-does-not-reflect-state", c, "frame "+trunc(hexs(f))+" reads back as "+trunc(o.verdict())+" expected "+trunc(s.snapshot()))
			}
		}
		r.eval(fmt.Sprintf("type%d-len%d", k, min(len(cs), 9)), len(cs) >= 2, c)
	}
	if single != "" {
		f := splitWS(single)
		if len(f) >= 2 && f[0] == "H" {
			k, _ := strconv.Atoi(f[1])
			check(k, f[2:])
		}
		return
	}
	for _, l := range corpusLines("hist") {
		f := splitWS(l)
		k, _ := strconv.Atoi(f[1])
		check(k, f[2:])
	}
	// exhaustive short histories over every boolean/flag setter with both values
	for _, k := range allKinds {
		var flagSetters []string
		for _, s := range settersOf(k) {
			switch s.typ {
			case "bool":
				flagSetters = append(flagSetters, s.name+":0", s.name+":1")
			case "qos":
				flagSetters = append(flagSetters, s.name+":0", s.name+":1", s.name+":2", s.name+":3")
			}
		}
		if k == 1 {
			flagSetters = append(flagSetters, "SetUsername:-", "SetUsername:75", "SetPassword:-", "SetPassword:", "SetPassword:70",
				"SetWill:[SetQoS:1]", "SetWill:[SetQoS:2;SetRetain:1]", "SetWill:[]")
		}
		m := len(flagSetters)
		if m == 0 {
			continue
		}
		depth := 3
		if m > 14 {
			depth = 2
		}
		idx := make([]int, depth)
		for {
			var cs []string
			for _, i := range idx {
				cs = append(cs, flagSetters[i])
			}
			check(k, cs)
			j := 0
			for j < depth {
				idx[j]++
				if idx[j] < m {
					break
				}
				idx[j] = 0
				j++
			}
			if j == depth {
				break
			}
		}
	}
	for i := 0; i < n; i++ {
		k := g.kind()
		g.big = g.chance(3)
		g.domain = g.chance(70)
		inDomain = g.domain
		cs := g.calls(k, 1+g.pick(12))
		g.domain = false
		if inDomain {
			cs = lastWriteDomain(k, cs)
		}
		if k == 8 && g.chance(40) {
			// several filters in one call, from a slice the caller goes on using
			var items []string
			for j := 0; j < 1+g.pick(4); j++ {
				items = append(items, strings.TrimPrefix(g.arg(setter{"AddFilter", "filter"}), "AddFilter:"))
			}
			at := g.pick(len(cs) + 1)
			if g.chance(50) {
				at = 0 // the first filters of the packet
			}
			cs = append(append(append([]string{}, cs[:at]...), "~Spread:"+strings.Join(items, ",")), cs[at:]...)
			at2 := at + 1 + g.pick(len(cs)-at)
			cs = append(append(append([]string{}, cs[:at2]...), "~Reuse"), cs[at2:]...)
		} else if k == 8 && g.chance(50) {
			// the caller recycles the TopicFilter variables it passed to AddFilters
			cs = append(cs, "~Reuse")
			if g.chance(50) {
				cs = append(cs, "AddFilter:"+hexs(g.nonEmpty())+":1")
			}
		}
		if (k == 1 || k == 3) && g.chance(30) && len(cs) > 0 {
			// a slice an accessor returned is handed to another setter of the same packet
			feeds := map[int][]string{1: {"~Feed:Password>AuthData", "~Feed:AuthData>Password"}, 3: {"~Feed:Payload>CorrelationData", "~Feed:CorrelationData>Payload"}}[k]
			at := 1 + g.pick(len(cs))
			cs = append(append(append([]string{}, cs[:at]...), feeds[g.pick(2)]), cs[at:]...)
		}
		if hasSetter(k, "AddUserProp") && g.chance(25) {
			var items []string
			for j := 0; j < 2+g.pick(3); j++ {
				g.domain = true
				items = append(items, strings.TrimPrefix(g.arg(setter{"AddUserProp", "up"}), "AddUserProp:"))
				g.domain = false
			}
			at := g.pick(len(cs) + 1)
			cs = append(append(append([]string{}, cs[:at]...), "~UserProps:"+strings.Join(items, ",")), cs[at:]...)
		}
		if g.chance(40) {
			cs = g.interleaveRO(cs)
		}
		check(k, cs)
		inDomain = false
	}
	// setters on packets that came off the wire: a packet decoded from a frame and the packet
	// the frame was written from are the same packet (C01) - the same further calls must
	// leave them the same, accessor for accessor and byte for byte
	twin := func(k int, hist, more []string) {
		c := "H " + strconv.Itoa(k) + sp(hist) + " | decoded, then" + sp(more)
		defer func() {
			if e := recover(); e != nil {
				r.fail("setter-panic", c, fmt.Sprint(e))
			}
		}()
		built := build(k, hist)
		o := readOnce(oneChunk(frameOf(built)))
		if o.kind != k || o.snap != snapshot(built) {
			return
		}
		if g.chance(50) {
			_ = o.p.String()
		}
		for i, call := range more {
			applyCall(built, call)
			applyCall(o.p, call)
			if a, b := snapshot(o.p), snapshot(built); a != b {
				r.fail("setter-on-decoded", c, fmt.Sprintf("after step %d (%s) the decoded packet has %s, the built one %s", i+1, trunc(call), trunc(a), trunc(b)))
				return
			}
		}
		if a, b := hexs(frameOf(o.p)), hexs(frameOf(built)); a != b {
			r.fail("setter-on-decoded", c, "frames differ: decoded "+trunc(a)+" built "+trunc(b))
		}
		r.eval(fmt.Sprintf("decoded-type%d", k), len(more) >= 1, c)
	}
	for i := 0; i < n/3+20; i++ {
		k := g.kind()
		g.big = false
		hist := domainFix(k, g.domainCalls(k))
		g.domain = true
		more := g.calls(k, 1+g.pick(4))
		g.domain = false
		twin(k, hist, more)
	}
	g.big = true
	// a CONNECT may carry the user-name or password flag with a zero-length value: after a
	// setter call the flag follows the value set, whatever the wire said before
	for _, fl := range []byte{0x80, 0x40, 0xc0, 0x82, 0xc2} {
		body := []byte{0, 4, 'M', 'Q', 'T', 'T', 5, fl, 0, 0, 0, 0, 1, 'c'}
		if fl&0x80 != 0 {
			body = append(body, 0, 0)
		}
		if fl&0x40 != 0 {
			body = append(body, 0, 0)
		}
		frame := append([]byte{0x10, byte(len(body))}, body...)
		for _, calls := range [][]string{{"SetUsername:-"}, {"SetPassword:-"}, {"SetPassword:"}, {"SetUsername:-", "SetPassword:-"},
			{"SetUsername:75", "SetUsername:-"}, {"SetPassword:70", "SetPassword:-"}, {"SetClientID:64", "SetUsername:-", "SetPassword:-"}} {
			c := "R 1 " + hexs(frame) + " | decoded, then" + sp(calls)
			o := readOnce(oneChunk(frame))
			conn, ok := o.p.(*mq.Connect)
			if o.kind != 1 || !ok {
				r.fail("setter-on-decoded", c, "a CONNECT with flag and empty value is rejected: "+trunc(o.verdict()))
				continue
			}
			func() {
				defer func() {
					if e := recover(); e != nil {
						r.fail("setter-panic", c, fmt.Sprint(e))
					}
				}()
				touchedU, touchedP := false, false
				for _, call := range calls {
					applyCall(conn, call)
					touchedU = touchedU || strings.HasPrefix(call, "SetUsername:")
					touchedP = touchedP || strings.HasPrefix(call, "SetPassword:")
				}
				if touchedU && conn.HasFlag(mq.UsernameFlag) != (conn.Username() != "") {
					r.fail("setter-on-decoded", c, fmt.Sprintf("user name %q but user-name flag %v", conn.Username(), conn.HasFlag(mq.UsernameFlag)))
				}
				if touchedP && conn.HasFlag(mq.PasswordFlag) != (len(conn.Password()) > 0) {
					r.fail("setter-on-decoded", c, fmt.Sprintf("password of %d bytes but password flag %v", len(conn.Password()), conn.HasFlag(mq.PasswordFlag)))
				}
			}()
			r.eval("decoded-connect-flags", true, c)
		}
	}
	// a user property added alone, then several in one call, then one more (any type that has them)
	for _, k := range allKinds {
		if hasSetter(k, "AddUserProp") {
			for n := 2; n <= 5; n++ {
				var items []string
				for j := 0; j < n; j++ {
					items = append(items, hexs([]byte{byte('a' + j)})+":"+hexs([]byte{byte('A' + j)}))
				}
				for pre := 0; pre <= 3; pre++ {
					var cs []string
					for j := 0; j < pre; j++ {
						cs = append(cs, "AddUserProp:70"+hexs([]byte{byte('0' + j)})+":76")
					}
					cs = append(cs, "~UserProps:"+strings.Join(items, ","), "AddUserProp:7a:7a")
					inDomain = true
					check(k, append(append([]string{}, baseCalls(k)...), cs...))
					inDomain = false
				}
			}
		}
	}
	// names whose 32-bit FNV-1a (and other common string hashes) collide, set one after the other
	for _, pair := range [][2]string{{"costarring", "liquid"}, {"declinate", "macallums"}, {"altarage", "zinke"}, {"altarages", "zinkes"},
		{"Aa", "BB"}, {"AaAa", "BBBB"}, {"AaBB", "BBAa"}} {
		for _, cs := range [][]string{
			{"SetTopicName:" + hexs([]byte(pair[0])), "SetTopicName:" + hexs([]byte(pair[1]))},
			{"SetTopicName:" + hexs([]byte(pair[1])), "SetResponseTopic:" + hexs([]byte(pair[0])), "SetTopicName:" + hexs([]byte(pair[0])), "SetContentType:" + hexs([]byte(pair[1]))}} {
			inDomain = true
			check(3, cs)
			inDomain = false
		}
		check(1, []string{"SetClientID:" + hexs([]byte(pair[0])), "SetUsername:" + hexs([]byte(pair[1])), "SetClientID:" + hexs([]byte(pair[1])),
			"SetWill:[SetTopicName:" + hexs([]byte(pair[0])) + "]", "SetWill:[SetTopicName:" + hexs([]byte(pair[1])) + "]"})
		check(8, []string{"AddFilter:" + hexs([]byte(pair[0])) + ":1", "AddFilter:" + hexs([]byte(pair[1])) + ":1"})
		check(10, []string{"AddUnsubFilter:" + hexs([]byte(pair[0])), "AddUnsubFilter:" + hexs([]byte(pair[1]))})
	}
	// credentials in every combination and order, frame read back
	for _, cs := range [][]string{{"SetPassword:7077"}, {"SetUsername:75", "SetPassword:7077", "SetUsername:-"},
		{"SetPassword:7077", "SetUsername:75"}, {"SetUsername:75"}, {"SetPassword:7077", "SetPassword:-"},
		{"SetWill:[SetTopicName:74;SetQoS:1]", "SetWill:[SetTopicName:74;SetQoS:2]"},
		{"SetWill:[SetTopicName:74;SetQoS:2;SetRetain:1]", "SetWill:[SetTopicName:75]", "SetPassword:70"}} {
		inDomain = true
		check(1, cs)
		inDomain = false
	}
	r.sample(map[string]string{"case": "H 2 SetSessionPresent:1 SetSessionPresent:0", "check": "after every step all accessors equal the last-write-wins record"})
}

// lastWriteDomain keeps a history inside the C01 domain as far as its final state
// is concerned (see domainFix): what the frame cannot carry must not be set.
func lastWriteDomain(k int, cs []string) []string {
	out := domainFix(k, cs)
	if k == 1 {
		// SetWillDelayInterval before the first SetWill is fine (the final state has a will)
		return out
	}
	return out
}

func min(a, b int) int {
	if a < b {
		return a
	}
	return b
}

// ---------------------------------------------------------------- C17

func oracleC17(r *report, g *G, n int, single string) {
	judge := func(p mq.Packet, c string, src string, cs []string) {
		var want bool
		switch p := p.(type) {
		case *mq.Publish:
			q := p.QoS()
			want = (p.TopicName() == "" && p.TopicAlias() == 0) || ((q == 1 || q == 2) && p.PacketID() == 0) || q == 3
		case *mq.Subscribe:
			// the identifier is an unsigned quantity: a negative argument is out of range
			sid, set := int64(p.SubscriptionID()), p.SubscriptionID() != -1
			for _, call := range cs {
				if strings.HasPrefix(call, "SetSubscriptionID:") {
					sid, _ = strconv.ParseInt(call[18:], 10, 64)
					set = true
				}
			}
			want = len(p.Filters()) == 0 || (set && (sid > 268435455 || sid < 0))
			for _, f := range p.Filters() {
				if f.Filter() == "" || byte(f.Options())&3 == 3 {
					want = true
				}
				ff := f
				tw := (&ff).WellFormed() != nil
				if tw != (f.Filter() == "" || byte(f.Options())&3 == 3) {
					r.fail("wellformed-filter", c, fmt.Sprintf("%s: TopicFilter.WellFormed=%v for filter %q options %d", src, tw, f.Filter(), f.Options()))
				}
			}
		default:
			return
		}
		got := p.(mq.HasWellFormed).WellFormed() != nil
		if got != want {
			r.fail("wellformed-rule", c, fmt.Sprintf("%s: WellFormed error=%v, documented rules say %v", src, got, want))
		}
		if strings.Contains(p.String(), "malformed!") != got {
			r.fail("wellformed-string", c, fmt.Sprintf("%s: String() %q but WellFormed error=%v", src, p.String(), got))
		}
	}
	check := func(k int, cs []string) {
		c := "H " + strconv.Itoa(k) + sp(cs)
		defer func() {
			if e := recover(); e != nil {
				r.fail("wellformed-panic", c, fmt.Sprint(e))
			}
		}()
		p := build(k, cs)
		judge(p, c, "built", cs)
		// the rule is about the values the program set: a setter that quietly changes another
		// field (and WellFormed agreeing with the changed field) is caught here
		rec := newSpec(k)
		for _, call := range cs {
			rec.apply(call)
		}
		if got, want := snapshot(p), rec.snapshot(); got != want {
			r.fail("wellformed-state", c, "the packet WellFormed judges is not the packet the calls built: accessors "+trunc(got)+", calls "+trunc(want))
		}
		o := readOnce(oneChunk(frameOf(p)))
		if o.kind >= 0 {
			judge(o.p, c, "decoded", nil)
		}
		// the verdict is about the packet as it is now, whatever it was asked before:
		// the same history with WellFormed/String/... calls in between
		if len(cs) > 1 {
			csi := g.interleaveRO(cs)
			ci := "H " + strconv.Itoa(k) + sp(csi)
			pi := build(k, csi)
			judge(pi, ci, "built with earlier read-only calls", cs)
			// ... and a decoded packet that is changed afterwards
			early := false
			for _, call := range cs[:len(cs)-1] {
				if strings.HasPrefix(call, "SetSubscriptionID:") {
					early = true
				}
			}
			if o.kind >= 0 && !early {
				last := cs[len(cs)-1]
				func() {
					defer func() { recover() }()
					_ = o.p.String()
					applyCall(o.p, last)
					judge(o.p, c+" (decoded, printed, then "+last+")", "decoded then modified", []string{last})
				}()
			}
		}
		r.eval(fmt.Sprintf("type%d", k), true, c)
	}
	if single != "" {
		f := splitWS(single)
		if len(f) >= 2 && f[0] == "H" {
			k, _ := strconv.Atoi(f[1])
			check(k, f[2:])
		}
		return
	}
	// Publish: topic x alias x QoS x packet id x others
	for _, topic := range []string{"-", "74", "612f62"} {
		for _, alias := range []string{"0", "1", "3", "65535"} {
			for qos := 0; qos <= 4; qos++ {
				for _, pid := range []string{"0", "1", "65535"} {
					for other := 0; other < 3; other++ {
						cs := []string{"SetTopicName:" + topic, "SetTopicAlias:" + alias, "SetQoS:" + strconv.Itoa(qos), "SetPacketID:" + pid}
						if other == 1 {
							cs = append(cs, "SetPayload:0102", "SetRetain:1", "SetDuplicate:1")
						}
						if other == 2 {
							cs = append(cs, "AddUserProp:6b:76", "SetCorrelationData:63")
						}
						check(3, cs)
					}
				}
			}
		}
	}
	// Subscribe: number of filters x subscription id x all 256 option bytes x empty/non-empty
	for _, sid := range []string{"", "0", "1", "268435454", "268435455", "268435456", "268435457", "-1", "-268435456",
		"4294967295", "4294967296", "4294967301", "4563402751", "13153337343", "-4294967291", "1099511627776", "9223372036854775807", "-9223372036854775808"} {
		for nf := 0; nf <= 3; nf++ {
			for rep := 0; rep < 8; rep++ {
				var cs []string
				if sid != "" {
					cs = append(cs, "SetSubscriptionID:"+sid)
				}
				for j := 0; j < nf; j++ {
					f := "61"
					if g.chance(25) {
						f = "-"
					}
					cs = append(cs, "AddFilter:"+f+":"+strconv.Itoa(g.pick(256)))
				}
				check(8, cs)
			}
		}
	}
	for o := 0; o < 256; o++ {
		check(8, []string{"AddFilter:61:" + strconv.Itoa(o)})
		check(8, []string{"AddFilter:-:" + strconv.Itoa(o)})
		check(8, []string{"AddFilter:62:0", "AddFilter:61:" + strconv.Itoa(o)})
	}
	for i := 0; i < n; i++ {
		k := []int{3, 8}[g.pick(2)]
		check(k, g.calls(k, 1+g.pick(8)))
	}
	// a filter changed in place through the slice Filters() returned, after the packet was
	// judged or printed: good to bad, bad to good, at every position
	for nf := 1; nf <= 3; nf++ {
		for at := 0; at < nf; at++ {
			for _, ro := range []string{"~WellFormed", "~String", "~Dump"} {
				for _, to := range []string{"-:1", "61:3", "61:7", "62:2", "-:3"} {
					for _, from := range []string{"61:1", "-:0", "63:3"} {
						cs := []string{"SetPacketID:5"}
						for j := 0; j < nf; j++ {
							if j == at {
								cs = append(cs, "AddFilter:"+from)
							} else {
								cs = append(cs, "AddFilter:66:0")
							}
						}
						cs = append(cs, ro, fmt.Sprintf("~FilterSet:%d:%s", at, to))
						check(8, cs)
					}
				}
			}
		}
	}
	// QoS and packet identifier set in every order, QoS lowered and raised again
	for _, pid := range []string{"1", "7", "65535"} {
		for q1 := 0; q1 <= 4; q1++ {
			for q2 := 0; q2 <= 4; q2++ {
				for q3 := 1; q3 <= 2; q3++ {
					check(3, []string{"SetTopicName:74", "SetPacketID:" + pid, "SetQoS:" + strconv.Itoa(q1), "SetQoS:" + strconv.Itoa(q2), "SetQoS:" + strconv.Itoa(q3)})
					check(3, []string{"SetTopicName:74", "SetQoS:" + strconv.Itoa(q1), "SetPacketID:" + pid, "SetQoS:" + strconv.Itoa(q2), "SetQoS:" + strconv.Itoa(q3)})
				}
			}
		}
	}
	r.sample(map[string]string{"case": "H 3 SetTopicAlias:3", "expect": "well formed (alias instead of topic)"})
}

// ---------------------------------------------------------------- C18 / C19

func init() {
	oracles["C18"] = oracleC18
	oracles["C19"] = oracleC19
}

// utf8OfLen returns valid UTF-8 text of exactly n bytes made of 1-, 2- and 3-byte characters.
func utf8OfLen(g *G, n int) []byte {
	var b []byte
	for len(b) < n {
		rest := n - len(b)
		switch {
		case rest >= 3 && g.chance(30):
			b = append(b, []byte("\u20ac")...) // 3 bytes
		case rest >= 2 && g.chance(40):
			b = append(b, []byte("\u00e9")...) // 2 bytes
		default:
			b = append(b, byte('a'+g.pick(26)))
		}
	}
	return b
}

func renderBoth(p mq.Packet) (s string, d string, panicked bool) {
	defer func() {
		if e := recover(); e != nil {
			panicked = true
		}
	}()
	s = p.String()
	var b strings.Builder
	mq.Dump(&b, p)
	return s, b.String(), false
}

func oracleC18(r *report, g *G, n int, single string) {
	check := func(cs []string, u1, p1, u2, p2 []byte) {
		// the credentials are set at the same (random) point of both histories: before or
		// after the will, the client identifier and the rest
		at := 0
		if len(cs) > 0 {
			at = g.pick(len(cs) + 1)
		}
		if g.chance(40) {
			at = len(cs)
		}
		if len(cs) >= 2 && strings.HasPrefix(cs[1], "~Feed:") && at < 2 {
			at = 2 + g.pick(len(cs)-1)
		}
		mk := func(u, pw []byte) []string {
			out := append([]string{}, cs[:at]...)
			out = append(out, "SetUsername:"+hexs(u), "SetPassword:"+hexs(pw))
			return append(out, cs[at:]...)
		}
		c := "S 1" + sp(mk(u1, p1)) + " || " + hexs(u2) + " " + hexs(p2)
		a, b := build(1, mk(u1, p1)), build(1, mk(u2, p2))
		sa, da, pa := renderBoth(a)
		sb, db, pb := renderBoth(b)
		if pa || pb {
			r.fail("credentials-panic", c, "String/Dump panicked")
			return
		}
		if sa != sb || da != db {
			r.fail("credentials-disclosed", c, fmt.Sprintf("outputs differ: %q vs %q / %q vs %q", trunc(sa), trunc(sb), trunc(da), trunc(db)))
			return
		}
		// the same after a trip over the wire
		oa, ob := readOnce(oneChunk(frameOf(a))), readOnce(oneChunk(frameOf(b)))
		if oa.kind == 1 && ob.kind == 1 && len(u1) <= 65535 && len(p1) <= 65535 { // longer ones do not fit a frame
			sa, da, _ = renderBoth(oa.p)
			sb, db, _ = renderBoth(ob.p)
			if sa != sb || da != db {
				r.fail("credentials-disclosed", c, "decoded packets render differently")
			}
		}
		// a packet that already holds credentials is used as the target of UnmarshalBinary for a
		// CONNECT frame without them (flags cleared, fields kept): still nothing of the secret
		func() {
			defer func() { recover() }()
			bare := frameOf(build(1, []string{"SetClientID:63"}))
			_, hl := splitFrame(bare)
			a2, b2 := build(1, mk(u1, p1)), build(1, mk(u2, p2))
			ea := a2.(*mq.Connect).UnmarshalBinary(append([]byte{}, bare[hl:]...))
			eb := b2.(*mq.Connect).UnmarshalBinary(append([]byte{}, bare[hl:]...))
			if ea != nil || eb != nil {
				return
			}
			sa, da, pa := renderBoth(a2)
			sb, db, pb := renderBoth(b2)
			if pa || pb {
				r.fail("credentials-panic", c, "String/Dump panicked on a reused packet")
			} else if sa != sb || da != db {
				r.fail("credentials-disclosed", c, fmt.Sprintf("after UnmarshalBinary of a credential-free CONNECT into the packets: %q vs %q / %q vs %q", trunc(sa), trunc(sb), trunc(da), trunc(db)))
			}
		}()
		r.eval(fmt.Sprintf("len%d", min(len(u1), 9)), true, c)
	}
	if single != "" {
		return
	}
	for i := 0; i < n; i++ {
		g.big = false
		g.ascii = g.chance(70)
		cs := g.domainCalls(1)
		var filtered []string
		for _, c := range cs {
			if !strings.HasPrefix(c, "SetUsername:") && !strings.HasPrefix(c, "SetPassword:") {
				filtered = append(filtered, c)
			}
		}
		lu, lp := 1+g.pick(12), 1+g.pick(12)
		u1, u2 := g.bytesN(lu), g.bytesN(lu)
		p1, p2 := g.bytesN(lp), g.bytesN(lp)
		if g.chance(40) {
			// valid UTF-8 of equal byte length and different numbers of characters
			u1, u2 = utf8OfLen(g, lu), utf8OfLen(g, lu)
			p1, p2 = utf8OfLen(g, lp), utf8OfLen(g, lp)
		}
		switch g.pick(5) {
		case 0: // the secret coincides with the client id
			filtered = append(filtered, "SetClientID:"+hexs(u1))
		case 1: // ... with a user property value
			filtered = append(filtered, "AddUserProp:6b:"+hexs(p1))
		case 2: // ... with the will payload
			filtered = append(filtered, "SetWill:[SetTopicName:74;SetPayload:"+hexs(p1)+"]")
		case 3: // ... with the auth data
			filtered = append(filtered, "SetAuthData:"+hexs(p2), "SetAuthMethod:"+hexs(u2))
		}
		if g.chance(25) {
			// one of the pair is a string that software likes to treat specially (a byte order
			// mark, a substitution pattern, a wildcard, ...), the other any string of that length
			m := []byte(magic[g.pick(len(magic))])
			if g.chance(50) {
				m = append(m, g.bytesN(1+g.pick(4))...)
			}
			if len(m) > 0 {
				if g.chance(50) {
					u1, u2 = m, g.bytesN(len(m))
				} else {
					p1, p2 = m, g.bytesN(len(m))
				}
			}
		}
		if g.chance(25) {
			// a will whose topic or payload holds a pattern a broker would substitute
			pat := []string{"%u", "%c", "a/%u/%c", "%u/%p", "${username}", "$user"}[g.pick(6)]
			filtered = append(filtered, "SetWill:[SetTopicName:"+hexs([]byte(pat))+";SetPayload:"+hexs([]byte(pat))+";SetResponseTopic:"+hexs([]byte(pat))+"]")
		}
		if g.chance(20) {
			// an earlier password went from Password() into a field that is printed in clear;
			// the password set later must not show through
			filtered = append([]string{"SetPassword:" + hexs(g.bytesN(len(p1)+g.pick(6))), []string{"~Feed:Password>AuthData", "~Feed:Password>AuthData"}[g.pick(2)]}, filtered...)
			var f2 []string
			for _, c := range filtered {
				if !strings.HasPrefix(c, "SetAuthData:") {
					f2 = append(f2, c)
				}
			}
			filtered = f2
		}
		g.ascii = false
		check(filtered, u1, p1, u2, p2)
	}
	// credentials at and beyond the 65 535-byte limit: same length, different bytes around the limit
	for _, l := range []int{65534, 65535, 65536, 65537, 70000} {
		u1 := bytesRepeat('a', l)
		for _, tail := range [][]byte{[]byte("\xc3\xa9"), []byte("\xe2\x82\xac"), []byte("\xf0\x9f\x98\x80")} {
			for shift := 0; shift < len(tail); shift++ {
				at := 65535 - shift
				if at+len(tail) > l || at < 0 {
					continue
				}
				u2 := append([]byte{}, u1...)
				copy(u2[at:], tail)
				check([]string{"SetClientID:63"}, u1, []byte("pw"), u2, []byte("pw"))
				check([]string{"SetClientID:63"}, []byte("us"), u1, []byte("us"), u2)
			}
		}
	}
	r.sample(map[string]string{"pair": "user ab / zz, password 1 / 9, otherwise equal", "check": "String and Dump byte-identical, built and decoded"})
}

// writers a program may hand to Dump: one that can be locked from outside, one that locks
// itself in Write (and can be locked from outside too), one that fails
type lockableBuf struct {
	sync.Mutex
	bytes.Buffer
}
type selfLockingWriter struct {
	mu sync.Mutex
	n  int
}

func (w *selfLockingWriter) Lock()   { w.mu.Lock() }
func (w *selfLockingWriter) Unlock() { w.mu.Unlock() }
func (w *selfLockingWriter) Write(p []byte) (int, error) {
	w.mu.Lock()
	defer w.mu.Unlock()
	w.n += len(p)
	return len(p), nil
}

type failingWriter struct{}

func (failingWriter) Write(p []byte) (int, error) { return 0, io.ErrClosedPipe }

func oracleC19(r *report, g *G, n int, single string) {
	render := func(p mq.Packet, c string) {
		res, ok := runWithWatchdog(func() (res string) {
			_, _, pk := renderBoth(p)
			if pk {
				return "PANIC"
			}
			defer func() {
				if e := recover(); e != nil {
					res = "PANIC"
				}
			}()
			mq.Dump(&lockableBuf{}, p)
			mq.Dump(&selfLockingWriter{}, p)
			mq.Dump(failingWriter{}, p)
			mq.Dump(io.Discard, p)
			return ""
		})
		if !ok {
			r.fail("render-blocks", c, "String/Dump did not return")
			r.finish()
			os.Exit(1)
		}
		if res != "" {
			r.fail("render-panic", c, "String or Dump panicked")
		}
	}
	if single != "" {
		f := splitWS(single)
		switch {
		case len(f) >= 2 && (f[0] == "S" || f[0] == "H"):
			k, _ := strconv.Atoi(f[1])
			render(build(k, f[2:]), single)
		case len(f) == 2 && f[0] == "SR":
			if o := readOnce(oneChunk(unhex(f[1]))); o.kind >= 0 {
				render(o.p, single)
			}
		case len(f) == 2 && f[0] == "SZ":
			k, _ := strconv.Atoi(f[1])
			render(zeroPacket(k), single)
		}
		return
	}
	for k := 0; k < 16; k++ {
		render(zeroPacket(k), "SZ "+strconv.Itoa(k))
		render(newPacket(k), "S "+strconv.Itoa(k))
		r.eval("zero", true, "zero"+strconv.Itoa(k))
	}
	// all 256 values of each rendered byte
	for b := 0; b < 256; b++ {
		func() {
			defer func() {
				if e := recover(); e != nil {
					r.fail("render-byte-panic", "byte "+strconv.Itoa(b), fmt.Sprint(e))
				}
			}()
			_ = mq.VerifFirstByteString(byte(b))
			_ = mq.VerifConnectFlagsString(byte(b))
			_ = mq.VerifConnAckFlagsString(byte(b))
			_ = mq.NewTopicFilter("a", mq.Opt(b)).String()
			_ = mq.ReasonCode(b).String()
			// through packets decoded from the wire
			for _, f := range [][]byte{{byte(b), 0}, {0x20, 3, byte(b), byte(b), 0}, {0x10, 13, 0, 4, 'M', 'Q', 'T', 'T', 5, byte(b) &^ 4, 0, 0, 0, 0, 0},
				{0x82, 7, 0, 1, 0, 0, 1, 'a', byte(b)}, {0xe0, 1, byte(b)}, {0x50, 3, 0, 1, byte(b)}} {
				if o := readOnce(oneChunk(f)); o.kind >= 0 {
					render(o.p, "SR "+hexs(f))
				}
			}
		}()
	}
	r.evalN("byte-sweep", 256*11, 256*11-11)
	// setter histories
	for i := 0; i < n; i++ {
		k := g.kind()
		g.big = false
		cs := g.calls(k, 1+g.pick(8))
		c := "S " + strconv.Itoa(k) + sp(cs)
		render(build(k, cs), c)
		r.eval("history", true, c)
	}
	// packets under construction in states a program can reach through the API: the will
	// taken away again (if the setter accepts nil), attached twice, changed after attaching
	for _, cs := range [][]string{{"SetWill:[SetTopicName:74]", "SetWill:nil"}, {"SetWill:nil"}, {"SetWill:[SetQoS:2;SetRetain:1]", "SetWill:nil", "SetUsername:75"},
		{"SetWill:[SetTopicName:74]", "~WillSet:SetQoS:3", "~WillSet:SetTopicName:-"}, {"SetWill:[]", "SetWill:[SetTopicName:74]", "SetWill:nil", "SetWill:[SetQoS:1]"}} {
		c := "S 1" + sp(cs)
		var p mq.Packet
		ok := func() (ok bool) {
			defer func() { recover() }() // a setter that refuses nil is not String's business
			p = build(1, cs)
			return true
		}()
		if ok {
			render(p, c)
		}
		// the same on a CONNECT that came from the wire with a will
		if o := readOnce(oneChunk(frameOf(build(1, []string{"SetClientID:63", "SetWill:[SetTopicName:74;SetQoS:1]"})))); o.kind == 1 {
			ok := func() (ok bool) {
				defer func() { recover() }()
				for _, call := range cs {
					applyCall(o.p, call)
				}
				return true
			}()
			if ok {
				render(o.p, c+" (on a decoded CONNECT)")
			}
		}
		r.eval("will-states", true, c)
	}
	// a PUBLISH too large for any frame (String prints a size): the payload is reserved, not filled
	func() {
		defer func() {
			if e := recover(); e != nil {
				r.fail("render-panic", "S 3 SetTopicName:612f62 SetPayload:<268435456 bytes>", fmt.Sprint(e))
			}
		}()
		p := mq.NewPublish()
		p.SetTopicName("a/b")
		p.SetPayload(make([]byte, 268435456))
		_ = p.String()
		p.SetPayload(make([]byte, 268435450))
		_ = p.String()
		c := mq.NewConnect()
		w := mq.NewPublish()
		w.SetTopicName("a/b")
		c.SetWill(w)
		_ = c.String()
		r.eval("giant-publish", true, "giant")
	}()
	// successful decodes of hostile bytes
	g.hostileFrames(n, func(f []byte) {
		o := readOnce(oneChunk(f))
		if o.kind >= 0 {
			render(o.p, "SR "+hexs(f))
			r.eval("decoded", true, hexs(f))
		}
		// a failed UnmarshalBinary leaves a partly filled packet: still renderable
		_, hl := splitFrame(f)
		if hl > 0 && hl <= len(f) {
			p := zeroPacket(int(f[0] >> 4))
			func() {
				defer func() { recover() }()
				p.UnmarshalBinary(f[hl:])
			}()
			render(p, fmt.Sprintf("U %d z %s + render", f[0]>>4, hexs(f[hl:])))
		}
	})
	r.sample(map[string]string{"case": "SR 100d00044d5154540504000000000000", "check": "String and Dump return"})
}

// ---------------------------------------------------------------- C02 / C03 / C09
// These use the specification model (Spec/Mqtt5.v, extracted to OCaml):
// modelrun judges frames written by the library (C02) and generates the
// valid-frame language (C03) and must-reject frames (C09).

func init() {
	oracles["C02"] = oracleC02
	oracles["C03"] = oracleC03
	oracles["C09"] = oracleC09
}

func modelrunPath() string {
	if p := os.Getenv("VERIF_MODELRUN"); p != "" {
		return p
	}
	return "build/extract/modelrun"
}

func runModel(args []string, stdin string) ([]string, error) {
	cmd := exec.Command("bash", "-c", "ulimit -s unlimited 2>/dev/null; exec \"$0\" \"$@\"", modelrunPath())
	cmd.Args = append(cmd.Args, args...)
	cmd.Stdin = strings.NewReader(stdin)
	out, err := cmd.Output()
	if err != nil {
		return nil, err
	}
	return strings.Split(strings.TrimRight(string(out), "\n"), "\n"), nil
}

// mqttWellFormed: the C02 side conditions, from the call list.
func mqttWellFormed(k int, p mq.Packet) bool {
	switch p := p.(type) {
	case *mq.Connect:
		return p.ProtocolName() == "MQTT" && p.ProtocolVersion() == 5
	case *mq.Publish:
		q := p.QoS()
		return (p.TopicName() != "" || p.TopicAlias() != 0) && (q == 0 || p.PacketID() != 0) && q < 3
	case *mq.Subscribe:
		return len(p.Filters()) > 0
	case *mq.Unsubscribe:
		return len(p.Filters()) > 0
	case *mq.SubAck:
		return len(p.ReasonCodes()) > 0
	case *mq.UnsubAck:
		return len(p.ReasonCodes()) > 0
	}
	return true
}

// pollute exercises the library the way a long-running program does before the
// operation under test: frames with unusual protocol names and values decoded
// through ReadPacket and - what ReadPacket never does - into packets that came from
// the constructors, twice into the same packet, and writes that fail. Nothing of this
// may leave a trace in packets built or decoded afterwards.
func pollute(g *G) {
	un := func(k int, body []byte, times int) {
		defer func() { recover() }()
		p := newPacket(k)
		if u, ok := p.(interface{ UnmarshalBinary([]byte) error }); ok {
			for i := 0; i < times; i++ {
				u.UnmarshalBinary(body)
			}
		}
		p.WriteTo(&scriptWriter{mode: 'F', err: injectedErr(2)})
		p.WriteTo(&scriptWriter{mode: 'S', k: 1, err: injectedErr(2)})
		_ = p.String()
	}
	old := g.nomagic
	for i := 0; i < 60; i++ {
		f := g.validFrame()
		_, hl := splitFrame(f)
		if hl > 0 && hl <= len(f) {
			un(int(f[0]>>4), f[hl:], 1+g.pick(2))
			if m := g.mutate(f); g.chance(30) && len(m) > hl {
				un(int(f[0]>>4), m[hl:], 1)
				readOnce(oneChunk(m))
			}
			if g.chance(30) && len(f) > hl+1 {
				// a frame whose content is cut short, through ReadPacket (remaining length adjusted)
				cut := f[hl : hl+1+g.pick(len(f)-hl-1)]
				readOnce(oneChunk(append(append([]byte{f[0]}, vbEnc(uint64(len(cut)))...), cut...)))
			}
		}
	}
	g.nomagic = old
	for _, b0 := range []byte{0x20, 0x30, 0x40, 0x50, 0x62, 0x70, 0x82, 0x90, 0xa2, 0xb0, 0xe0, 0xf0, 0x10} {
		for _, body := range [][]byte{{0, 1, 0x10, 5}, {0, 1, 0, 2, 0x30, 0}, {0, 1}, {0}, {0, 1, 0, 0xff}} {
			readOnce(oneChunk(append([]byte{b0, byte(len(body))}, body...)))
		}
	}
	// last, so that nothing decoded later can put things right again: protocol names
	// other than the default one
	for _, nm := range []string{"MQTT", "MQIsdp", "abc", "x", "mq", "\x00\x00\x00\x00", "MQIs", "mqtt"} {
		c := mq.NewConnect()
		c.SetProtocolName(nm)
		c.SetProtocolVersion(uint8(3 + g.pick(3)))
		c.SetClientID("polluter")
		c.SetUsername("polluter-name")
		c.SetPassword([]byte("polluter-secret"))
		w := mq.NewPublish()
		w.SetTopicName("polluter/will")
		w.SetPayload([]byte("polluter-payload"))
		c.SetWill(w)
		f := frameOf(c)
		_, hl := splitFrame(f)
		un(1, f[hl:], 2)
		readOnce(oneChunk(f))
	}
}

// canary: what freshly constructed packets of every type write and print. Taken
// when the process starts and compared again after the oracle's work.
func canary() string {
	var b strings.Builder
	for _, k := range allKinds {
		func() {
			defer func() {
				if e := recover(); e != nil {
					b.WriteString("PANIC")
				}
			}()
			p := newPacket(k)
			b.WriteString(hexs(frameOf(p)) + " " + p.String() + " " + snapshot(p) + "|")
			p = build(k, baseCalls(k))
			b.WriteString(hexs(frameOf(p)) + " " + snapshot(p) + "|")
		}()
	}
	return b.String()
}

var canary0 = canary()

func checkCanary(r *report, where string) {
	if c := canary(); c != canary0 {
		i := 0
		for i < len(c) && i < len(canary0) && c[i] == canary0[i] {
			i++
		}
		lo := i - 60
		if lo < 0 {
			lo = 0
		}
		r.fail("global-state", "H 1", where+": freshly constructed packets no longer write/print what they did when the process started: ..."+trunc(c[lo:])+" before: ..."+trunc(canary0[lo:]))
	}
}

// exportedConstants: the named constants a program writes instead of numbers mean what MQTT says
// (3.8.3.1 subscription options, 2.1.3 header flags, 3.1.2 connect flags): a packet built with
// the name must carry the bit the specification gives that name
func exportedConstants(r *report) {
	defer func() {
		if e := recover(); e != nil {
			r.fail("conformance-panic", "exported constants", fmt.Sprint(e))
		}
	}()
	for _, c := range []struct {
		name string
		opt  mq.Opt
		want byte
	}{{"OptQoS1", mq.OptQoS1, 1}, {"OptQoS2", mq.OptQoS2, 2}, {"OptNL", mq.OptNL, 4}, {"OptRAP", mq.OptRAP, 8},
		{"OptRetain1", mq.OptRetain1, 16}, {"OptRetain2", mq.OptRetain2, 32}, {"OptNL|OptQoS1", mq.OptNL | mq.OptQoS1, 5}, {"OptRAP|OptRetain2|OptQoS2", mq.OptRAP | mq.OptRetain2 | mq.OptQoS2, 42}} {
		sub := mq.NewSubscribe()
		sub.SetPacketID(1)
		sub.AddFilters(mq.NewTopicFilter("a", c.opt))
		f := frameOf(sub)
		if len(f) == 0 || f[len(f)-1] != c.want {
			r.fail("frame-carries-other-values", "H 8 SetPacketID:1 AddFilter:61:"+strconv.Itoa(int(c.want)), fmt.Sprintf("a filter built with mq.%s is written with options byte %#02x, MQTT says %#02x (frame %s)", c.name, f[len(f)-1], c.want, hexs(f)))
		}
		if o := readOnce(oneChunk([]byte{0x82, 7, 0, 1, 0, 0, 1, 'a', c.want})); o.kind != 8 || len(o.p.(*mq.Subscribe).Filters()) != 1 || o.p.(*mq.Subscribe).Filters()[0].Options() != c.opt {
			r.fail("frame-carries-other-values", "R 1 82070001000001"+hexs([]byte{'a', c.want}), "options byte "+strconv.Itoa(int(c.want))+" is not reported as mq."+c.name)
		}
	}
	pub := mq.NewPublish()
	pub.SetTopicName("t")
	pub.SetRetain(true)
	if f := frameOf(pub); len(f) == 0 || f[0] != 0x30|mq.RETAIN || mq.RETAIN != 1 || mq.DUP != 8 || mq.QoS1 != 2 || mq.QoS2 != 4 {
		r.fail("frame-carries-other-values", "H 3 SetTopicName:74 SetRetain:1", "header flag constants RETAIN/QoS1/QoS2/DUP are not 1/2/4/8")
	}
	con := mq.NewConnect()
	con.SetCleanStart(true)
	if !con.HasFlag(mq.CleanStart) || mq.CleanStart != 2 || mq.WillFlag != 4 || mq.WillQoS1 != 8 || mq.WillQoS2 != 16 || mq.WillRetain != 32 || mq.PasswordFlag != 64 || mq.UsernameFlag != 128 {
		r.fail("frame-carries-other-values", "H 1 SetCleanStart:1", "connect flag constants are not the bits of 3.1.2.3")
	}
	r.eval("exported-constants", true, "constants")
}

func oracleC02(r *report, g *G, n int, single string) {
	exportedConstants(r)
	pollute(g)
	type job struct {
		c            string
		line         string
		validityOnly bool
	}
	var jobs []job
	validityOnly := false
	add := func(k int, cs []string) {
		c := "H " + strconv.Itoa(k) + sp(cs)
		var p mq.Packet
		ok := func() (ok bool) {
			defer func() {
				if e := recover(); e != nil {
					r.fail("conformance-panic", c, fmt.Sprint(e))
				}
			}()
			p = build(k, cs)
			return true
		}()
		if c1, isC := p.(*mq.Connect); ok && isC {
			// "keeps the default protocol name and version": a CONNECT whose history never
			// named either must carry MQTT / 5 (whatever the process did before)
			named := false
			for _, call := range cs {
				if strings.HasPrefix(call, "SetProtocolName:") || strings.HasPrefix(call, "SetProtocolVersion:") {
					named = true
				}
			}
			if !named && (c1.ProtocolName() != "MQTT" || c1.ProtocolVersion() != 5) {
				r.fail("default-protocol-name-lost", c, fmt.Sprintf("a CONNECT from NewConnect() has protocol name %q level %d", c1.ProtocolName(), c1.ProtocolVersion()))
				return
			}
		}
		if !ok || !mqttWellFormed(k, p) {
			return
		}
		snap := snapshot(p)
		if !validityOnly {
			rec := newSpec(k)
			for _, call := range cs {
				rec.apply(call)
			}
			if want := rec.snapshot(); snap != want {
				r.fail("frame-carries-other-values", c, "the packet does not hold what the calls set (so neither can its frame): accessors "+trunc(snap)+", calls "+trunc(want))
				return
			}
		}
		if snap == "" {
			snap = "."
		}
		f := frameOf(p)
		if len(f) > 300000 {
			return
		}
		jobs = append(jobs, job{c, "J " + hexs(f) + " " + snap, validityOnly})
	}
	if single != "" {
		f := splitWS(single)
		if len(f) >= 2 && (f[0] == "H" || f[0] == "W" || f[0] == "S") {
			k, _ := strconv.Atoi(f[1])
			cs := f[2:]
			if f[0] == "W" {
				cs = f[3:]
			}
			if k != 0 {
				add(k, cs)
			}
		}
	} else {
		for _, l := range corpusLines("hist") {
			f := splitWS(l)
			k, _ := strconv.Atoi(f[1])
			add(k, f[2:])
		}
		for _, k := range allKinds {
			add(k, nil)
		}
		for i := 0; i < n; i++ {
			k := g.kind()
			g.big = g.chance(4)
			cs := g.domainCalls(k)
			// give list-carrying types their mandatory element most of the time
			switch k {
			case 8:
				if g.chance(90) {
					cs = append(cs, "AddFilter:612f23:"+strconv.Itoa(g.pick(3)))
				}
			case 10:
				if g.chance(90) {
					cs = append(cs, "AddUnsubFilter:612f62")
				}
			case 9, 11:
				if g.chance(90) {
					cs = append(cs, "AddReasonCode:"+strconv.Itoa(g.pick(3)))
				}
			case 3:
				if g.chance(90) {
					cs = append(cs, "SetTopicName:742f31", "SetPacketID:"+strconv.Itoa(1+g.pick(65535)))
				}
			}
			cs = domainFix(k, cs)
			if g.chance(25) {
				cs = g.interleaveRO(cs) // written or printed before it was complete
			}
			if k == 8 && g.chance(40) {
				// the program goes on using the TopicFilter variables it passed to AddFilters
				cs = append(cs, "~Reuse")
				if g.chance(50) {
					cs = append(cs, "AddFilter:"+hexs(g.nonEmpty())+":1")
				}
			}
			if hasSetter(k, "AddUserProp") && g.chance(20) {
				var items []string
				g.domain = true
				for j := 0; j < 2+g.pick(3); j++ {
					items = append(items, strings.TrimPrefix(g.arg(setter{"AddUserProp", "up"}), "AddUserProp:"))
				}
				g.domain = false
				at := g.pick(len(cs) + 1)
				cs = append(append(append([]string{}, cs[:at]...), "~UserProps:"+strings.Join(items, ",")), cs[at:]...)
			}
			add(k, cs)
		}
		g.domain = true
		for _, rc := range rewriteCases(g) {
			add(rc.k, domainFix(rc.k, rc.cs))
		}
		g.domain = false
		// just outside the round-trip domain, where the frame must still be valid MQTT although
		// not every value set can be carried: a will that has a topic alias, subscription
		// identifiers, a packet identifier or DUP; a packet identifier on a QoS 0 PUBLISH; a will
		// delay without a will. Judged for validity only.
		validityOnly = true
		for i := 0; i < n/8+6; i++ {
			extras := []string{"SetTopicAlias:" + strconv.Itoa(1+g.pick(9)), "AddSubscriptionID:" + strconv.Itoa(1+g.pick(300)),
				"SetPacketID:" + strconv.Itoa(1+g.pick(999)), "SetDuplicate:1"}
			will := "SetTopicName:74;SetQoS:" + strconv.Itoa(g.pick(3)) + ";" + extras[i%len(extras)]
			if g.chance(50) {
				will += ";" + extras[g.pick(len(extras))]
			}
			add(1, []string{"SetClientID:63", "SetWill:[" + will + "]"})
			add(3, []string{"SetTopicName:74", "SetPacketID:" + strconv.Itoa(1+g.pick(999))})
			add(1, []string{"SetWillDelayInterval:" + strconv.Itoa(1+g.pick(99))})
		}
		validityOnly = false
	}
	if len(jobs) == 0 {
		return
	}
	var in strings.Builder
	for _, j := range jobs {
		in.WriteString(j.line)
		in.WriteByte('\n')
	}
	out, err := runModel(nil, in.String())
	if err != nil || len(out) != len(jobs) {
		r.fail("spec-judge-crashed", "modelrun", fmt.Sprintf("%v (%d of %d lines)", err, len(out), len(jobs)))
		return
	}
	for i, l := range out {
		res := l[strings.IndexByte(l, '\t')+1:]
		switch {
		case res == "OK":
		case res == "REJECTED":
			r.fail("frame-not-valid-mqtt", jobs[i].c, "the specification's strict decoder rejects "+trunc(strings.Fields(jobs[i].line)[1]))
		case jobs[i].validityOnly:
		default:
			r.fail("frame-carries-other-values", jobs[i].c, trunc(res)+" library="+trunc(strings.Fields(jobs[i].line)[2]))
		}
		r.eval("type"+strings.Fields(jobs[i].c)[1], len(jobs[i].c) > 6, jobs[i].c)
	}
	r.sample(map[string]string{"case": "H 4 SetPacketID:1 SetReasonString:78", "judge": "spec_decode(frame) accepts and yields the accessor values"})
}

func readLinesArg(args []string) []string {
	for i := 0; i+1 < len(args); i++ {
		if args[i] == "--file" {
			b, err := os.ReadFile(args[i+1])
			if err == nil {
				return strings.Split(strings.TrimRight(string(b), "\n"), "\n")
			}
		}
	}
	return nil
}

// collidingKeys: pairs of different strings of equal length that collide under the unkeyed 32-bit
// hash functions a cache or an intern table is likely to use (found by a birthday search at run
// time, the same pairs on every run).  A decoder that identifies a string by such a hash gives
// the second of a pair the text of the first.
var collidingOnce sync.Once
var collidingPairs [][2]string

func collidingKeys() [][2]string {
	collidingOnce.Do(func() {
		low := func(h hash.Hash64, s string) uint32 { h.Reset(); h.Write([]byte(s)); return uint32(h.Sum64()) }
		h32 := func(h hash.Hash32, s string) uint32 { h.Reset(); h.Write([]byte(s)); return h.Sum32() }
		f32a, f32, f64a, f64 := fnv.New32a(), fnv.New32(), fnv.New64a(), fnv.New64()
		cast := crc32.MakeTable(crc32.Castagnoli)
		hashes := []func(string) uint32{
			func(s string) uint32 { return h32(f32a, s) },
			func(s string) uint32 { return h32(f32, s) },
			func(s string) uint32 { return low(f64a, s) },
			func(s string) uint32 { return low(f64, s) },
			func(s string) uint32 { return crc32.ChecksumIEEE([]byte(s)) },
			func(s string) uint32 { return crc32.Checksum([]byte(s), cast) },
			func(s string) uint32 { return adler32.Checksum([]byte(s)) },
			func(s string) uint32 {
				h := uint32(5381)
				for i := 0; i < len(s); i++ {
					h = h*33 + uint32(s[i])
				}
				return h
			},
			func(s string) uint32 {
				h := uint32(0)
				for i := 0; i < len(s); i++ {
					h = h*31 + uint32(s[i])
				}
				return h
			},
		}
		const N = 400000
		key := func(i int) string {
			// ten characters spread over the alphabet (strings that differ in a few digits only
			// collide far less often than the birthday bound under FNV)
			x := (uint64(i) + 1) * 0x9e3779b97f4a7c15
			b := make([]byte, 10)
			for j := range b {
				b[j] = "abcdefghijklmnopqrstuvwxyz012345"[x&31]
				x >>= 5
			}
			return string(b)
		}
		for _, h := range hashes {
			seen := make(map[uint32]int32, N)
			found := 0
			for i := 0; i < N && found < 3; i++ {
				v := h(key(i))
				if j, ok := seen[v]; ok {
					collidingPairs = append(collidingPairs, [2]string{key(int(j)), key(i)})
					found++
				} else {
					seen[v] = int32(i)
				}
			}
		}
	})
	return collidingPairs
}

// collidingFrames: valid frames that carry the strings of a colliding pair one after the other -
// as user property key and value, reason string, topic name, client identifier - and both in
// one packet.
type carrierFrame struct {
	hex     string
	carries []string
}

func collidingFrames() []string {
	var out []string
	for _, cf := range collidingCarriers() {
		out = append(out, cf.hex)
	}
	return out
}

func collidingCarriers() []carrierFrame {
	str := func(s string) []byte { return append([]byte{byte(len(s) >> 8), byte(len(s))}, s...) }
	frame := func(b0 byte, body []byte) string {
		return hexs(append(append([]byte{b0}, vbEnc(uint64(len(body)))...), body...))
	}
	sect := func(props []byte) []byte { return append(vbEnc(uint64(len(props))), props...) }
	up := func(k, v string) []byte { return append(append([]byte{0x26}, str(k)...), str(v)...) }
	var out []carrierFrame
	for _, pr := range collidingKeys() {
		for _, s := range []string{pr[0], pr[1]} {
			for _, h := range []string{
				frame(0xe0, append([]byte{0}, sect(up(s, "v"))...)),
				frame(0xf0, append([]byte{0x18}, sect(up("k", s))...)),
				frame(0x40, append([]byte{0, 9, 0x10}, sect(append([]byte{0x1f}, str(s)...))...)),
				frame(0x30, append(append(str(s), 0), 'p')),
				frame(0x10, append([]byte{0, 4, 'M', 'Q', 'T', 'T', 5, 2, 0, 9, 0}, str(s)...)),
				frame(0xa2, append([]byte{0, 9, 0}, str(s)...)),
			} {
				out = append(out, carrierFrame{h, []string{s}})
			}
		}
		out = append(out, carrierFrame{frame(0xe0, append([]byte{0}, sect(append(up(pr[0], pr[1]), up(pr[1], pr[0])...))...)), []string{pr[0], pr[1]}})
		out = append(out, carrierFrame{frame(0x82, append(append(append([]byte{0, 9, 0}, str(pr[0])...), 1), append(str(pr[1]), 2)...)), []string{pr[0], pr[1]}})
	}
	return out
}

// emptyKeyFrames: valid frames of every type with a property section whose user properties
// include an empty key, an empty value, or both, before, between and after ordinary ones.
func emptyKeyFrames() []string {
	str := func(s string) []byte { return append([]byte{byte(len(s) >> 8), byte(len(s))}, s...) }
	up := func(k, v string) []byte { return append(append([]byte{0x26}, str(k)...), str(v)...) }
	sect := func(props []byte) []byte { return append(vbEnc(uint64(len(props))), props...) }
	frame := func(b0 byte, body []byte) string {
		return hexs(append(append([]byte{b0}, vbEnc(uint64(len(body)))...), body...))
	}
	var out []string
	for _, props := range [][]byte{
		up("", "2"), up("", ""), up("k", ""),
		append(append(up("k", "1"), up("", "2")...), up("k", "3")...),
		append(up("", "2"), up("k", "1")...),
		append(up("k", "1"), up("", "")...),
	} {
		sec := sect(props)
		out = append(out,
			frame(0x20, append([]byte{0, 0}, sec...)),
			frame(0x30, append(append([]byte{0, 1, 't'}, sec...), 'p')),
			frame(0x40, append([]byte{0, 9, 0x10}, sec...)),
			frame(0x50, append([]byte{0, 9, 0x10}, sec...)),
			frame(0x62, append([]byte{0, 9, 0x92}, sec...)),
			frame(0x70, append([]byte{0, 9, 0x92}, sec...)),
			frame(0x82, append(append([]byte{0, 9}, sec...), 0, 1, 'f', 1)),
			frame(0x90, append(append([]byte{0, 9}, sec...), 1)),
			frame(0xa2, append(append([]byte{0, 9}, sec...), 0, 1, 'f')),
			frame(0xb0, append(append([]byte{0, 9}, sec...), 0)),
			frame(0xe0, append([]byte{0}, sec...)),
			frame(0xf0, append([]byte{0x18}, sec...)),
			frame(0x10, append(append([]byte{0, 4, 'M', 'Q', 'T', 'T', 5, 2, 0, 9}, sec...), 0, 1, 'c')),
			frame(0x10, append(append([]byte{0, 4, 'M', 'Q', 'T', 'T', 5, 6, 0, 9, 0, 0, 1, 'c'}, sec...), 0, 1, 'w', 0, 1, 'p')),
		)
	}
	return out
}

func oracleC03(r *report, g *G, n int, single string) {
	check := func(hexFrame, want, self, tag string) {
		c := "SR " + hexFrame
		if self == "SELFCHECK-FAILED" {
			r.fail("spec-selfcheck", c, "the specification decoder does not read back its own encoder")
			return
		}
		f := unhex(hexFrame)
		o := readOnce(oneChunk(f))
		key := "valid-frame"
		if tag == "disc-props" {
			key = "disconnect-props-0x11-0x1c-0x1f"
		}
		if want == "." {
			want = ""
		}
		switch {
		case o.panic:
			r.fail(key+"-panic", c, "ReadPacket panicked")
		case o.kind < 0:
			if tag == "disc-props" {
				r.fail(key, c, "rejected: "+o.err)
			} else {
				r.fail(key+"-rejected", c, "rejected: "+o.err)
			}
		case o.kind != int(f[0]>>4):
			r.fail(key+"-type", c, fmt.Sprintf("type %d", o.kind))
		case o.snap != want:
			r.fail(key+"-misread", c, "frame carries "+trunc(want)+" library reports "+trunc(o.snap))
		}
		// a valid frame is a valid frame however its bytes arrive: the last bytes together with
		// io.EOF (allowed by io.Reader), in two pieces, through the standard readers
		if o.kind >= 0 && len(f) >= 2 {
			for i, rd := range []io.Reader{scriptOf(f, []int{len(f)}, false, 1), scriptOf(f, []int{len(f) / 2, len(f) - len(f)/2}, true, 1),
				iotest.DataErrReader(bytes.NewReader(f)), bytes.NewBuffer(append([]byte{}, f...)), bufio.NewReaderSize(bytes.NewReader(f), 16)} {
				if o2 := readNative(rd, f); o2.verdict() != o.verdict() {
					r.fail(key+"-delivery", c, fmt.Sprintf("delivery %d: %s, in one piece %s", i, trunc(o2.verdict()), trunc(o.verdict())))
					break
				}
			}
		}
		form := "long"
		if len(f) <= 5 {
			form = "short"
		}
		r.eval(fmt.Sprintf("type%d-%s", f[0]>>4, form), len(f) > 2, hexFrame)
	}
	pollute(g) // frames rejected or decoded earlier in the process must not matter
	if single != "" {
		f := splitWS(single)
		if len(f) == 2 && f[0] == "SR" {
			out, err := runModel(nil, "SD "+f[1]+"\n")
			if err == nil && len(out) == 1 {
				res := out[0][strings.IndexByte(out[0], '\t')+1:]
				if strings.HasPrefix(res, "P") {
					parts := strings.SplitN(res, " ", 2)
					want := ""
					if len(parts) == 2 {
						want = parts[1]
					}
					check(f[1], want, "selfcheck-ok", "-")
				}
			}
		}
		return
	}
	// corpus: the nine-byte DISCONNECT with a reason string, and the short forms
	out, err := runModel([]string{"gen03", strconv.FormatInt(g.r.Int63n(1<<30), 10), strconv.Itoa(n)}, "")
	if err != nil {
		r.fail("spec-generator-crashed", "modelrun gen03", fmt.Sprint(err))
		return
	}
	fixed := []string{"V e00781051f00026869 N129;N0;S6869;S-;L[] selfcheck-ok disc-props", "V 40020001 N1;N0;S-;L[] selfcheck-ok -",
		"V 4003000110 N1;N16;S-;L[] selfcheck-ok -", "V e000 N0;N0;S-;S-;L[] selfcheck-ok -", "V e00181 N129;N0;S-;S-;L[] selfcheck-ok -",
		"V f000 N0;S-;S-;S-;L[] selfcheck-ok -"}
	for _, l := range append(fixed, out...) {
		f := strings.Fields(l)
		if len(f) == 5 && f[0] == "V" {
			check(f[1], f[2], f[3], f[4])
		}
	}
	// strings that collide under common hash functions, decoded one after the other in this
	// process: each frame still gives the values it carries (judged by the specification decoder);
	// and user properties with an empty key or an empty value (legal on the wire, never written by
	// the library's own encoder) in every position, for every type that carries user properties
	cf := append(collidingFrames(), emptyKeyFrames()...)
	var in strings.Builder
	for _, h := range cf {
		in.WriteString("SD " + h + "\n")
	}
	if res, err := runModel(nil, in.String()); err != nil || len(res) != len(cf) {
		r.fail("spec-judge-crashed", "modelrun SD", fmt.Sprintf("%v (%d of %d lines)", err, len(res), len(cf)))
	} else {
		for i, l := range res {
			v := l[strings.IndexByte(l, '\t')+1:]
			if !strings.HasPrefix(v, "P") {
				r.fail("spec-selfcheck", "SR "+cf[i], "the specification decoder rejects a frame built from its text: "+v)
				continue
			}
			want := ""
			if parts := strings.SplitN(v, " ", 2); len(parts) == 2 {
				want = parts[1]
			}
			if want == "." {
				want = ""
			}
			f := unhex(cf[i])
			c := "SR " + cf[i]
			if i > 0 {
				c = "SR " + cf[i-1] + " SR " + cf[i] // the frame decoded just before it in this process
			}
			if o := readOnce(oneChunk(f)); o.panic || o.kind != int(f[0]>>4) || o.snap != want {
				r.fail("valid-frame-misread-after-another", c, "the last frame carries "+trunc(want)+", library: "+trunc(o.verdict()))
			}
			r.eval("colliding-strings", true, cf[i])
		}
	}
	r.sample(map[string]string{"frame": "4003000110", "carries": "PUBACK id 1 reason 0x10, short form of length 3"})
}

func oracleC09(r *report, g *G, n int, single string) {
	check := func(class, hexFrame string) {
		c := "R 1 " + hexFrame
		o := readOnce(oneChunk(unhex(hexFrame)))
		switch {
		case o.panic:
			r.fail("must-reject-panic", c, class)
		case o.kind >= 0:
			r.fail("must-reject-accepted:"+class, c, "accepted as "+trunc(o.verdict()))
		}
		r.eval(class, true, hexFrame)
	}
	if single != "" {
		return
	}
	for _, l := range []string{"cut-1 400100", "cut-4 2003000080", "cut-3 8206000100000561", "cut-5 900c0001091f00036162631f00"} {
		f := strings.Fields(l)
		check(f[0], f[1])
	}
	// (b) a remaining length that continues beyond four bytes, including the forms whose extra
	// groups carry no value bits (zero-padded): whatever the value, the fifth byte is too many
	for _, f := range [][]byte{{0xc0}, {0xd0}, {0xe0}, {0xf0}, {0x20, 0x00, 0x00, 0x00}, {0x40, 0x00, 0x01}, {0x40, 0x00, 0x01, 0x10},
		{0x30, 0x00, 0x01, 0x74, 0x00}, {0xb0, 0x00, 0x01, 0x00, 0x00}, {0x62, 0x00, 0x01}} {
		body := f[1:]
		for _, pad := range []int{4, 5, 7} {
			hdr := []byte{f[0], 0x80 | byte(len(body))}
			for i := 1; i < pad; i++ {
				hdr = append(hdr, 0x80)
			}
			hdr = append(hdr, 0x00)
			check("vbint-padded-"+strconv.Itoa(pad+1)+"-bytes", hexs(append(hdr, body...)))
		}
	}
	out, err := runModel([]string{"gen09", strconv.FormatInt(g.r.Int63n(1<<30), 10), strconv.Itoa(n)}, "")
	if err != nil {
		r.fail("spec-generator-crashed", "modelrun gen09", fmt.Sprint(err))
		return
	}
	skipped := 0
	for _, l := range out {
		f := strings.Fields(l)
		if len(f) == 4 && f[0] == "X" {
			if f[3] != "spec-rejects" {
				skipped++
				continue
			}
			check(f[1], f[2])
		}
	}
	stat("spec_accepted_variants_skipped", skipped)
	// the flags nibble of the first byte does not choose the decoder: a body that must be
	// rejected must be rejected under every flags nibble (PUBLISH excepted, whose flags
	// change the layout)
	cnt := 0
	for _, l := range out {
		f := strings.Fields(l)
		if len(f) == 4 && f[0] == "X" && f[3] == "spec-rejects" && cnt < n/4+50 && len(f[2]) < 600 {
			fr := unhex(f[2])
			if len(fr) < 2 || fr[0]>>4 == 3 || strings.HasPrefix(f[1], "vb5-remaining") {
				continue
			}
			fr2 := append([]byte{}, fr...)
			fr2[0] = fr[0]&0xf0 | byte(g.pick(16))
			check(f[1]+"-other-flags", hexs(fr2))
			cnt++
		}
	}
	// a subscription identifier in a packet that has no use for it is read and dropped - but
	// read it must be: five bytes, or the data ending inside it, is an error there too
	for i := 0; i < n/10+40; i++ {
		f := g.soupFrame()
		_, hl := splitFrame(f)
		body := append([]byte{}, f[hl:]...)
		at := bytes.IndexByte(body, 0x0b)
		if at < 1 || f[0]>>4 == 3 && false {
			continue
		}
		// make sure this 0x0b is an identifier: rebuild a frame whose only property is it
		bad := [][]byte{{0x0b, 0x80, 0x80, 0x80, 0x80, 0x01}, {0x0b, 0xff, 0xff, 0xff, 0xff, 0x7f}, {0x0b, 0x80, 0x80, 0x80, 0x80, 0x00}}[g.pick(3)]
		props := append(vbEnc(uint64(len(bad))), bad...)
		var fr []byte
		switch g.pick(7) {
		case 0:
			fr = append([]byte{0x20}, append(vbEnc(uint64(2+len(props))), append([]byte{0, 0}, props...)...)...)
		case 1:
			fr = append([]byte{0x40}, append(vbEnc(uint64(3+len(props))), append([]byte{0, 7, 0}, props...)...)...)
		case 2:
			fr = append([]byte{0xe0}, append(vbEnc(uint64(1+len(props))), append([]byte{0}, props...)...)...)
		case 3:
			fr = append([]byte{0xf0}, append(vbEnc(uint64(1+len(props))), append([]byte{0}, props...)...)...)
		case 4:
			fr = append([]byte{0x90}, append(vbEnc(uint64(3+len(props))), append(append([]byte{0, 7}, props...), 0)...)...)
		case 5:
			fr = append([]byte{0xa2}, append(vbEnc(uint64(5+len(props))), append(append([]byte{0, 7}, props...), 0, 1, 'a')...)...)
		default:
			fr = append([]byte{0x30}, append(vbEnc(uint64(3+len(props))), append([]byte{0, 1, 't'}, props...)...)...)
		}
		check("vb5-subid-stray", hexs(fr))
		// ... and the data ending on a continuation byte of it
		cutp := []byte{0x0b, 0x80}
		props2 := append(vbEnc(uint64(len(cutp))), cutp...)
		check("cut-subid-stray", hexs(append([]byte{0xe0}, append(vbEnc(uint64(1+len(props2))), append([]byte{0}, props2...)...)...)))
		check("cut-subid-stray", hexs(append([]byte{0x20}, append(vbEnc(uint64(2+len(props2))), append([]byte{0, 0}, props2...)...)...)))
	}
	r.sample(map[string]string{"frame": "2003000080", "class": "cut inside a multi-byte property length", "expect": "error, no packet"})
}

// ---------------------------------------------------------------- C13 / C14

func init() {
	oracles["C13"] = oracleC13
	oracles["C14"] = oracleC14
}

// oracleC13 is meant to run in the binary built with -race: data races are
// reported by the runtime on stderr; this function checks the bytes.
func oracleC13(r *report, g *G, n int, single string) {
	const workers = 8
	pollute(g) // earlier decodes and failed writes must not set up sharing between later operations
	for i := 0; i < n; i++ {
		k := g.kind()
		g.big = false
		cs := g.domainCalls(k)
		// a second packet of the same type with other content, used by the same goroutines:
		// operations on different packets must not meet in shared scratch memory either
		cs2 := g.domainCalls(k)
		p2 := build(k, cs2)
		want2 := frameOf(build(k, cs2))
		if g.chance(50) {
			build(k, cs2).WriteTo(&scriptWriter{mode: 'F', err: injectedErr(4)})
			build(k, cs).WriteTo(&scriptWriter{mode: 'S', k: 1, err: injectedErr(4)})
		}
		// p is touched by the goroutines only: what it should produce is computed on a
		// twin q built by the same calls, so that no sequential operation "warms up" p
		p, q := build(k, cs), build(k, cs)
		var shared *mq.Publish
		if c, ok := p.(*mq.Connect); ok {
			shared = c.Will() // also used directly by other goroutines
			if shared != nil && g.chance(50) {
				// the program went on using the will message after attaching it
				for _, call := range g.calls(3, 1+g.pick(3)) {
					applyCall(shared, call)
					applyCall(q.(*mq.Connect).Will(), call)
				}
			}
		}
		if k != 0 && g.chance(30) {
			// the shared packet came from the wire (what a decoder leaves behind - a buffer, a
			// callback - must not tie it to later decodes on other goroutines)
			if o := readOnce(oneChunk(frameOf(q))); o.kind == k {
				if o2 := readOnce(oneChunk(frameOf(q))); o2.kind == k {
					p, q = o.p, o2.p
					shared = nil
					if c, ok := p.(*mq.Connect); ok {
						shared = c.Will()
					}
				}
			}
		}
		want := frameOf(q)
		wantS, wantD, _ := renderBoth(q)
		// frames read concurrently from private streams, with their sequential results
		var frames [][]byte
		var verdicts []string
		for j := 0; j < 4; j++ {
			f := g.seqFrame()
			if j == 0 {
				f = append([]byte{byte(g.pick(16)), byte(2 + g.pick(3))}, g.bytesN(4)...)[:0]
				body := g.bytesN(1 + g.pick(6))
				f = append(append([]byte{byte(g.pick(16))}, vbEnc(uint64(len(body)))...), body...) // reserved type 0
			}
			frames = append(frames, f)
			verdicts = append(verdicts, readOnce(oneChunk(f)).verdict())
		}
		// frames carrying a property their type has no field for (accepted and dropped)
		sid := byte(1 + g.pick(100))
		for _, f := range [][]byte{{0x40, 6, 0, 9, 0, 2, 0x0b, sid}, {0x20, 5, 0, 0, 2, 0x0b, sid}, {0xe0, 4, 0, 2, 0x0b, sid},
			{0x90, 6, 0, 1, 2, 0x0b, sid, 0}, {0xf0, 4, 0, 2, 0x0b, sid}} {
			frames = append(frames, f)
			verdicts = append(verdicts, readOnce(oneChunk(f)).verdict())
		}
		c := "W " + strconv.Itoa(k) + " A" + sp(cs)
		var wg sync.WaitGroup
		seeds := make([]int64, workers)
		for w := range seeds {
			seeds[w] = g.r.Int63()
		}
		for w := 0; w < workers; w++ {
			wg.Add(1)
			go func(seed int64) {
				defer wg.Done()
				defer func() {
					if e := recover(); e != nil {
						r.fail("concurrent-panic", c, fmt.Sprint(e))
					}
				}()
				lg := newG(seed)
				var kept []string // what String() returned earlier stays what it was
				defer func() {
					for _, s := range kept {
						if s != wantS {
							r.fail("concurrent-string", c, fmt.Sprintf("a string String() returned earlier reads %q now, it was %q", trunc(s), trunc(wantS)))
							break
						}
					}
				}()
				for j := 0; j < 20; j++ {
					switch lg.pick(7) {
					case 0:
						if f := frameOf(p); !bytesEq(f, want) {
							r.fail("concurrent-bytes", c, "a concurrent WriteTo wrote "+trunc(hexs(f))+" sequential "+trunc(hexs(want)))
						}
					case 1:
						if f := frameOf(p2); !bytesEq(f, want2) {
							r.fail("concurrent-bytes", "W "+strconv.Itoa(k)+" A"+sp(cs2), "a WriteTo concurrent with writes of another packet wrote "+trunc(hexs(f))+" sequential "+trunc(hexs(want2)))
						}
					case 2:
						s := p.String()
						if s != wantS {
							r.fail("concurrent-string", c, s)
						}
						kept = append(kept, s)
						_ = p2.String() // another packet printed in between
					case 3:
						var b strings.Builder
						mq.Dump(&b, p)
						if b.String() != wantD {
							r.fail("concurrent-dump", c, "Dump differs")
						}
					case 4:
						if h, ok := p.(mq.HasWellFormed); ok {
							h.WellFormed()
						}
						snapshot(p)
					case 5:
						if shared != nil {
							frameOf(shared)
							_ = shared.String()
							snapshot(shared)
						}
					case 6:
						// ReadPacket on private streams
						o := readOnce(oneChunk(want))
						if o.kind != k {
							r.fail("concurrent-read", c, o.verdict())
						}
						fi := lg.pick(len(frames))
						if v := readOnce(oneChunk(frames[fi])).verdict(); v != verdicts[fi] {
							r.fail("concurrent-read", "R 1 "+hexs(frames[fi]), "concurrently "+trunc(v)+" sequentially "+trunc(verdicts[fi]))
						}
					}
				}
			}(seeds[w])
		}
		wg.Wait()
		r.eval(fmt.Sprintf("type%d", k), true, c)
	}
	r.sample(map[string]string{"case": "8 goroutines x 20 read-only operations on one shared CONNECT with will", "check": "race detector silent, all bytes equal the sequential encoding"})
}

func oracleC14(r *report, g *G, n int, single string) {
	pollute(g)
	defer checkCanary(r, "after the ownership oracle")
	scribble := func(k int, body []byte) {
		c := fmt.Sprintf("U %d z %s + overwrite input", k, hexs(body))
		defer func() {
			if e := recover(); e != nil {
				// panics are C04's business
			}
		}()
		// the body lies inside a larger read buffer, the next frame right behind it: decoding -
		// accepted or not - writes nothing into the buffer, inside or outside the slice it was given
		big := bytesRepeat(0xa5, len(body)+48)
		copy(big[16:], body)
		orig := append([]byte{}, big...)
		data := big[16 : 16+len(body)]
		p := zeroPacket(k)
		err := p.UnmarshalBinary(data)
		if !bytes.Equal(big, orig) {
			at := 0
			for at < len(big) && big[at] == orig[at] {
				at++
			}
			r.fail("writes-input", c, fmt.Sprintf("UnmarshalBinary on a slice of a read buffer changed the buffer at offset %d relative to the slice (length %d): %02x became %02x", at-16, len(body), orig[at], big[at]))
			return
		}
		if err != nil {
			return
		}
		before := snapshot(p)
		encBefore := encS(p)
		for i := range data {
			data[i] = ^data[i]
		}
		if after := snapshot(p); after != before {
			r.fail("aliases-input", c, "before "+trunc(before)+" after "+trunc(after))
			return
		}
		if e := encS(p); e != encBefore {
			r.fail("aliases-input", c, "re-encoding changed after the input was overwritten")
		}
		r.eval(fmt.Sprintf("scribble-type%d", k), len(body) > 2, c)
	}
	if single != "" {
		f := splitWS(single)
		if len(f) == 4 && f[0] == "U" {
			k, _ := strconv.Atoi(f[1])
			scribble(k, unhex(f[3]))
		}
		return
	}
	scribble(0, []byte{1, 2, 3})
	// every legal short form, and every type on an empty body
	for _, k := range allKinds {
		scribble(k, nil)
		scribble(k, []byte{0x00})
		scribble(k, []byte{0x00, 0x07})
		scribble(k, []byte{0x00, 0x07, 0x00})
		scribble(k, []byte{0x00, 0x07, 0x10, 0x00})
	}
	// strings that collide under common hash functions, decoded one after the other: a decoder
	// that shares strings between packets by hash gives a packet the text of an earlier one
	var prevHex string
	for _, cf := range collidingCarriers() {
		o := readOnce(oneChunk(unhex(cf.hex)))
		for _, s := range cf.carries {
			if o.kind < 0 || !strings.Contains(o.snap, hexs([]byte(s))) {
				r.fail("decode-depends-on-history", "SR "+prevHex+" SR "+cf.hex, fmt.Sprintf("after the first frame the second, which carries %q, decodes to %s", s, trunc(o.verdict())))
				break
			}
		}
		r.eval("colliding-strings", true, cf.hex)
		prevHex = cf.hex
	}
	// big fields: copy-avoiding shortcuts tend to be keyed on a size threshold
	for _, sz := range []int{255, 256, 1023, 1024, 4095, 4096, 4097, 8192, 65535, 70000} {
		pub := frameOf(build(3, []string{"SetTopicName:74", "SetPayload:" + hexs(bytesRepeat(0x61, sz))}))
		_, hl := splitFrame(pub)
		scribble(3, pub[hl:])
		if sz <= 65535 {
			for _, cs := range [][]string{{"SetTopicName:" + hexs(bytesRepeat(0x62, sz))}, {"SetTopicName:74", "SetCorrelationData:" + hexs(bytesRepeat(0x63, sz))},
				{"SetTopicName:74", "AddUserProp:6b:" + hexs(bytesRepeat(0x64, sz))}} {
				f := frameOf(build(3, cs))
				_, hl := splitFrame(f)
				scribble(3, f[hl:])
			}
			con := frameOf(build(1, []string{"SetClientID:" + hexs(bytesRepeat(0x65, sz)), "SetPassword:" + hexs(bytesRepeat(0x66, sz))}))
			_, hl = splitFrame(con)
			scribble(1, con[hl:])
		}
	}
	for i := 0; i < n; i++ {
		f := g.validFrame()
		_, hl := splitFrame(f)
		if len(f) > 5000 || hl == 0 {
			continue
		}
		scribble(int(f[0]>>4), f[hl:])
		if g.chance(20) {
			scribble(0, f[hl:])
		}
	}
	// a pool of packets from separate decodes: operations on one leave the others alone
	for round := 0; round < n/20+1; round++ {
		var pool []mq.Packet
		var frames [][]byte
		var snaps []string
		for len(pool) < 6 {
			f := g.validFrame()
			if len(f) > 3000 {
				continue
			}
			o := readOnce(oneChunk(f))
			if o.kind < 0 {
				continue
			}
			pool = append(pool, o.p)
			frames = append(frames, f)
			snaps = append(snaps, snapshot(o.p))
		}
		for step := 0; step < 12; step++ {
			i := g.pick(len(pool))
			desc := ""
			switch g.pick(6) {
			case 0: // modify through setters
				k := kindOf(pool[i])
				for _, call := range g.calls(k, 1+g.pick(3)) {
					func() {
						defer func() { recover() }()
						applyCall(pool[i], call)
					}()
					desc += call + " "
				}
			case 1: // write into slices the accessors hand out
				desc = "scribble over returned slices"
				switch p := pool[i].(type) {
				case *mq.Connect:
					scrib(p.Password())
					scrib(p.AuthData())
					if w := p.Will(); w != nil {
						scrib(w.Payload())
					}
				case *mq.Publish:
					scrib(p.Payload())
					scrib(p.CorrelationData())
				case *mq.SubAck:
					scrib(p.ReasonCodes())
				case *mq.Auth:
					scrib(p.AuthData())
				case *mq.Undefined:
					scrib(p.Data())
				}
			case 2: // encode and render
				desc = "encode/render"
				frameOf(pool[i])
				renderBoth(pool[i])
				// decode some other (possibly odd) frame in between: nobody else may notice
				readOnce(oneChunk(g.mutate(frames[g.pick(len(frames))])))
				// frames carrying a property their type has no field for (accepted and dropped)
				sid := byte(1 + g.pick(100))
				for _, f := range [][]byte{{0x40, 6, 0, 9, 0, 2, 0x0b, sid}, {0x62, 6, 0, 9, 0, 2, 0x0b, sid},
					{0x20, 5, 0, 0, 2, 0x0b, sid}, {0xe0, 4, 0, 2, 0x0b, sid}, {0x90, 6, 0, 1, 2, 0x0b, sid, 0},
					{0xa2, 9, 0, 1, 2, 0x0b, sid, 0, 1, 'a'}, {0xf0, 4, 0, 2, 0x0b, sid},
					{0x30, 8, 0, 1, 't', 2, 0x0b, sid, 'x', 'y'}} {
					readOnce(oneChunk(f))
				}
			case 4: // UnmarshalBinary of another frame into this existing packet
				j := g.pick(len(pool))
				if kindOf(pool[j]) == kindOf(pool[i]) {
					_, hl := splitFrame(frames[j])
					desc = "UnmarshalBinary(" + hexs(frames[j][hl:]) + ") into existing packet"
					func() {
						defer func() { recover() }()
						pool[i].UnmarshalBinary(append([]byte{}, frames[j][hl:]...))
					}()
				}
			case 5: // hand one packet's slices to another through the setters, then decode into the receiver
				desc = "share slices via setters, then decode into the receiver"
				shareAndDecode(g, pool, frames, i)
			case 3: // decode the same frame again: same packet as the first time
				desc = "decode again"
				o := readOnce(oneChunk(frames[i]))
				if o.kind < 0 || o.snap != snapshotOfFrame(frames[i]) {
					r.fail("decode-depends-on-history", "R 1 "+hexs(frames[i]), "second decode differs")
				}
				continue
			}
			snaps[i] = snapshot(pool[i])
			for j := range pool {
				if j != i && snapshot(pool[j]) != snaps[j] {
					r.fail("packets-interfere", fmt.Sprintf("pool op on #%d (%s): %s", i, hexs(frames[i]), trunc(desc)),
						fmt.Sprintf("bystander #%d (%s) changed", j, hexs(frames[j])))
					snaps[j] = snapshot(pool[j])
				}
			}
			r.eval("pool-step", true, fmt.Sprintf("pool%d-%d-%s", round, step, desc))
		}
	}
	// frames read one after the other through readers that buffer: every packet returned
	// stays what it was while the reader refills and the program recycles its own buffer
	for i := 0; i < n/15+12; i++ {
		var frames [][]byte
		var stream []byte
		for len(frames) < 3+g.pick(6) {
			var f []byte
			if g.chance(60) {
				f = frameOf(build(3, []string{"SetTopicName:" + hexs(g.nonEmpty()), "SetPayload:" + hexs(g.bytesN(1+g.pick(900))),
					"SetCorrelationData:" + hexs(g.bytesN(g.pick(40)))}))
			} else {
				f = g.validFrame()
			}
			if len(f) > 3000 {
				continue
			}
			if o := readOnce(oneChunk(f)); o.kind < 0 {
				continue
			}
			frames = append(frames, f)
			stream = append(stream, f...)
		}
		src := append([]byte{}, stream...)
		var under io.Reader = bytes.NewReader(src)
		switch g.pick(3) {
		case 0:
			under = iotest.HalfReader(under)
		case 1:
			under = iotest.OneByteReader(under)
		}
		var rd io.Reader
		name := ""
		switch i % 6 {
		case 0:
			rd, name = bufio.NewReaderSize(under, 16), "bufio(16)"
		case 1:
			rd, name = bufio.NewReaderSize(under, 64), "bufio(64)"
		case 2:
			rd, name = bufio.NewReaderSize(under, 512), "bufio(512)"
		case 3:
			rd, name = bufio.NewReader(under), "bufio(4096)"
		case 4:
			rd, name = bytes.NewBuffer(src), "bytes.Buffer"
		default:
			rd, name = under, "unbuffered"
		}
		c := fmt.Sprintf("R %d %s through %s", len(frames), trunc(hexs(stream)), name)
		var got []mq.Packet
		var snaps, encs []string
		for range frames {
			o := readNative(rd, stream)
			if o.kind < 0 {
				break
			}
			got = append(got, o.p)
			snaps = append(snaps, o.snap)
			encs = append(encs, o.enc)
			for j := range got {
				if sj := snapshot(got[j]); sj != snaps[j] {
					r.fail("aliases-input", c, fmt.Sprintf("packet #%d changed after packet #%d was read: before %s after %s", j, len(got)-1, trunc(snaps[j]), trunc(sj)))
					snaps[j] = sj
				}
			}
		}
		for k := range src { // the program recycles the buffer it read from
			src[k] = ^src[k]
		}
		for j := range got {
			if sj, ej := snapshot(got[j]), encS(got[j]); sj != snaps[j] || ej != encs[j] {
				r.fail("aliases-input", c, fmt.Sprintf("packet #%d changed after the program overwrote its read buffer: before %s after %s", j, trunc(snaps[j]), trunc(sj)))
			}
			if j < len(frames) && snaps[j] != snapshotOfFrame(frames[j]) {
				r.fail("decode-depends-on-history", c, fmt.Sprintf("frame #%d in the stream decodes to %s, alone to %s", j, trunc(snaps[j]), trunc(snapshotOfFrame(frames[j]))))
			}
		}
		r.eval("buffered-stream", len(got) >= 2, c)
	}
	// a packet the program has changed does not come back from a later decode of the same
	// frame (no packet is handed out twice), least of all for the frames without a body
	for _, f := range [][]byte{{0x30, 0}, {0x32, 0}, {0x3b, 0}, {0xc0, 0}, {0xd0, 0}, {0xe0, 0}, {0xf0, 0}, {0x20, 0}, {0x10, 0},
		{0x40, 2, 0, 1}, {0x62, 2, 0, 1}, {0x30, 3, 0, 1, 't'}, {0xe0, 1, 0x8e}} {
		c := "R 1 " + hexs(f) + " twice, the first packet changed in between"
		first := readOnce(oneChunk(f))
		if first.kind < 0 {
			continue
		}
		func() {
			defer func() { recover() }()
			k := kindOf(first.p)
			g.domain = true
			for _, call := range g.calls(k, 2+g.pick(3)) {
				applyCall(first.p, call)
			}
			g.domain = false
			if pub, ok := first.p.(*mq.Publish); ok {
				pub.SetQoS((pub.QoS() + 1) % 3)
				pub.SetRetain(!pub.Retain())
				pub.AddUserProp("changed", "by the program")
			}
		}()
		g.domain = false
		second := readOnce(oneChunk(f))
		if second.verdict() != first.verdict() {
			r.fail("packets-interfere", c, "second decode "+trunc(second.verdict())+", first "+trunc(first.verdict()))
		}
		r.eval("decode-twice", true, c)
	}
	// twins: two frames that differ in one field only (one of them with the field empty or
	// absent), sharing small identifiers (topic alias, packet identifier): a decoder that
	// remembers anything between frames gives it away on the second of them
	for i := 0; i < n/4+10; i++ {
		k := g.kind()
		g.domain, g.big = true, false
		cs := domainFix(k, g.subset(k, 30+g.pick(70)))
		g.domain, g.big = false, true
		if k == 3 {
			cs = append(cs, "SetTopicAlias:"+strconv.Itoa(1+g.pick(3)), "SetTopicName:"+hexs(g.nonEmpty()))
		}
		if len(cs) == 0 {
			continue
		}
		drop := g.pick(len(cs))
		if k == 3 && g.chance(60) {
			drop = len(cs) - 1 // the topic name
		}
		var cs2 []string
		for j, c := range cs {
			if j != drop {
				cs2 = append(cs2, c)
			}
		}
		f1, f2 := frameOf(build(k, cs)), frameOf(build(k, cs2))
		if len(f1) > 5000 {
			continue
		}
		for order := 0; order < 2; order++ {
			a, b := f1, f2
			if order == 1 {
				a, b = f2, f1
			}
			alone := readOnce(oneChunk(b)).verdict()
			readOnce(oneChunk(a))
			if after := readOnce(oneChunk(b)).verdict(); after != alone {
				r.fail("decode-depends-on-history", "R 2 "+hexs(a)+" "+hexs(b), fmt.Sprintf("frame %s decodes to %s, after frame %s to %s", trunc(hexs(b)), trunc(alone), trunc(hexs(a)), trunc(after)))
			}
			// forget: a CONNECT and a DISCONNECT in between must not matter either
			readOnce(oneChunk(frameOf(build(1, []string{"SetClientID:63"}))))
		}
		r.eval("twin-frames", true, hexs(f1))
	}
	// filters handed from one SUBSCRIBE to another: from then on the two are separate packets
	for i := 0; i < n/10+5; i++ {
		nf := 1 + g.pick(5)
		cs := []string{"SetPacketID:7"}
		for j := 0; j < nf; j++ {
			cs = append(cs, "AddFilter:"+hexs(g.nonEmpty())+":"+strconv.Itoa(g.pick(3)))
		}
		fa := frameOf(build(8, cs))
		var a *mq.Subscribe
		if g.chance(50) {
			a = build(8, cs).(*mq.Subscribe)
		} else if o := readOnce(oneChunk(fa)); o.kind == 8 {
			a = o.p.(*mq.Subscribe)
		} else {
			continue
		}
		b := mq.NewSubscribe()
		b.AddFilters(a.Filters()...)
		if g.chance(70) {
			b.AddFilters(mq.NewTopicFilter("b/own", 1))
		}
		snapB, encB := snapshot(b), hexs(frameOf(b))
		a.AddFilters(mq.NewTopicFilter("a/later", 2))
		if fl := a.Filters(); len(fl) > 0 {
			fl[0] = mq.NewTopicFilter("a/overwritten", 0)
		}
		a.AddFilters(mq.NewTopicFilter("a/later2", 0), mq.NewTopicFilter("a/later3", 0))
		if snapshot(b) != snapB || hexs(frameOf(b)) != encB {
			r.fail("packets-interfere", "H 8"+sp(cs)+" then b.AddFilters(a.Filters()...)", "adding filters to the packet the filters were taken from changed the other packet: "+trunc(snapshot(b))+" before "+trunc(snapB))
		}
		r.eval("filters-handed-over", true, sp(cs))
	}
	// a will message, a password, binary data taken from one packet and given to another, which
	// is then decoded into, cleared, overwritten: the packet they came from stays as it was
	for i := 0; i < n/10+10; i++ {
		g.domain, g.big = true, false
		cs := append(g.subset(1, 60), "SetWill:[SetTopicName:"+hexs(g.nonEmpty())+";SetPayload:"+hexs(g.nonEmpty())+";SetQoS:1;AddUserProp:6b:76]",
			"SetPassword:"+hexs(g.nonEmpty()), "SetAuthData:"+hexs(g.nonEmpty()), "SetUsername:75")
		g.domain, g.big = false, true
		f1 := frameOf(build(1, cs))
		var c1 *mq.Connect
		if g.chance(50) {
			c1 = build(1, cs).(*mq.Connect)
		} else if o := readOnce(oneChunk(f1)); o.kind == 1 {
			c1 = o.p.(*mq.Connect)
		} else {
			continue
		}
		snap1, enc1 := snapshot(c1), encS(c1)
		desc := ""
		func() {
			defer func() { recover() }()
			c2 := mq.NewConnect()
			switch g.pick(3) {
			case 0:
				desc = "c2.SetWill(c1.Will()); c2.UnmarshalBinary(a CONNECT with another will)"
				c2.SetWill(c1.Will())
				other := frameOf(build(1, []string{"SetClientID:6f", "SetWill:[SetTopicName:6f74686572;SetQoS:2;SetRetain:1;SetPayload:6f6f6f;AddUserProp:6f:6f]"}))
				_, hl := splitFrame(other)
				c2.UnmarshalBinary(other[hl:])
			case 1:
				desc = "c2.SetPassword(c1.Password()); c2.SetAuthData(c1.AuthData()); then cleared and replaced on c2"
				c2.SetPassword(c1.Password())
				c2.SetAuthData(c1.AuthData())
				c2.SetPassword(nil)
				c2.SetAuthData(nil)
				c2.SetPassword([]byte("zz"))
				c2.SetPassword([]byte{})
			default:
				desc = "the will's payload and correlation data given to another PUBLISH, cleared there"
				if w := c1.Will(); w != nil {
					p2 := mq.NewPublish()
					p2.SetPayload(w.Payload())
					p2.SetCorrelationData(w.CorrelationData())
					p2.SetPayload(nil)
					p2.SetCorrelationData(nil)
					p2.SetPayload([]byte("q"))
				}
			}
		}()
		if snapshot(c1) != snap1 || encS(c1) != enc1 {
			r.fail("packets-interfere", "H 1"+sp(cs)+" then "+desc, "the first packet changed: "+trunc(snapshot(c1))+" before "+trunc(snap1))
		}
		r.eval("handed-over", true, desc)
	}
	// decoding into packets that came from the constructors
	for i := 0; i < n/10+5; i++ {
		witness := mq.NewConnect()
		c := mq.NewConnect()
		g.domain = true
		g.big = false
		cs := append(g.subset(1, 50), "SetProtocolName:"+hexs(g.bytesN(1+g.pick(4))))
		g.domain = false
		f := frameOf(build(1, cs))
		_, hl := splitFrame(f)
		func() {
			defer func() { recover() }()
			c.UnmarshalBinary(f[hl:])
		}()
		if witness.ProtocolName() != "MQTT" || mq.NewConnect().ProtocolName() != "MQTT" || string(mq.VerifProtocolNameVar()) != "MQTT" {
			r.fail("global-protocol-name-written", fmt.Sprintf("U 1 c %s", hexs(f[hl:])), "decoding into a NewConnect() packet changed the protocol name of other packets")
			break
		}
		r.eval("ctor-decode", true, hexs(f))
	}
	if string(mq.VerifProtocolNameVar()) != "MQTT" {
		r.fail("global-protocol-name-written", "mqtt5", string(mq.VerifProtocolNameVar()))
	}
	// a CONNECT must not hand out the package-level protocol name for writing
	c1, c2 := mq.NewConnect(), mq.NewConnect()
	c1.SetProtocolName("XQTT")
	if c2.ProtocolName() != "MQTT" || string(mq.VerifProtocolNameVar()) != "MQTT" {
		r.fail("global-protocol-name-written", "SetProtocolName", c2.ProtocolName())
	}
	r.sample(map[string]string{"case": "U 0 z 010203 + overwrite input", "check": "Data() unchanged"})
}

// shareAndDecode hands packet i's byte slices to a temporary packet of the same type
// through the public setters and then decodes frames into that temporary packet:
// packet i must not change (the decoder must not write through the old slices).
func shareAndDecode(g *G, pool []mq.Packet, frames [][]byte, i int) {
	defer func() { recover() }()
	tmp := newPacket(kindOf(pool[i]))
	switch a := tmp.(type) {
	case *mq.Publish:
		b := pool[i].(*mq.Publish)
		a.SetCorrelationData(b.CorrelationData())
		a.SetPayload(b.Payload())
	case *mq.Connect:
		b := pool[i].(*mq.Connect)
		a.SetAuthData(b.AuthData())
		a.SetPassword(b.Password())
	case *mq.ConnAck:
		a.SetAuthData(pool[i].(*mq.ConnAck).AuthData())
	case *mq.Auth:
		a.SetAuthData(pool[i].(*mq.Auth).AuthData())
	default:
		return
	}
	for n := 0; n < 3; n++ {
		f2 := g.validFrame()
		if int(f2[0]>>4) == kindOf(tmp) && len(f2) < 3000 {
			_, h2 := splitFrame(f2)
			tmp.UnmarshalBinary(append([]byte{}, f2[h2:]...))
		}
	}
	// ... or clears and replaces them: the packet they came from keeps its bytes
	switch a := tmp.(type) {
	case *mq.Publish:
		b := pool[i].(*mq.Publish)
		a.SetCorrelationData(b.CorrelationData())
		a.SetPayload(b.Payload())
		a.SetCorrelationData(nil)
		a.SetPayload([]byte{})
		a.SetPayload([]byte("x"))
	case *mq.Connect:
		b := pool[i].(*mq.Connect)
		a.SetAuthData(b.AuthData())
		a.SetPassword(b.Password())
		a.SetPassword(nil)
		a.SetAuthData([]byte{})
		a.SetPassword([]byte("y"))
		if w := b.Will(); w != nil {
			// the will message of one CONNECT attached to another, which is then used as the
			// target of a decode: the first CONNECT (and its will) stay what they were
			a.SetWill(w)
			for n := 0; n < 4; n++ {
				f2 := g.validFrame()
				if int(f2[0]>>4) == 1 && len(f2) < 3000 {
					_, h2 := splitFrame(f2)
					a.UnmarshalBinary(append([]byte{}, f2[h2:]...))
				}
			}
			wf := frameOf(build(1, []string{"SetClientID:63", "SetWill:[SetTopicName:6f74686572;SetQoS:2;SetRetain:1;SetPayload:6f74686572;AddUserProp:6b:76]"}))
			_, h2 := splitFrame(wf)
			a.UnmarshalBinary(append([]byte{}, wf[h2:]...))
		}
	case *mq.ConnAck:
		a.SetAuthData(pool[i].(*mq.ConnAck).AuthData())
		a.SetAuthData(nil)
	case *mq.Auth:
		a.SetAuthData(pool[i].(*mq.Auth).AuthData())
		a.SetAuthData(nil)
	}
}

func scrib(b []byte) {
	for i := range b {
		b[i] ^= 0xff
	}
}

func snapshotOfFrame(f []byte) string {
	o := readOnce(oneChunk(f))
	return o.snap
}
