package main

import "fmt"

func oracle(prop string, seed int64, n int, args []string) int {
	fmt.Println("no oracle for", prop)
	return 2
}
