package main

// Direct property oracles: the property is evaluated on the real
// library without the Coq model. Output:
//   FAIL\t<key>\t<case>\t<detail>   a failing input (key names the class)
//   STAT\t<name>\t<json>            coverage facts for the evidence file

import (
	"encoding/json"
	"fmt"
	"os"
	"sort"
	"strconv"
	"sync"

	"github.com/gregoryv/mq"
)

type report struct {
	mu      sync.Mutex
	fails   int
	evals   int
	nontriv map[string]struct{}
	ntCount int
	samples []interface{}
	dist    map[string]int
}

func newReport() *report {
	return &report{nontriv: map[string]struct{}{}, dist: map[string]int{}}
}

func (r *report) fail(key, c, detail string) {
	r.mu.Lock()
	defer r.mu.Unlock()
	r.fails++
	if r.fails <= 40 {
		if len(c) > 4000 {
			c = c[:4000] + "..."
		}
		fmt.Printf("FAIL\t%s\t%s\t%s\n", key, c, detail)
	}
}

// eval counts one evaluated case; if nontrivial, it is counted once per distinct id.
func (r *report) eval(class string, nontrivial bool, id string) {
	r.mu.Lock()
	defer r.mu.Unlock()
	r.evals++
	r.dist[class]++
	if nontrivial {
		if len(r.nontriv) < 2000000 {
			if _, ok := r.nontriv[id]; !ok {
				r.nontriv[id] = struct{}{}
				r.ntCount++
			}
		}
	}
}

// evalN counts n distinct non-trivial cases that are distinct by construction (exhaustive sweeps).
func (r *report) evalN(class string, n, nontrivial int) {
	r.mu.Lock()
	defer r.mu.Unlock()
	r.evals += n
	r.dist[class] += n
	r.ntCount += nontrivial
}

func (r *report) sample(v interface{}) {
	r.mu.Lock()
	defer r.mu.Unlock()
	if len(r.samples) < 6 {
		r.samples = append(r.samples, v)
	}
}

func (r *report) finish() int {
	stat("evaluations", r.evals)
	stat("distinct_nontrivial", r.ntCount)
	stat("distribution", r.dist)
	stat("samples", r.samples)
	stat("failures", r.fails)
	if r.fails > 0 {
		return 1
	}
	return 0
}

func stat(name string, v interface{}) {
	b, _ := json.Marshal(v)
	fmt.Printf("STAT\t%s\t%s\n", name, b)
}

func oracle(prop string, seed int64, n int, args []string) int {
	r := newReport()
	single := ""
	for i := 0; i+1 < len(args); i++ {
		if args[i] == "--case" {
			single = args[i+1]
		}
	}
	f, ok := oracles[prop]
	if !ok {
		fmt.Fprintln(os.Stderr, "no oracle for", prop)
		return 2
	}
	f(r, newG(seed), n, single)
	return r.finish()
}

var oracles = map[string]func(r *report, g *G, n int, single string){
	"C15": oracleC15,
}

func sortedKeys(m map[string]int) []string {
	var ks []string
	for k := range m {
		ks = append(ks, k)
	}
	sort.Strings(ks)
	return ks
}

// ---------------------------------------------------------------- C15

// refVbLen is MQTT 1.5.5 table 1-1, written from the specification.
func refVbLen(v uint64) int {
	switch {
	case v <= 127:
		return 1
	case v <= 16383:
		return 2
	case v <= 2097151:
		return 3
	default:
		return 4
	}
}

func checkVbValue(r *report, v uint64) {
	c := "VBENC " + strconv.FormatUint(v, 10)
	w := mq.VerifVbintWidth(uint(v))
	buf, ret := mq.VerifVbintFill(uint(v), w, 0)
	want := refVbLen(v)
	if w != want || ret != want || len(buf) != want {
		r.fail("vb-length", c, fmt.Sprintf("width=%d ret=%d want=%d", w, ret, want))
		return
	}
	// seven bits per byte, least significant first, continuation on all but the last
	var val uint64
	for i, b := range buf {
		val |= uint64(b&127) << (7 * uint(i))
		if (b&128 != 0) != (i < len(buf)-1) {
			r.fail("vb-continuation", c, hexs(buf))
			return
		}
	}
	if val != v {
		r.fail("vb-value", c, hexs(buf))
		return
	}
	got, adv, err := mq.VerifVbintUnmarshal(buf)
	if err != nil || uint64(got) != v || adv != want {
		r.fail("vb-mem-decode", c, fmt.Sprintf("%v %d %v", got, adv, err))
		return
	}
	sr := &scriptReader{chunks: []chunk{{bs: append(buf, 0x55)}}}
	got2, n2, err := mq.VerifVbintReadFrom(sr)
	if err != nil || uint64(got2) != v || int(n2) != want || sr.got != want {
		r.fail("vb-stream-decode", c, fmt.Sprintf("%v %d %v", got2, n2, err))
	}
}

func checkVbBytes(r *report, bs []byte) {
	c := "VBDEC " + hexs(bs)
	v1, _, e1 := mq.VerifVbintUnmarshal(bs)
	sr := &scriptReader{chunks: []chunk{{bs: append([]byte{}, bs...)}}}
	v2, n2, e2 := mq.VerifVbintReadFrom(sr)
	if (e1 == nil) != (e2 == nil) {
		r.fail("vb-decoders-disagree", c, fmt.Sprintf("mem: %v %v stream: %v %v", v1, e1, v2, e2))
		return
	}
	if e1 == nil && v1 != v2 {
		r.fail("vb-decoders-disagree", c, fmt.Sprintf("mem: %v stream: %v", v1, v2))
		return
	}
	// independent reading: first byte without continuation within the first four
	term := -1
	for i := 0; i < len(bs) && i < 4; i++ {
		if bs[i]&128 == 0 {
			term = i
			break
		}
	}
	if term < 0 && e1 == nil {
		r.fail("vb-accepts-unterminated", c, fmt.Sprintf("value %v", v1))
		return
	}
	if term >= 0 {
		var val uint
		for i := 0; i <= term; i++ {
			val |= uint(bs[i]&127) << (7 * uint(i))
		}
		if e1 != nil || v1 != val || int(n2) != term+1 {
			r.fail("vb-rejects-or-misreads", c, fmt.Sprintf("want %v got mem %v %v stream %v n=%d", val, v1, e1, v2, n2))
		}
	}
}

func oracleC15(r *report, g *G, n int, single string) {
	if single != "" {
		f := splitWS(single)
		if len(f) == 2 && f[0] == "VBENC" {
			v, _ := strconv.ParseUint(f[1], 10, 64)
			if v < 1<<28 {
				checkVbValue(r, v)
			}
		}
		if len(f) == 2 && (f[0] == "VBDEC" || f[0] == "VBSTR") {
			checkVbBytes(r, unhex(firstChunk(f[1])))
		}
		return
	}
	if n == 0 {
		// all 2^28 values, 16 shards
		var wg sync.WaitGroup
		const shards = 16
		per := uint64(1<<28) / shards
		for s := uint64(0); s < shards; s++ {
			wg.Add(1)
			go func(lo, hi uint64) {
				defer wg.Done()
				for v := lo; v < hi; v++ {
					checkVbValue(r, v)
				}
			}(s*per, (s+1)*per)
		}
		wg.Wait()
		r.evalN("value", 1<<28, 1<<28-128)
		r.mu.Lock()
		r.dist["exhaustive_values"] = 1
		r.mu.Unlock()
	} else {
		for _, v := range vbBoundaries {
			for d := -2; d <= 2; d++ {
				x := int64(v) + int64(d)
				if x >= 0 && x < 1<<28 {
					checkVbValue(r, uint64(x))
					r.eval("boundary", x > 127, "v"+strconv.FormatInt(x, 10))
				}
			}
		}
		for i := 0; i < n; i++ {
			var v uint64
			switch g.pick(4) {
			case 0:
				v = uint64(g.pick(128))
			case 1:
				v = 128 + uint64(g.pick(16384-128))
			case 2:
				v = 16384 + uint64(g.pick(2097152-16384))
			default:
				v = 2097152 + uint64(g.pick(268435456-2097152))
			}
			checkVbValue(r, v)
			r.eval("len"+strconv.Itoa(refVbLen(v)), v > 127, "v"+strconv.FormatUint(v, 10))
		}
	}
	r.sample(map[string]interface{}{"value": 268435455, "encoded": hexs(vbEnc(268435455))})
	// byte strings: all of length <= 2 (quick) / <= 3 (thorough)
	checkVbBytes(r, nil)
	for a := 0; a < 256; a++ {
		checkVbBytes(r, []byte{byte(a)})
		for b := 0; b < 256; b++ {
			checkVbBytes(r, []byte{byte(a), byte(b)})
			if n == 0 {
				for c := 0; c < 256; c++ {
					checkVbBytes(r, []byte{byte(a), byte(b), byte(c)})
				}
			}
		}
	}
	if n == 0 {
		r.evalN("bytes<=3", 1+256+65536+16777216, 128+32768+16777216)
		// all 4-byte strings whose first three bytes carry the continuation bit,
		// and all-continuation 4-byte prefixes x 256 fifth bytes
		for a := 128; a < 256; a++ {
			for b := 128; b < 256; b++ {
				for c := 128; c < 256; c++ {
					for d := 0; d < 256; d++ {
						checkVbBytes(r, []byte{byte(a), byte(b), byte(c), byte(d)})
					}
				}
			}
		}
		r.evalN("bytes4-cont3", 128*128*128*256, 128*128*128*256)
		for i := 0; i < 2000000; i++ {
			bs := []byte{byte(128 + g.pick(128)), byte(128 + g.pick(128)), byte(128 + g.pick(128)), byte(128 + g.pick(128)), byte(g.pick(256))}
			checkVbBytes(r, bs)
		}
		r.evalN("bytes5-cont4-sampled", 2000000, 0)
	} else {
		r.evalN("bytes<=2", 1+256+65536, 128+32768)
		for i := 0; i < 50000; i++ {
			l := 3 + g.pick(3)
			bs := make([]byte, l)
			for j := range bs {
				bs[j] = byte(g.pick(256))
				if j < l-1 || g.chance(50) {
					bs[j] |= 128
				}
			}
			if g.chance(20) {
				bs[g.pick(l)] &= 127
			}
			checkVbBytes(r, bs)
			r.eval("bytes3-5", true, hexs(bs))
		}
	}
	r.sample(map[string]interface{}{"bytes": "ffffffff01", "expect": "rejected by both decoders"})
	// cross-check through the public API
	for _, v := range vbBoundaries {
		if v == 0 {
			continue
		}
		p := mq.NewSubscribe()
		p.SetSubscriptionID(int(v))
		p.AddFilters(mq.NewTopicFilter("a", 0))
		q, err := mq.ReadPacket(&scriptReader{chunks: []chunk{{bs: frameOf(p)}}})
		if err != nil {
			r.fail("vb-api-roundtrip", "SetSubscriptionID "+strconv.FormatUint(v, 10), err.Error())
			continue
		}
		if got := q.(*mq.Subscribe).SubscriptionID(); got != int(v) {
			r.fail("vb-api-roundtrip", "SetSubscriptionID "+strconv.FormatUint(v, 10), strconv.Itoa(got))
		}
		r.eval("api", true, "api"+strconv.FormatUint(v, 10))
	}
}

func splitWS(s string) []string {
	var out []string
	cur := ""
	for _, c := range s {
		if c == ' ' {
			if cur != "" {
				out = append(out, cur)
			}
			cur = ""
		} else {
			cur += string(c)
		}
	}
	if cur != "" {
		out = append(out, cur)
	}
	return out
}

func firstChunk(sc string) string {
	b := []byte{}
	for _, c := range parseScript(sc).chunks {
		b = append(b, c.bs...)
	}
	return hexs(b)
}
