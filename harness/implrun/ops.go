package main

// Execution of one case on the real library. The output format is the
// one modelrun (OCaml, extracted Coq model) prints; see driver.ml.

import (
	"encoding/hex"
	"errors"
	"fmt"
	"io"
	"reflect"
	"strconv"
	"strings"

	"github.com/gregoryv/mq"
)

// ---------- bytes / numbers ----------

func hexs(b []byte) string {
	if len(b) == 0 {
		return "-"
	}
	return hex.EncodeToString(b)
}

func unhex(s string) []byte {
	if s == "-" || s == "" {
		return nil
	}
	b, err := hex.DecodeString(s)
	if err != nil {
		panic("bad hex " + s)
	}
	return b
}

// ---------- errors ----------

type readerErr struct{ tag int }

func (e *readerErr) Error() string { return fmt.Sprintf("injected error %d", e.tag) }

var injected = map[int]*readerErr{}

var sentinels = map[int]error{100: io.ErrShortWrite, 101: io.EOF, 102: io.ErrClosedPipe, 103: io.ErrUnexpectedEOF}

func injectedErr(tag int) error {
	if e, ok := sentinels[tag]; ok {
		return e
	}
	if e, ok := injected[tag]; ok {
		return e
	}
	e := &readerErr{tag}
	injected[tag] = e
	return e
}

func errClass(err error) string {
	if err == nil {
		return "nil"
	}
	var re *readerErr
	if errors.As(err, &re) {
		return "reader:" + strconv.Itoa(re.tag)
	}
	if errors.Is(err, io.ErrUnexpectedEOF) {
		return "ueof"
	}
	if errors.Is(err, io.EOF) {
		return "eof"
	}
	m := err.Error()
	switch {
	case strings.Contains(m, "unknown property id 0x"):
		i := strings.Index(m, "unknown property id 0x")
		v, _ := strconv.ParseUint(m[i+22:i+24], 16, 8)
		return "unknownprop:" + strconv.Itoa(int(v))
	case strings.Contains(m, "missing data"):
		return "missing"
	case strings.Contains(m, "size exceeded"):
		return "size"
	case strings.Contains(m, "malformed bool"):
		return "bool"
	case strings.Contains(m, "cannot write"):
		return "cannotwrite"
	}
	return "other:" + strings.ReplaceAll(m, " ", "_")
}

// ---------- scripted reader / writer ----------

type chunk struct {
	bs  []byte
	err error
}

type scriptReader struct {
	chunks []chunk
	trace  []int
	got    int
}

func (r *scriptReader) Read(p []byte) (int, error) {
	r.trace = append(r.trace, len(p))
	if len(r.chunks) == 0 {
		return 0, io.EOF
	}
	c := &r.chunks[0]
	if len(c.bs) <= len(p) {
		n := copy(p, c.bs)
		err := c.err
		r.chunks = r.chunks[1:]
		r.got += n
		return n, err
	}
	n := copy(p, c.bs[:len(p)])
	c.bs = c.bs[n:]
	r.got += n
	return n, nil
}

func parseErr(s string) error {
	switch {
	case s == "E":
		return io.EOF
	case s == "U":
		return io.ErrUnexpectedEOF
	case s[0] == 'R':
		t, _ := strconv.Atoi(s[1:])
		return injectedErr(t)
	}
	panic("bad err " + s)
}

func parseScript(s string) *scriptReader {
	r := &scriptReader{}
	if s == "" || s == "." {
		return r
	}
	for _, c := range strings.Split(s, ",") {
		parts := strings.Split(c, "!")
		ch := chunk{bs: append([]byte{}, unhex(parts[0])...)}
		if len(parts) == 2 {
			ch.err = parseErr(parts[1])
		}
		r.chunks = append(r.chunks, ch)
	}
	return r
}

type scriptWriter struct {
	mode  byte // A, F, S
	k     int
	err   error
	calls [][]byte
}

func (w *scriptWriter) Write(p []byte) (int, error) {
	w.calls = append(w.calls, append([]byte{}, p...))
	switch w.mode {
	case 'A':
		return len(p), nil
	case 'F':
		return 0, w.err
	default:
		n := w.k
		if n > len(p) {
			n = len(p)
		}
		return n, w.err
	}
}

func parseWScript(s string) *scriptWriter {
	w := &scriptWriter{mode: s[0]}
	switch s[0] {
	case 'A':
	case 'F':
		t, _ := strconv.Atoi(s[1:])
		w.err = injectedErr(t)
	case 'S':
		parts := strings.Split(s[1:], ":")
		w.k, _ = strconv.Atoi(parts[0])
		t, _ := strconv.Atoi(parts[1])
		w.err = injectedErr(t)
	default:
		panic("bad wscript")
	}
	return w
}

// ---------- packets ----------

func newPacket(k int) mq.Packet {
	keptLists, keptFilterVars = nil, nil // what the caller kept belongs to the history of one packet
	switch k {
	case 0:
		return &mq.Undefined{}
	case 1:
		return mq.NewConnect()
	case 2:
		return mq.NewConnAck()
	case 3:
		return mq.NewPublish()
	case 4:
		return mq.NewPubAck()
	case 5:
		return mq.NewPubRec()
	case 6:
		return mq.NewPubRel()
	case 7:
		return mq.NewPubComp()
	case 8:
		return mq.NewSubscribe()
	case 9:
		return mq.NewSubAck()
	case 10:
		return mq.NewUnsubscribe()
	case 11:
		return mq.NewUnsubAck()
	case 12:
		return mq.NewPingReq()
	case 13:
		return mq.NewPingResp()
	case 14:
		return mq.NewDisconnect()
	case 15:
		return mq.NewAuth()
	}
	panic("kind")
}

func zeroPacket(k int) mq.Packet {
	switch k {
	case 0:
		return &mq.Undefined{}
	case 1:
		return &mq.Connect{}
	case 2:
		return &mq.ConnAck{}
	case 3:
		return &mq.Publish{}
	case 4:
		return &mq.PubAck{}
	case 5:
		return &mq.PubRec{}
	case 6:
		return &mq.PubRel{}
	case 7:
		return &mq.PubComp{}
	case 8:
		return &mq.Subscribe{}
	case 9:
		return &mq.SubAck{}
	case 10:
		return &mq.Unsubscribe{}
	case 11:
		return &mq.UnsubAck{}
	case 12:
		return &mq.PingReq{}
	case 13:
		return &mq.PingResp{}
	case 14:
		return &mq.Disconnect{}
	case 15:
		return &mq.Auth{}
	}
	panic("kind")
}

func kindOf(p mq.Packet) int {
	switch p.(type) {
	case *mq.Undefined:
		return 0
	case *mq.Connect:
		return 1
	case *mq.ConnAck:
		return 2
	case *mq.Publish:
		return 3
	case *mq.PubAck:
		return 4
	case *mq.PubRec:
		return 5
	case *mq.PubRel:
		return 6
	case *mq.PubComp:
		return 7
	case *mq.Subscribe:
		return 8
	case *mq.SubAck:
		return 9
	case *mq.Unsubscribe:
		return 10
	case *mq.UnsubAck:
		return 11
	case *mq.PingReq:
		return 12
	case *mq.PingResp:
		return 13
	case *mq.Disconnect:
		return 14
	case *mq.Auth:
		return 15
	}
	return -1
}

// applyCall applies one "Name:arg" token to p through the public API.
func applyCall(p mq.Packet, tok string) {
	name, arg := tok, ""
	if i := strings.IndexByte(tok, ':'); i >= 0 {
		name, arg = tok[:i], tok[i+1:]
	}
	if strings.HasPrefix(name, "~") {
		applyPseudo(p, name, arg)
		return
	}
	switch name {
	case "SetWill":
		if arg == "nil" {
			p.(*mq.Connect).SetWill(nil)
			return
		}
		inner := arg[1 : len(arg)-1]
		w := mq.NewPublish()
		if inner != "" {
			for _, c := range strings.Split(inner, ";") {
				applyCall(w, c)
			}
		}
		p.(*mq.Connect).SetWill(w)
		return
	case "AddFilter":
		parts := strings.Split(arg, ":")
		o, _ := strconv.Atoi(parts[1])
		tf := new(mq.TopicFilter) // the caller's own variable, kept and reused later (~Reuse)
		*tf = mq.NewTopicFilter(string(unhex(parts[0])), mq.Opt(o))
		p.(*mq.Subscribe).AddFilters(*tf)
		if len(keptFilterVars) < 64 {
			keptFilterVars = append(keptFilterVars, tf)
		}
		return
	case "AddUnsubFilter":
		p.(*mq.Unsubscribe).AddFilter(string(unhex(arg)))
		return
	case "AddUserProp":
		parts := strings.Split(arg, ":")
		m := reflect.ValueOf(p).MethodByName("AddUserProp")
		if !m.IsValid() {
			panic("not applicable: " + tok)
		}
		m.Call([]reflect.Value{reflect.ValueOf(string(unhex(parts[0]))), reflect.ValueOf(string(unhex(parts[1])))})
		return
	}
	m := reflect.ValueOf(p).MethodByName(name)
	if !m.IsValid() {
		panic("not applicable: " + tok)
	}
	pt := m.Type().In(0)
	var v reflect.Value
	switch pt.Kind() {
	case reflect.Bool:
		v = reflect.ValueOf(arg == "1")
	case reflect.String:
		v = reflect.ValueOf(string(unhex(arg)))
	case reflect.Slice:
		// "-" is nil; "" is an empty but non-nil slice with spare capacity (the two must behave
		// alike: "set back to empty")
		v = reflect.ValueOf(append(make([]byte, 0, 4), unhex(arg)...))
		if arg == "-" {
			v = reflect.ValueOf([]byte(nil))
		}
	case reflect.Int:
		n, err := strconv.ParseInt(arg, 10, 64)
		if err != nil {
			panic(err)
		}
		v = reflect.ValueOf(int(n))
	default:
		n, err := strconv.ParseUint(arg, 10, 64)
		if err != nil {
			panic(err)
		}
		v = reflect.New(pt).Elem()
		v.SetUint(n)
	}
	m.Call([]reflect.Value{v.Convert(pt)})
}

// applyPseudo runs the operations that are not setters of the packet itself:
//   ~String ~Dump ~WriteTo ~WellFormed ~Acc   read-only operations in the middle of a history
//   ~FailWrite                               WriteTo on a writer that fails
//   ~WillSet:<call>                          a setter applied to the will message AFTER it was attached
//   ~Spread:<hex:o,hex:o,...>                Subscribe.AddFilters(list...) with a caller-owned slice
//   ~Reuse                                   the caller overwrites and appends to the slices it passed before
var keptLists [][]mq.TopicFilter
var keptFilterVars []*mq.TopicFilter

func applyPseudo(p mq.Packet, name, arg string) {
	switch name {
	case "~String":
		if s, ok := p.(fmt.Stringer); ok {
			_ = s.String()
		}
	case "~Dump":
		mq.Dump(io.Discard, p)
	case "~WriteTo":
		var w capWriter
		p.WriteTo(&w)
	case "~FailWrite":
		p.WriteTo(&scriptWriter{err: injectedErr(3)})
	case "~PartWrite":
		// a writer that takes a few bytes and then fails
		k := 1
		if arg != "" {
			k, _ = strconv.Atoi(arg)
		}
		p.WriteTo(&scriptWriter{mode: 'S', k: k, err: injectedErr(4)})
	case "~UPSet":
		// the program changes an element of the exported UserProperties slice in place:
		// ~UPSet:<index>:<key hex>:<value hex>
		parts := strings.Split(arg, ":")
		f := reflect.ValueOf(p).Elem().FieldByName("UserProperties")
		if f.IsValid() && len(parts) == 3 {
			i, _ := strconv.Atoi(parts[0])
			if i < f.Len() {
				f.Index(i).Set(reflect.ValueOf(mq.UserProp{string(unhex(parts[1])), string(unhex(parts[2]))}))
			}
		}
	case "~FilterSet":
		// the program changes a filter in place through the slice Filters() returned:
		// ~FilterSet:<index>:<filter hex>:<options>
		parts := strings.Split(arg, ":")
		if sub, ok := p.(*mq.Subscribe); ok && len(parts) == 3 {
			i, _ := strconv.Atoi(parts[0])
			o, _ := strconv.Atoi(parts[2])
			if fs := sub.Filters(); i < len(fs) {
				fs[i].SetFilter(string(unhex(parts[1])))
				fs[i].SetOptions(mq.Opt(o))
			}
		}
	case "~WellFormed":
		if wf, ok := p.(interface{ WellFormed() *mq.Malformed }); ok {
			_ = wf.WellFormed()
		}
	case "~Acc":
		_ = snapshot(p)
	case "~WillSet":
		if c, ok := p.(*mq.Connect); ok && c.Will() != nil {
			applyCall(c.Will(), arg)
		}
	case "~Spread":
		sub, ok := p.(*mq.Subscribe)
		if !ok {
			return
		}
		var list []mq.TopicFilter
		for _, it := range strings.Split(arg, ",") {
			parts := strings.Split(it, ":")
			o, _ := strconv.Atoi(parts[1])
			list = append(list, mq.NewTopicFilter(string(unhex(parts[0])), mq.Opt(o)))
		}
		list = append(make([]mq.TopicFilter, 0, len(list)+3), list...)
		sub.AddFilters(list...)
		keptLists = append(keptLists, list)
	case "~UserProps":
		// several pairs in ONE variadic call
		var kv []string
		for _, it := range strings.Split(arg, ",") {
			parts := strings.Split(it, ":")
			kv = append(kv, string(unhex(parts[0])), string(unhex(parts[1])))
		}
		m := reflect.ValueOf(p).MethodByName("AddUserProp")
		if !m.IsValid() {
			panic("not applicable: ~UserProps")
		}
		var in []reflect.Value
		for _, x := range kv {
			in = append(in, reflect.ValueOf(x))
		}
		m.Call(in)
		for i := range kv { // the caller's slice is its own
			kv[i] = "overwritten"
		}
	case "~Feed":
		// p.SetB(p.A()): the very slice an accessor returned is handed to another setter
		parts := strings.Split(arg, ">")
		g := reflect.ValueOf(p).MethodByName(parts[0])
		st := reflect.ValueOf(p).MethodByName("Set" + parts[1])
		if !g.IsValid() || !st.IsValid() {
			return
		}
		out := g.Call(nil)
		if len(out) == 1 && out[0].Type().ConvertibleTo(st.Type().In(0)) {
			st.Call([]reflect.Value{out[0].Convert(st.Type().In(0))})
		}
	case "~Reuse":
		// the caller goes on using its own TopicFilter variables ...
		for i, tf := range keptFilterVars {
			n := len(tf.Filter())
			if n > 0 {
				tf.SetFilter(strings.Repeat("Z", n-i%2))
			}
			tf.SetOptions(mq.Opt(3))
		}
		keptFilterVars = nil
		// ... and the slices it passed to AddFilters
		for _, list := range keptLists {
			for i := range list {
				list[i] = mq.NewTopicFilter("overwritten-by-caller", 0)
			}
			_ = append(list, mq.NewTopicFilter("appended-by-caller", 0))
		}
		keptLists = nil
	default:
		panic("pseudo call " + name)
	}
}

func bs(b bool) string {
	if b {
		return "B1"
	}
	return "B0"
}
func ns[T ~uint8 | ~uint16 | ~uint32 | ~uint64 | ~uint | ~int](n T) string {
	return "N" + strconv.FormatUint(uint64(n), 10)
}
func ss(s string) string   { return "S" + hexs([]byte(s)) }
func sb(s []byte) string   { return "S" + hexs(s) }
func ls(l []string) string { return "L[" + strings.Join(l, ",") + "]" }

func propsS(up mq.UserProperties) string {
	var l []string
	for _, kv := range up {
		l = append(l, ls([]string{ss(kv[0]), ss(kv[1])}))
	}
	return ls(l)
}

func snapPublish(p *mq.Publish) []string {
	var ids []string
	for _, v := range p.SubscriptionIDs() {
		ids = append(ids, ns(v))
	}
	return []string{bs(p.Duplicate()), bs(p.Retain()), ns(p.QoS()),
		ss(p.TopicName()), ns(p.PacketID()), bs(p.PayloadFormat()),
		ns(p.MessageExpiryInterval()), ns(p.TopicAlias()), ss(p.ResponseTopic()),
		sb(p.CorrelationData()), ss(p.ContentType()), sb(p.Payload()),
		ls(ids), propsS(p.UserProperties)}
}

func flagsByte(has func(byte) bool) string {
	var v uint8
	for i := 0; i < 8; i++ {
		if has(1 << i) {
			v |= 1 << i
		}
	}
	return ns(v)
}

func snapshot(pk mq.Packet) string {
	var l []string
	switch p := pk.(type) {
	case *mq.Connect:
		l = []string{flagsByte(p.HasFlag), bs(p.CleanStart()), ns(p.ProtocolVersion()),
			ss(p.ProtocolName()), ss(p.ClientID()), ns(p.KeepAlive()),
			ns(p.SessionExpiryInterval()), ns(p.ReceiveMax()), ns(p.MaxPacketSize()),
			ns(p.TopicAliasMax()), bs(p.RequestResponseInfo()), bs(p.RequestProblemInfo()),
			ss(p.AuthMethod()), sb(p.AuthData()), ss(p.Username()), sb(p.Password()),
			ns(p.WillDelayInterval()), propsS(p.UserProperties)}
		if w := p.Will(); w != nil {
			l = append(l, ls(snapPublish(w)))
		} else {
			l = append(l, "L[]")
		}
	case *mq.ConnAck:
		l = []string{flagsByte(p.HasFlag), bs(p.SessionPresent()),
			ns(p.SessionExpiryInterval()), ns(p.ReceiveMax()), ns(p.MaxQoS()),
			bs(p.RetainAvailable()), ns(p.MaxPacketSize()), ss(p.AssignedClientID()),
			ns(p.TopicAliasMax()), ns(p.ReasonCode()), ss(p.ReasonString()),
			bs(p.WildcardSubAvailable()), bs(p.SubIdentifiersAvailable()),
			bs(p.SharedSubAvailable()), ns(p.ServerKeepAlive()), ss(p.ResponseInformation()),
			ss(p.ServerReference()), ss(p.AuthMethod()), sb(p.AuthData()), propsS(p.UserProperties)}
	case *mq.Publish:
		l = snapPublish(p)
	case *mq.PubAck:
		l = []string{ns(p.PacketID()), ns(p.ReasonCode()), ss(p.ReasonString()), propsS(p.UserProperties)}
	case *mq.PubRec:
		l = []string{ns(p.PacketID()), ns(p.ReasonCode()), ss(p.ReasonString()), propsS(p.UserProperties)}
	case *mq.PubRel:
		l = []string{ns(p.PacketID()), ns(p.ReasonCode()), ss(p.ReasonString()), propsS(p.UserProperties)}
	case *mq.PubComp:
		l = []string{ns(p.PacketID()), ns(p.ReasonCode()), ss(p.ReasonString()), propsS(p.UserProperties)}
	case *mq.Subscribe:
		var fs []string
		for _, f := range p.Filters() {
			fs = append(fs, ls([]string{ss(f.Filter()), ns(f.Options())}))
		}
		l = []string{ns(p.PacketID()), "Z" + strconv.Itoa(p.SubscriptionID()), ls(fs), propsS(p.UserProperties)}
	case *mq.SubAck:
		var rc []string
		for _, c := range p.ReasonCodes() {
			rc = append(rc, ns(c))
		}
		l = []string{ns(p.PacketID()), ss(p.ReasonString()), ls(rc), propsS(p.UserProperties)}
	case *mq.UnsubAck:
		var rc []string
		for _, c := range p.ReasonCodes() {
			rc = append(rc, ns(c))
		}
		l = []string{ns(p.PacketID()), ss(p.ReasonString()), ls(rc), propsS(p.UserProperties)}
	case *mq.Unsubscribe:
		var fs []string
		for _, f := range p.Filters() {
			fs = append(fs, ss(f))
		}
		l = []string{ns(p.PacketID()), ls(fs), propsS(p.UserProperties)}
	case *mq.PingReq, *mq.PingResp:
	case *mq.Disconnect:
		l = []string{ns(p.ReasonCode()), ns(p.SessionExpiryInterval()), ss(p.ReasonString()), ss(p.ServerReference()), propsS(p.UserProperties)}
	case *mq.Auth:
		l = []string{ns(p.ReasonCode()), ss(p.ReasonString()), ss(p.AuthMethod()), sb(p.AuthData()), propsS(p.UserProperties)}
	case *mq.Undefined:
		l = []string{sb(p.Data())}
	}
	return strings.Join(l, ";")
}

type capWriter struct{ b []byte }

func (w *capWriter) Write(p []byte) (int, error) { w.b = append(w.b, p...); return len(p), nil }

func encS(p mq.Packet) (s string) {
	defer func() {
		if r := recover(); r != nil {
			s = "enc=panic"
		}
	}()
	var w capWriter
	_, err := p.WriteTo(&w)
	if err != nil {
		return "enc=err:" + errClass(err)
	}
	return "enc=" + hexs(w.b)
}

func wfS(p mq.Packet) string {
	if h, ok := p.(mq.HasWellFormed); ok {
		if e := h.WellFormed(); e != nil {
			m := e.Error()
			switch {
			case strings.Contains(m, "topic name empty"):
				return "wf=topic"
			case strings.Contains(m, "packet ID empty"):
				return "wf=pid"
			case strings.Contains(m, "filters no"):
				return "wf=nofilters"
			case strings.Contains(m, "sub ID too large"):
				return "wf=subid"
			case strings.Contains(m, "filter empty"):
				return "wf=fempty"
			case strings.Contains(m, "QoS invalid"):
				if strings.Contains(m, "TopicFilter") {
					return "wf=fqos"
				}
				return "wf=qos"
			}
			return "wf=other:" + strings.ReplaceAll(m, " ", "_")
		}
	}
	return "wf=ok"
}

func pktResult(p mq.Packet) string {
	return "P" + strconv.Itoa(kindOf(p)) + " " + snapshot(p) + " " + encS(p) + " " + wfS(p)
}

func traceS(tr []int) string {
	var l []string
	for _, n := range tr {
		l = append(l, strconv.Itoa(n))
	}
	return strings.Join(l, ",")
}

// isNilPacket reports whether the interface holds no packet: the caller's
// "p != nil" test. A nil pointer wrapped in the interface is NOT nil to a caller
// (and calling a method on it panics), so it counts as a packet here and shows
// up as BOTH next to an error.
func isNilPacket(p mq.Packet) bool {
	return p == nil
}

// typedNil reports a non-nil interface holding a nil pointer.
func typedNil(p mq.Packet) bool {
	if p == nil {
		return false
	}
	v := reflect.ValueOf(p)
	return v.Kind() == reflect.Ptr && v.IsNil()
}

func readAll(max int, r *scriptReader) string {
	var b strings.Builder
	for i := 0; i < max; i++ {
		stop := false
		func() {
			defer func() {
				if e := recover(); e != nil {
					b.WriteString("PANIC | ")
					stop = true
				}
			}()
			p, err := mq.ReadPacket(r)
			switch {
			case typedNil(p):
				b.WriteString("TYPEDNIL | ")
				stop = true
			case !isNilPacket(p) && err == nil:
				b.WriteString(pktResult(p))
				b.WriteString(" | ")
			case isNilPacket(p) && err != nil:
				b.WriteString("E" + errClass(err) + " | ")
				stop = true
			case !isNilPacket(p) && err != nil:
				b.WriteString("BOTH | ")
				stop = true
			default:
				b.WriteString("NEITHER | ")
				stop = true
			}
		}()
		if stop {
			break
		}
	}
	b.WriteString("trace=" + traceS(r.trace) + " consumed=" + strconv.Itoa(r.got))
	return b.String()
}

var wireKinds = map[string]mq.VerifWire{
	"u8": mq.VerifU8, "u16": mq.VerifU16, "u32": mq.VerifU32, "bool": mq.VerifBool,
	"bin": mq.VerifBin, "raw": mq.VerifRaw, "vb": mq.VerifVb,
}

func parseValue(s string) mq.VerifValue {
	switch s[0] {
	case 'N':
		n, _ := strconv.ParseUint(s[1:], 10, 64)
		return mq.VerifValue{N: n}
	case 'B':
		return mq.VerifValue{B: s[1:] == "1"}
	case 'S':
		return mq.VerifValue{S: unhex(s[1:])}
	}
	panic("value")
}

// patbuf is a buffer of n bytes 0xaa; nil for n = 0 (as _LEN)
func patbuf(n int) []byte {
	if n == 0 {
		return nil
	}
	b := make([]byte, n)
	for j := range b {
		b[j] = 0xaa
	}
	return b
}

func valueS(k string, v mq.VerifValue) string {
	switch k {
	case "bool":
		return bs(v.B)
	case "bin", "raw":
		return sb(v.S)
	}
	return ns(v.N)
}

func renderS(p mq.Packet) string {
	str := func() (s string) {
		defer func() {
			if e := recover(); e != nil {
				s = "PANIC"
			}
		}()
		return hexs([]byte(p.String()))
	}()
	var b strings.Builder
	mq.Dump(&b, p)
	return "str=" + str + " dump=" + hexs([]byte(b.String()))
}

func runCase(line string) (res string) {
	defer func() {
		if r := recover(); r != nil {
			res = "PANIC"
			if s, ok := r.(string); ok && (strings.HasPrefix(s, "not applicable") || strings.HasPrefix(s, "bad")) {
				res = "DRIVER-ERROR " + s
			}
		}
	}()
	f := strings.Split(line, " ")
	switch f[0] {
	case "VBENC":
		n, _ := strconv.ParseUint(f[1], 10, 64)
		w := mq.VerifVbintWidth(uint(n))
		buf, ret := mq.VerifVbintFill(uint(n), w, 0)
		if ret != w {
			return fmt.Sprintf("%s w=%d ret=%d", hexs(buf), w, ret)
		}
		return fmt.Sprintf("%s w=%d", hexs(buf), w)
	case "VBDEC":
		v, w, err := mq.VerifVbintUnmarshal(unhex(f[1]))
		if err != nil {
			return "ERR " + errClass(err)
		}
		return fmt.Sprintf("OK %d w=%d", v, w)
	case "VBSTR":
		r := parseScript(f[1])
		v, n, err := mq.VerifVbintReadFrom(r)
		if n != int64(r.got) {
			return fmt.Sprintf("COUNT-MISMATCH n=%d got=%d", n, r.got)
		}
		if err != nil {
			return fmt.Sprintf("ERR %s consumed=%d", errClass(err), r.got)
		}
		return fmt.Sprintf("OK %d consumed=%d", v, r.got)
	case "WDEC":
		k := wireKinds[f[1]]
		v, w, err := mq.VerifWireDecode(k, parseValue(f[2]), unhex(f[3]))
		if err != nil {
			return "ERR " + errClass(err)
		}
		return "OK " + valueS(f[1], v) + " w=" + strconv.Itoa(w)
	case "UPDEC":
		v, w, err := mq.VerifWireDecode(mq.VerifUserProp, mq.VerifValue{}, unhex(f[1]))
		if err != nil {
			return "ERR " + errClass(err)
		}
		return "OK " + sb(v.K) + ":" + sb(v.S) + " w=" + strconv.Itoa(w)
	case "WENC":
		k := wireKinds[f[1]]
		v := parseValue(f[2])
		_, w := mq.VerifWireFill(k, v, 0, 0)
		buf, ret := mq.VerifWireFill(k, v, w, 0)
		if ret != w {
			return fmt.Sprintf("%s w=%d ret=%d", hexs(buf), w, ret)
		}
		return fmt.Sprintf("%s w=%d", hexs(buf), w)
	case "WFILL", "WFILLP":
		// fill / fillProp of a wire type on a patterned buffer of any length at any offset
		k := wireKinds[f[1]]
		v := parseValue(f[2])
		a := 3
		var id uint64
		if f[0] == "WFILLP" {
			id, _ = strconv.ParseUint(f[3], 10, 8)
			a = 4
		}
		bl, _ := strconv.Atoi(f[a])
		i, _ := strconv.Atoi(f[a+1])
		buf := patbuf(bl)
		ret := mq.VerifWireFillInto(k, v, buf, i, f[0] == "WFILLP", mq.Ident(id))
		return fmt.Sprintf("%s ret=%d", hexs(buf), ret)
	case "UPFILL":
		v := mq.VerifValue{K: unhex(f[1]), S: unhex(f[2])}
		bl, _ := strconv.Atoi(f[4])
		i, _ := strconv.Atoi(f[5])
		buf := patbuf(bl)
		ret := mq.VerifWireFillInto(mq.VerifUserProp, v, buf, i, f[3] == "1", mq.UserProperty)
		return fmt.Sprintf("%s ret=%d", hexs(buf), ret)
	case "PFILL":
		// the positional encoder of a packet on a patterned buffer
		k, _ := strconv.Atoi(f[1])
		bl, _ := strconv.Atoi(f[2])
		i, _ := strconv.Atoi(f[3])
		p := newPacket(k)
		for _, c := range f[4:] {
			applyCall(p, c)
		}
		buf := patbuf(bl)
		ret, ok := mq.VerifPacketFill(p, buf, i)
		if !ok {
			return "NOFILL"
		}
		return fmt.Sprintf("%s ret=%d", hexs(buf), ret)
	case "R":
		max, _ := strconv.Atoi(f[1])
		return readAll(max, parseScript(f[2]))
	case "U":
		k, _ := strconv.Atoi(f[1])
		var p mq.Packet
		if f[2] == "c" {
			p = newPacket(k)
		} else {
			p = zeroPacket(k)
		}
		if err := p.UnmarshalBinary(unhex(f[3])); err != nil {
			return "ERR " + errClass(err)
		}
		return "OK " + snapshot(p) + " " + encS(p)
	case "H":
		k, _ := strconv.Atoi(f[1])
		p := newPacket(k)
		var b strings.Builder
		for _, c := range f[2:] {
			applyCall(p, c)
			b.WriteString(snapshot(p))
			b.WriteString(" | ")
		}
		b.WriteString(encS(p) + " " + wfS(p))
		return b.String()
	case "S":
		k, _ := strconv.Atoi(f[1])
		p := newPacket(k)
		for _, c := range f[2:] {
			applyCall(p, c)
		}
		return renderS(p)
	case "SR":
		p, err := mq.ReadPacket(oneChunk(unhex(f[1])))
		if err != nil {
			return "ERR"
		}
		return "P" + strconv.Itoa(kindOf(p)) + " " + renderS(p)
	case "SZ":
		k, _ := strconv.Atoi(f[1])
		return renderS(zeroPacket(k))
	case "FB":
		n, _ := strconv.Atoi(f[1])
		return hexs([]byte(mq.VerifFirstByteString(byte(n))))
	case "CF":
		n, _ := strconv.Atoi(f[1])
		return hexs([]byte(mq.VerifConnectFlagsString(byte(n))))
	case "CAF":
		n, _ := strconv.Atoi(f[1])
		return hexs([]byte(mq.VerifConnAckFlagsString(byte(n))))
	case "FO":
		n, _ := strconv.Atoi(f[1])
		return hexs([]byte(mq.NewTopicFilter("", mq.Opt(n)).String()))
	case "RC":
		n, _ := strconv.Atoi(f[1])
		return hexs([]byte(mq.ReasonCode(n).String()))
	case "W":
		k, _ := strconv.Atoi(f[1])
		w := parseWScript(f[2])
		p := newPacket(k)
		for _, c := range f[3:] {
			applyCall(p, c)
		}
		n, err := p.WriteTo(w)
		var calls []string
		for _, c := range w.calls {
			calls = append(calls, hexs(c))
		}
		ec := errClass(err)
		if err != nil && err == w.err {
			ec = "reader:" + f[2][strings.LastIndexAny(f[2], "F:")+1:] // the writer's own error, by identity
		}
		return fmt.Sprintf("n=%d err=%s calls=%s", n, ec, strings.Join(calls, ","))
	}
	return "DRIVER-ERROR unknown case"
}
