module implrun

go 1.21

require github.com/gregoryv/mq v0.0.0

replace github.com/gregoryv/mq => /repo
