package main

// Case generators. Every random choice comes from one PRNG seeded by
// the caller, so a run is replayable from (suite, seed, n).

import (
	"fmt"
	"math/rand"
	"strconv"
	"strings"

	"github.com/gregoryv/mq"
)

type G struct {
	r      *rand.Rand
	ascii  bool // strings of 7-bit bytes only (for %q renderings)
	domain bool // restrict arguments to the C01 domain
	big    bool // allow 16k/64k strings
	nomagic bool // no dictionary strings
}

func newG(seed int64) *G { return &G{r: rand.New(rand.NewSource(seed)), big: true} }

func (g *G) pick(n int) int { return g.r.Intn(n) }
func (g *G) chance(pct int) bool {
	return g.r.Intn(100) < pct
}

func (g *G) length() int {
	x := g.pick(1000)
	switch {
	case x < 150:
		return 0
	case x < 300:
		return 1
	case x < 650:
		return 2 + g.pick(9)
	case x < 730:
		return 127 + g.pick(2)
	case x < 830:
		return 200 + g.pick(200)
	case x < 838 && g.big:
		return 16383 + g.pick(2)
	case x < 842 && g.big:
		return 65534 + g.pick(2)
	case x < 846 && g.big:
		return 65533 - g.pick(3)
	default:
		return g.pick(40)
	}
}

func (g *G) bytesN(n int) []byte {
	b := make([]byte, n)
	if g.ascii {
		for i := range b {
			b[i] = byte(g.pick(128))
			if g.chance(70) {
				b[i] = byte(0x20 + g.pick(0x5f))
			}
		}
		return b
	}
	switch g.pick(4) {
	case 0: // ascii
		for i := range b {
			b[i] = byte(0x20 + g.pick(0x5f))
		}
	case 1: // one value
		v := byte(g.pick(256))
		for i := range b {
			b[i] = v
		}
	default:
		g.r.Read(b)
	}
	return b
}
// magic holds strings that a codec, a broker or a "helpful" setter might treat
// specially: shared-subscription and system prefixes, wildcards, separators,
// protocol names, substitution patterns, a byte order mark, format verbs.
var magic = []string{"$share/", "$share/g", "$share/g/t", "$share", "$share//", "$share/g/", "$SYS/x", "$queue/a",
	"MQTT", "MQIsdp", "mqtt", "MQTT\x00", "%u", "%c", "a/%u/%c", "%s", "%d%n", "\xef\xbb\xbf", "\xef\xbb\xbfbob",
	"+", "#", "a/+/b", "a/#", "/", "//", "a/", "\x00", "\xc3\xa9", "\xe6\x97\xa5\xe6\x9c\xac", "\xff\xfe", "null", "nil",
	"true", "0", "-1", "{}", "\n", " ", "a b", "../", "*", "\xed\xa0\x80", "\xf0\x9f\x98\x80"}

func isASCII(b []byte) bool {
	for _, c := range b {
		if c >= 128 {
			return false
		}
	}
	return true
}

func (g *G) bytes() []byte {
	if !g.nomagic && g.chance(9) {
		m := []byte(magic[g.pick(len(magic))])
		if g.chance(30) {
			m = append(m, g.bytesN(1+g.pick(6))...)
		}
		if !g.ascii || isASCII(m) {
			return m
		}
	}
	return g.bytesN(g.length())
}
func (g *G) nonEmpty() []byte {
	if !g.nomagic && g.chance(9) {
		if m := []byte(magic[g.pick(len(magic))]); !g.ascii || isASCII(m) {
			return m
		}
	}
	n := g.length()
	if n == 0 {
		n = 1 + g.pick(5)
	}
	return g.bytesN(n)
}

func (g *G) u8() uint64 {
	switch g.pick(7) {
	case 0:
		return 0
	case 1:
		return 1
	case 2:
		return 255
	case 3:
		return 128 + uint64(g.pick(2))
	case 4:
		return uint64(2 + g.pick(6)) // small values: protocol levels, QoS-like codes
	}
	return uint64(g.pick(256))
}
func (g *G) u16() uint64 {
	switch g.pick(8) {
	case 0:
		return 0
	case 1:
		return 1
	case 2:
		return 65535
	case 3:
		return 255 + uint64(g.pick(2))
	case 4:
		return 65534
	}
	return uint64(g.pick(65536))
}
func (g *G) u32() uint64 {
	switch g.pick(8) {
	case 0:
		return 0
	case 1:
		return 1
	case 2:
		return 4294967295
	case 3:
		return 65535 + uint64(g.pick(2))
	case 4:
		return 16777215 + uint64(g.pick(2))
	}
	return uint64(g.r.Uint32())
}
func (g *G) boolS() string {
	if g.pick(2) == 0 {
		return "0"
	}
	return "1"
}

var vbBoundaries = []uint64{0, 1, 126, 127, 128, 129, 16382, 16383, 16384, 16385,
	2097150, 2097151, 2097152, 2097153, 268435454, 268435455}

func (g *G) subID() uint64 {
	if g.chance(50) {
		v := vbBoundaries[g.pick(len(vbBoundaries))]
		if v == 0 {
			v = 1
		}
		return v
	}
	return 1 + uint64(g.r.Int63n(268435455))
}

type setter struct {
	name string
	typ  string // u8 u16 u32 bool str bin qos rc will up filter ufilter subid subid32
}

var connectSetters = []setter{
	{"SetWillDelayInterval", "u32"}, {"SetCleanStart", "bool"}, {"SetProtocolVersion", "u8"},
	{"SetProtocolName", "str"}, {"SetClientID", "str"}, {"SetKeepAlive", "u16"},
	{"SetSessionExpiryInterval", "u32"}, {"SetReceiveMax", "u16"}, {"SetMaxPacketSize", "u32"},
	{"SetTopicAliasMax", "u16"}, {"SetRequestResponseInfo", "bool"}, {"SetRequestProblemInfo", "bool"},
	{"SetAuthMethod", "str"}, {"SetAuthData", "bin"}, {"SetUsername", "str"}, {"SetPassword", "bin"},
	{"SetWill", "will"}, {"AddUserProp", "up"},
}
var connackSetters = []setter{
	{"SetSessionPresent", "bool"}, {"SetSessionExpiryInterval", "u32"}, {"SetReceiveMax", "u16"},
	{"SetMaxQoS", "u8"}, {"SetRetainAvailable", "bool"}, {"SetMaxPacketSize", "u32"},
	{"SetAssignedClientID", "str"}, {"SetTopicAliasMax", "u16"}, {"SetReasonCode", "rc"},
	{"SetReasonString", "str"}, {"SetWildcardSubAvailable", "bool"},
	{"SetSubIdentifiersAvailable", "bool"}, {"SetSharedSubAvailable", "bool"},
	{"SetServerKeepAlive", "u16"}, {"SetResponseInformation", "str"}, {"SetServerReference", "str"},
	{"SetAuthMethod", "str"}, {"SetAuthData", "bin"}, {"AddUserProp", "up"},
}
var publishSetters = []setter{
	{"SetDuplicate", "bool"}, {"SetRetain", "bool"}, {"SetQoS", "qos"}, {"SetTopicName", "str"},
	{"SetPacketID", "u16"}, {"SetPayloadFormat", "bool"}, {"SetMessageExpiryInterval", "u32"},
	{"SetTopicAlias", "u16"}, {"SetResponseTopic", "str"}, {"SetCorrelationData", "bin"},
	{"AddSubscriptionID", "subid32"}, {"SetContentType", "str"}, {"SetPayload", "bin"},
	{"AddUserProp", "up"},
}
var willSetters = []setter{
	{"SetRetain", "bool"}, {"SetQoS", "qos"}, {"SetTopicName", "str"},
	{"SetPayloadFormat", "bool"}, {"SetMessageExpiryInterval", "u32"},
	{"SetResponseTopic", "str"}, {"SetCorrelationData", "bin"},
	{"SetContentType", "str"}, {"SetPayload", "bin"}, {"AddUserProp", "up"},
}
var ackSetters = []setter{
	{"SetPacketID", "u16"}, {"SetReasonCode", "rc"}, {"SetReasonString", "str"}, {"AddUserProp", "up"},
}
var subscribeSetters = []setter{
	{"SetPacketID", "u16"}, {"SetSubscriptionID", "subid"}, {"AddFilter", "filter"}, {"AddUserProp", "up"},
}
var subackSetters = []setter{
	{"SetPacketID", "u16"}, {"SetReasonString", "str"}, {"AddReasonCode", "rc"}, {"AddUserProp", "up"},
}
var unsubscribeSetters = []setter{
	{"SetPacketID", "u16"}, {"AddUnsubFilter", "ufilter"}, {"AddUserProp", "up"},
}
var disconnectSetters = []setter{{"SetReasonCode", "rc"}, {"SetSessionExpiryInterval", "u32"}, {"SetReasonString", "str"},
	{"SetServerReference", "str"}, {"AddUserProp", "up"}}
var authSetters = []setter{
	{"SetReasonCode", "rc"}, {"SetReasonString", "str"}, {"SetAuthMethod", "str"},
	{"SetAuthData", "bin"}, {"AddUserProp", "up"},
}

func settersOf(k int) []setter {
	switch k {
	case 1:
		return connectSetters
	case 2:
		return connackSetters
	case 3:
		return publishSetters
	case 4, 5, 6, 7:
		return ackSetters
	case 8:
		return subscribeSetters
	case 9, 11:
		return subackSetters
	case 10:
		return unsubscribeSetters
	case 14:
		return disconnectSetters
	case 15:
		return authSetters
	}
	return nil
}

func (g *G) arg(s setter) string {
	switch s.typ {
	case "u8":
		return strconv.FormatUint(g.u8(), 10)
	case "rc":
		if g.chance(30) {
			return "0"
		}
		return strconv.FormatUint(g.u8(), 10)
	case "u16":
		return strconv.FormatUint(g.u16(), 10)
	case "u32":
		return strconv.FormatUint(g.u32(), 10)
	case "bool":
		return g.boolS()
	case "str":
		return hexs(g.bytes())
	case "bin":
		b := g.bytes()
		if len(b) == 0 && g.chance(50) {
			return "" // empty but non-nil slice (hexs would give "-" = nil)
		}
		return hexs(b)
	case "qos":
		if g.domain {
			return strconv.Itoa(g.pick(3))
		}
		return strconv.Itoa(g.pick(5))
	case "up":
		k := g.bytes()
		if g.domain && len(k) == 0 {
			k = g.nonEmpty()
		}
		return hexs(k) + ":" + hexs(g.bytes())
	case "filter":
		f := g.bytes()
		o := g.pick(256)
		if g.domain {
			o = g.pick(3) | g.pick(2)<<2 | g.pick(2)<<3 | g.pick(3)<<4
		}
		return hexs(f) + ":" + strconv.Itoa(o)
	case "ufilter":
		return hexs(g.bytes())
	case "subid32":
		if g.domain {
			return strconv.FormatUint(g.subID(), 10)
		}
		if g.chance(20) {
			return strconv.FormatUint(g.u32(), 10)
		}
		return strconv.FormatUint(g.subID(), 10)
	case "subid":
		if g.domain {
			return strconv.FormatUint(g.subID(), 10)
		}
		switch g.pick(6) {
		case 0:
			return strconv.Itoa(268435454 + g.pick(4))
		case 1:
			return strconv.Itoa(-1 - g.pick(3))
		case 2:
			return "0"
		}
		return strconv.FormatUint(g.subID(), 10)
	case "will":
		return g.will()
	}
	panic("arg type " + s.typ)
}

func (g *G) will() string {
	n := g.pick(len(willSetters) + 2)
	var cs []string
	for i := 0; i < n; i++ {
		s := willSetters[g.pick(len(willSetters))]
		cs = append(cs, s.name+":"+g.arg(s))
	}
	return "[" + strings.Join(cs, ";") + "]"
}

// calls builds a setter history of about n steps for kind k.
func (g *G) calls(k, n int) []string {
	ss := settersOf(k)
	if len(ss) == 0 {
		return nil
	}
	var cs []string
	for i := 0; i < n; i++ {
		s := ss[g.pick(len(ss))]
		cs = append(cs, s.name+":"+g.arg(s))
	}
	if g.domain {
		cs = domainFix(k, cs)
	}
	return cs
}

// domainFix removes calls that put a value where MQTT has no field for it:
// a will delay interval without a will, a packet identifier on a QoS 0 PUBLISH.
func domainFix(k int, cs []string) []string {
	switch k {
	case 1:
		hasWill := false
		for _, c := range cs {
			if strings.HasPrefix(c, "SetWill:") {
				hasWill = true
			}
		}
		if !hasWill {
			var out []string
			for _, c := range cs {
				if !strings.HasPrefix(c, "SetWillDelayInterval:") {
					out = append(out, c)
				}
			}
			cs = out
		}
	case 3:
		qos := "0"
		for _, c := range cs {
			if strings.HasPrefix(c, "SetQoS:") {
				qos = c[7:]
			}
		}
		if qos == "0" {
			var out []string
			for _, c := range cs {
				if !strings.HasPrefix(c, "SetPacketID:") {
					out = append(out, c)
				}
			}
			cs = out
		}
	}
	return cs
}

// subset: each setter of the kind used at most once, in table order,
// each present with probability pct - the "every subset of optional
// fields" generator.
func (g *G) subset(k, pct int) []string {
	var cs []string
	for _, s := range settersOf(k) {
		if s.typ == "up" || s.typ == "filter" || s.typ == "ufilter" || s.name == "AddReasonCode" || s.name == "AddSubscriptionID" {
			for g.chance(pct) && len(cs) < 40 {
				cs = append(cs, s.name+":"+g.arg(s))
				if g.chance(40) {
					break
				}
			}
			continue
		}
		if g.chance(pct) {
			cs = append(cs, s.name+":"+g.arg(s))
		}
	}
	if g.domain {
		cs = domainFix(k, cs)
	}
	return cs
}

var allKinds = []int{1, 2, 3, 4, 5, 6, 7, 8, 9, 10, 11, 12, 13, 14, 15}

func (g *G) kind() int { return allKinds[g.pick(len(allKinds))] }

func build(k int, calls []string) mq.Packet {
	p := newPacket(k)
	for _, c := range calls {
		applyCall(p, c)
	}
	return p
}

func frameOf(p mq.Packet) []byte {
	var w capWriter
	p.WriteTo(&w)
	return w.b
}

// validFrame returns a frame written by the library for a random
// in-domain packet.
func (g *G) validFrame() []byte {
	g.domain = true
	defer func() { g.domain = false }()
	k := g.kind()
	old := g.big
	g.big = g.chance(5)
	cs := g.subset(k, 20+g.pick(60))
	g.big = old
	return frameOf(build(k, cs))
}

func (g *G) validFrameSmall() []byte {
	f := g.validFrame()
	if len(f) > 3000 {
		f = []byte{0xc0, 0}
	}
	return f
}

// fragment splits bs into a random legal delivery.
func (g *G) fragment(bs []byte, eofStyle int) string {
	var parts []string
	i := 0
	for i < len(bs) {
		n := 1
		switch g.pick(4) {
		case 0:
			n = 1
		case 1:
			n = 1 + g.pick(3)
		default:
			n = 1 + g.pick(len(bs)-i)
		}
		if i+n > len(bs) {
			n = len(bs) - i
		}
		if g.chance(15) {
			parts = append(parts, "-")
		}
		parts = append(parts, hexs(bs[i:i+n]))
		i += n
	}
	if len(parts) == 0 {
		return "."
	}
	switch eofStyle {
	case 1:
		parts[len(parts)-1] += "!E"
	}
	return strings.Join(parts, ",")
}

func vbEnc(n uint64) []byte {
	var out []byte
	for {
		b := byte(n % 128)
		n /= 128
		if n > 0 {
			b |= 128
		}
		out = append(out, b)
		if n == 0 {
			return out
		}
	}
}

// mutate returns a damaged variant of a frame.
func (g *G) mutate(f []byte) []byte {
	out := g.mutate1(f)
	// The model's reader is quadratic in the number of fields; a large frame re-read as
	// thousands of tiny fields would take minutes there. Large frames stay unmutated in
	// the correspondence suites (the oracles run them on the implementation alone).
	if len(out) > 6000 {
		return f
	}
	return out
}

func (g *G) mutate1(f []byte) []byte {
	out := append([]byte{}, f...)
	if len(out) == 0 {
		return out
	}
	switch g.pick(10) {
	case 8: // set a byte to a defined property identifier (swaps identifiers, creates repeats)
		ids := []byte{1, 2, 3, 8, 9, 11, 17, 18, 19, 21, 22, 23, 24, 25, 26, 28, 31, 33, 34, 35, 36, 37, 38, 39, 40, 41, 42}
		out[g.pick(len(out))] = ids[g.pick(len(ids))]
	case 9: // repeat a slice of the body (duplicates properties), re-frame
		_, hl := splitFrame(out)
		if hl > 0 && hl < len(out) {
			body := append([]byte{}, out[hl:]...)
			i := g.pick(len(body))
			j := i + 1 + g.pick(len(body)-i)
			dup := append([]byte{}, body[i:j]...)
			body = append(body[:j], append(dup, body[j:]...)...)
			// bump a plausible property length in front of the repeated part
			if i > 0 && g.chance(70) {
				body[g.pick(i)] += byte(len(dup))
			}
			out = append(append([]byte{out[0]}, vbEnc(uint64(len(body)))...), body...)
		}
	case 0: // flip a byte
		out[g.pick(len(out))] ^= byte(1 << g.pick(8))
	case 1: // random byte
		out[g.pick(len(out))] = byte(g.pick(256))
	case 2: // truncate, raw
		out = out[:g.pick(len(out))]
	case 3, 4: // truncate the body and re-frame
		_, hl := splitFrame(out)
		if hl > 0 && hl < len(out) {
			body := out[hl:]
			body = body[:g.pick(len(body))]
			out = append(append([]byte{out[0]}, vbEnc(uint64(len(body)))...), body...)
		}
	case 5: // another type nibble
		out[0] = byte(g.pick(16)<<4) | out[0]&0x0f
	case 6: // bump a byte by +-1 / +-128
		i := g.pick(len(out))
		d := []byte{1, 255, 128, 2}[g.pick(4)]
		out[i] += d
	case 7: // insert or delete a byte, re-frame
		_, hl := splitFrame(out)
		if hl > 0 && hl <= len(out) {
			body := append([]byte{}, out[hl:]...)
			if len(body) > 0 && g.chance(50) {
				i := g.pick(len(body))
				body = append(body[:i], body[i+1:]...)
			} else {
				i := g.pick(len(body) + 1)
				body = append(body[:i], append([]byte{byte(g.pick(256))}, body[i:]...)...)
			}
			out = append(append([]byte{out[0]}, vbEnc(uint64(len(body)))...), body...)
		}
	}
	return out
}

// splitFrame returns the declared remaining length and header length,
// or hl = 0 if the header is not a terminated vbint.
func splitFrame(f []byte) (rl int, hl int) {
	if len(f) < 2 {
		return 0, 0
	}
	mult := 1
	for i := 1; i < len(f) && i <= 4; i++ {
		rl += int(f[i]&127) * mult
		if f[i]&128 == 0 {
			return rl, i + 1
		}
		mult *= 128
	}
	return 0, 0
}

func gen(suite string, seed int64, n int, emit func(string)) {
	g := newG(seed)
	switch suite {
	case "vb":
		genVb(g, n, emit)
	case "wire":
		genWire(g, n, emit)
	case "fill":
		genFill(g, n, emit)
	case "hist":
		for i := 0; i < n; i++ {
			k := g.kind()
			g.domain = g.chance(50)
			var cs []string
			if g.chance(50) {
				cs = g.calls(k, 1+g.pick(8))
			} else {
				cs = g.subset(k, 20+g.pick(70))
			}
			emit("H " + strconv.Itoa(k) + sp(cs))
		}
	case "write":
		for i := 0; i < n; i++ {
			k := g.kind()
			if g.chance(3) {
				k = 0
			}
			g.big = g.chance(5)
			cs := g.subset(k, 20+g.pick(70))
			ws := "A"
			tag := 1 + g.pick(9)
			if g.chance(30) {
				tag = 100 + g.pick(4) // io.ErrShortWrite, io.EOF, io.ErrClosedPipe, io.ErrUnexpectedEOF
			}
			switch g.pick(4) {
			case 0:
				ws = "F" + strconv.Itoa(tag)
			case 1:
				ws = fmt.Sprintf("S%d:%d", g.pick(30), tag)
			}
			emit("W " + strconv.Itoa(k) + " " + ws + sp(cs))
		}
	case "read":
		genRead(g, n, emit)
	case "unm":
		for i := 0; i < n; i++ {
			f := g.validFrame()
			if g.chance(60) {
				f = g.mutate(f)
			}
			_, hl := splitFrame(f)
			if hl == 0 || hl > len(f) {
				continue
			}
			k := int(f[0] >> 4)
			if g.chance(10) {
				k = g.pick(16)
			}
			init := "z"
			if g.chance(30) {
				init = "c"
			}
			emit(fmt.Sprintf("U %d %s %s", k, init, hexs(f[hl:])))
		}
	case "render":
		for k := 0; k < 16; k++ {
			emit("SZ " + strconv.Itoa(k))
			emit("S " + strconv.Itoa(k))
		}
		for b := 0; b < 256; b++ {
			for _, op := range []string{"FB", "CF", "CAF", "FO", "RC"} {
				emit(op + " " + strconv.Itoa(b))
			}
		}
		for i := 0; i < n; i++ {
			g.ascii = true
			g.big = false
			k := g.kind()
			g.domain = g.chance(50)
			var cs []string
			if g.chance(50) {
				cs = g.calls(k, 1+g.pick(8))
			} else {
				cs = g.subset(k, 20+g.pick(70))
			}
			g.domain = false
			emit("S " + strconv.Itoa(k) + sp(cs))
			if g.chance(40) {
				f := frameOf(build(k, cs))
				if g.chance(30) {
					f = g.mutate(f)
				}
				if len(f) < 4000 {
					emit("SR " + hexs(f))
				}
			}
			g.ascii = false
		}
	default:
		panic("unknown suite " + suite)
	}
}

func sp(cs []string) string {
	if len(cs) == 0 {
		return ""
	}
	return " " + strings.Join(cs, " ")
}

func genVb(g *G, n int, emit func(string)) {
	for _, v := range vbBoundaries {
		for d := -2; d <= 2; d++ {
			x := int64(v) + int64(d)
			if x >= 0 {
				emit("VBENC " + strconv.FormatInt(x, 10))
			}
		}
	}
	for _, v := range []uint64{268435456, 4294967295, 4294967296, 1<<63 - 1, 1 << 63, 1<<64 - 1} {
		emit("VBENC " + strconv.FormatUint(v, 10))
	}
	for i := 0; i < n; i++ {
		var v uint64
		switch g.pick(5) {
		case 0:
			v = uint64(g.pick(128))
		case 1:
			v = 128 + uint64(g.pick(16384-128))
		case 2:
			v = 16384 + uint64(g.pick(2097152-16384))
		case 3:
			v = 2097152 + uint64(g.pick(268435456-2097152))
		default:
			v = g.r.Uint64() >> uint(g.pick(64))
		}
		emit("VBENC " + strconv.FormatUint(v, 10))
		enc := vbEnc(v)
		tail := g.bytesN(g.pick(3))
		emit("VBDEC " + hexs(append(enc, tail...)))
		emit("VBSTR " + g.fragment(append(enc, tail...), g.pick(2)))
	}
	// all byte strings of length <= 2
	emit("VBDEC -")
	for a := 0; a < 256; a++ {
		emit("VBDEC " + hexs([]byte{byte(a)}))
		emit("VBSTR " + hexs([]byte{byte(a)}))
		for b := 0; b < 256; b++ {
			emit("VBDEC " + hexs([]byte{byte(a), byte(b)}))
			if b%7 == a%7 {
				emit("VBSTR " + hexs([]byte{byte(a), byte(b)}))
			}
		}
	}
	// continuation prefixes of length 3, 4 with sampled next bytes, and 5 bytes
	for i := 0; i < n; i++ {
		l := 3 + g.pick(3)
		b := make([]byte, l)
		for j := range b {
			b[j] = byte(g.pick(256))
			if j < l-1 || g.chance(50) {
				b[j] |= 128
			}
		}
		if g.chance(30) {
			b = b[:len(b)-1]
		}
		emit("VBDEC " + hexs(b))
		emit("VBSTR " + g.fragment(b, g.pick(2)))
	}
}

func genWire(g *G, n int, emit func(string)) {
	kinds := []string{"u8", "u16", "u32", "bool", "bin", "raw", "vb"}
	zero := map[string]string{"u8": "N0", "u16": "N0", "u32": "N0", "bool": "B0", "bin": "S-", "raw": "S-", "vb": "N0"}
	for _, k := range kinds {
		if k != "u8" && k != "bool" { // these index data[0]; the reader guarantees one byte
			emit("WDEC " + k + " " + zero[k] + " -")
		}
		for a := 0; a < 256; a++ {
			emit("WDEC " + k + " " + zero[k] + " " + hexs([]byte{byte(a)}))
		}
	}
	emit("UPDEC -")
	for i := 0; i < n; i++ {
		k := kinds[g.pick(len(kinds))]
		var d []byte
		switch g.pick(3) {
		case 0:
			d = g.bytesN(g.pick(6))
		case 1: // a plausible length prefix
			l := g.length()
			bl := l + g.pick(3) - 1 + g.pick(2)
			if bl < 0 {
				bl = 0
			}
			d = append([]byte{byte(l >> 8), byte(l)}, g.bytesN(bl)...)
			if g.chance(20) && len(d) > 2 {
				d = d[:2+g.pick(len(d)-2)]
			}
		default:
			d = g.bytesN(1 + g.pick(12))
		}
		if (k == "u8" || k == "bool") && len(d) == 0 {
			d = []byte{byte(g.pick(256))}
		}
		old := zero[k]
		if g.chance(30) { // decode into a destination that already holds a value
			switch k {
			case "bin", "raw":
				old = "S" + hexs(g.bytesN(1+g.pick(5)))
			case "bool":
				old = "B1"
			case "u8":
				old = "N" + strconv.FormatUint(g.u8(), 10)
			case "u16":
				old = "N" + strconv.FormatUint(g.u16(), 10)
			case "u32":
				old = "N" + strconv.FormatUint(g.u32(), 10)
			case "vb":
				old = "N" + strconv.FormatUint(g.subID(), 10)
			}
		}
		emit("WDEC " + k + " " + old + " " + hexs(d))
		// encoders
		switch k {
		case "u8":
			emit("WENC u8 N" + strconv.FormatUint(g.u8(), 10))
		case "u16":
			emit("WENC u16 N" + strconv.FormatUint(g.u16(), 10))
		case "u32":
			emit("WENC u32 N" + strconv.FormatUint(g.u32(), 10))
		case "bool":
			emit("WENC bool B" + g.boolS())
		case "bin", "raw":
			emit("WENC " + k + " S" + hexs(g.bytes()))
		}
		// user property
		kk, vv := g.bytes(), g.bytes()
		up := append(append([]byte{byte(len(kk) >> 8), byte(len(kk))}, kk...), append([]byte{byte(len(vv) >> 8), byte(len(vv))}, vv...)...)
		if g.chance(40) {
			up = up[:g.pick(len(up)+1)]
		}
		emit("UPDEC " + hexs(up))
	}
}

func genRead(g *G, n int, emit func(string)) {
	// every first byte with an empty body and with a tiny body
	for b := 0; b < 256; b++ {
		emit(fmt.Sprintf("R 1 %s", hexs([]byte{byte(b), 0})))
		emit(fmt.Sprintf("R 1 %s", hexs([]byte{byte(b), 2, 0, 1})))
	}
	for i := 0; i < n; i++ {
		switch g.pick(12) {
		case 10: // any defined property, repeated, in any packet type
			f := g.soupFrame()
			if g.chance(25) {
				f = g.mutate(f)
			}
			emit("R 2 " + hexs(f))
		case 11: // a zero-padded remaining length; a stream of soup frames
			if g.chance(50) {
				emit("R 2 " + hexs(padLength(g.validFrameSmall())))
			} else {
				var all []byte
				for j := 0; j < 2+g.pick(3); j++ {
					all = append(all, g.soupFrame()...)
				}
				emit(fmt.Sprintf("R 6 %s", g.fragment(all, g.pick(2))))
			}
		case 0, 1: // one valid frame, one chunk
			emit("R 2 " + hexs(g.validFrame()))
		case 2: // sequence of frames plus trailing bytes, fragmented
			var all []byte
			m := 1 + g.pick(5)
			for j := 0; j < m; j++ {
				f := g.validFrame()
				if len(f) > 2000 {
					f = []byte{0xc0, 0}
				}
				if g.chance(20) {
					f = g.mutate(f)
				}
				all = append(all, f...)
			}
			all = append(all, g.bytesN(g.pick(4))...)
			emit(fmt.Sprintf("R %d %s", m+2, g.fragment(all, g.pick(2))))
		case 3, 4: // mutated frame
			emit("R 2 " + hexs(g.mutate(g.validFrame())))
		case 5: // doubly mutated
			emit("R 2 " + hexs(g.mutate(g.mutate(g.validFrame()))))
		case 6: // random bytes
			emit("R 3 " + hexs(g.bytesN(1+g.pick(12))))
		case 7: // fragmentation of a valid frame
			f := g.validFrame()
			if len(f) > 3000 {
				f = f[:3000]
			}
			emit("R 2 " + g.fragment(f, g.pick(2)))
		case 8: // a cut with a fault
			f := g.validFrame()
			if len(f) > 3000 {
				f = []byte{0xd0, 0}
			}
			k := g.pick(len(f))
			sc := g.fragment(f[:k], 0)
			fault := []string{"!E", "!R" + strconv.Itoa(1+g.pick(9)), "!U"}[g.pick(3)]
			switch {
			case k == 0:
				sc = "-" + fault
			case g.chance(50):
				sc += fault
			default:
				sc += ",-" + fault
			}
			emit("R 2 " + sc)
		case 9: // every type nibble over a valid body
			f := g.validFrame()
			if len(f) > 6000 {
				f = []byte{0x40, 2, 0, 1}
			}
			f[0] = byte(g.pick(16)<<4) | byte(g.pick(16))
			emit("R 2 " + hexs(f))
		}
	}
}

// genFill: the positional encoders (fill, fillProp of the wire types; fill of
// the packets) on buffers that are nil, too short by one, exact, longer, at
// offsets 0 and beyond - what WriteTo's two passes are made of.
func genFill(g *G, n int, emit func(string)) {
	offs := []int{0, 0, 0, 1, 2, 5, 130}
	// buffer lengths around the point where the value fits at offset i
	lens := func(i, w int) []int {
		ls := []int{0, i, i + 1, i + w - 1, i + w, i + w + 1, i + w + 4}
		if w > 2 {
			ls = append(ls, i+2, i+w-2, i+g.pick(w))
		}
		var out []int
		for _, l := range ls {
			if l >= 0 && l <= 140000 {
				out = append(out, l)
			}
		}
		return out
	}
	widthOf := func(k string, v string) int {
		switch k {
		case "u8", "bool":
			return 1
		case "u16":
			return 2
		case "u32":
			return 4
		case "bin":
			return 2 + (len(v)-1)/2
		case "raw":
			return (len(v) - 1) / 2
		}
		return 4
	}
	kinds := []string{"u8", "u16", "u32", "bool", "bin", "raw", "vb"}
	// every value class of every wire type once, systematically
	fixed := map[string][]string{
		"u8":   {"N0", "N1", "N127", "N128", "N255"},
		"u16":  {"N0", "N1", "N255", "N256", "N65535"},
		"u32":  {"N0", "N1", "N65536", "N4294967295"},
		"bool": {"B0", "B1"},
		"bin":  {"S-", "S00", "S6162", "S" + strings.Repeat("7a", 300)},
		"raw":  {"S-", "S00", "S6162", "S" + strings.Repeat("7a", 300)},
		"vb": {"N0", "N1", "N127", "N128", "N16383", "N16384", "N2097151", "N2097152", "N268435455",
			"N268435456", "N4294967295", "N18446744073709551615"},
	}
	one := func(k, v string) {
		i := offs[g.pick(len(offs))]
		w := widthOf(k, v)
		for _, l := range lens(i, w) {
			emit(fmt.Sprintf("WFILL %s %s %d %d", k, v, l, i))
			if k != "raw" {
				emit(fmt.Sprintf("WFILLP %s %s %d %d %d", k, v, 1+g.pick(255), l, i))
			}
		}
	}
	for _, k := range kinds {
		for _, v := range fixed[k] {
			one(k, v)
		}
	}
	for c := 0; c < n; c++ {
		switch g.pick(10) {
		case 0, 1, 2: // a wire value
			k := kinds[g.pick(len(kinds))]
			var v string
			switch k {
			case "u8":
				v = "N" + strconv.FormatUint(g.u8(), 10)
			case "u16":
				v = "N" + strconv.FormatUint(g.u16(), 10)
			case "u32":
				v = "N" + strconv.FormatUint(g.u32(), 10)
			case "bool":
				v = "B" + g.boolS()
			case "vb":
				v = "N" + strconv.FormatUint(g.subID(), 10)
				if g.chance(20) {
					v = "N" + strconv.FormatUint(g.r.Uint64(), 10)
				}
			default:
				b := g.bytes()
				if len(b) > 3000 && !g.chance(10) {
					b = b[:g.pick(300)]
				}
				v = "S" + hexs(b)
			}
			one(k, v)
		case 3: // a user property
			kk, vv := g.bytes(), g.bytes()
			if len(kk) > 400 {
				kk = kk[:g.pick(400)]
			}
			if len(vv) > 400 {
				vv = vv[:g.pick(400)]
			}
			if g.chance(15) {
				kk = nil
			}
			i := offs[g.pick(len(offs))]
			prop := g.pick(2)
			w := 4 + len(kk) + len(vv) + prop
			for _, l := range lens(i, w) {
				emit(fmt.Sprintf("UPFILL %s %s %d %d %d", hexs(kk), hexs(vv), prop, l, i))
			}
			// the key fits, the value does not
			emit(fmt.Sprintf("UPFILL %s %s %d %d %d", hexs(kk), hexs(vv), prop, i+prop+2+len(kk), i))
			emit(fmt.Sprintf("UPFILL %s %s %d %d %d", hexs(kk), hexs(vv), prop, i+prop+2+len(kk)+1, i))
		default: // a packet
			k := g.kind()
			if g.chance(2) {
				k = 0
			}
			g.big = g.chance(3)
			g.domain = g.chance(50)
			var cs []string
			if g.chance(40) {
				cs = g.calls(k, 1+g.pick(8))
			} else {
				cs = g.subset(k, 20+g.pick(70))
			}
			g.domain = false
			g.big = true
			size := len(frameOf(build(k, cs)))
			i := offs[g.pick(len(offs))]
			ls := []int{0, i + size, i + size, i + size + 3}
			if size > 0 {
				ls = append(ls, i+size-1, i+g.pick(size), g.pick(i+size))
			}
			for _, l := range ls {
				if l > 20000 && !g.chance(20) {
					continue
				}
				emit(fmt.Sprintf("PFILL %d %d %d%s", k, l, i, sp(cs)))
			}
		}
	}
}
