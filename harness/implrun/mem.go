package main

import "runtime"

type runtimeMem struct{ total uint64 }

func readMem(m *runtimeMem) {
	var ms runtime.MemStats
	runtime.ReadMemStats(&ms)
	m.total = ms.TotalAlloc
}
