// implrun: runs verification cases on the real gregoryv/mq library
// (built from /repo's working tree with -tags verif).
//
//	implrun run [-skip n]            cases on stdin -> "<case>\t<result>" lines
//	implrun gen <suite> <seed> <n>   print generated cases
//	implrun oracle <prop> <seed> <n> direct property oracles on the library
package main

import (
	"bufio"
	"fmt"
	"os"
	"strconv"
	"time"
)

func main() {
	if len(os.Args) < 2 {
		fmt.Fprintln(os.Stderr, "usage: implrun run|gen|oracle ...")
		os.Exit(2)
	}
	switch os.Args[1] {
	case "run":
		skip := 0
		if len(os.Args) >= 4 && os.Args[2] == "-skip" {
			skip, _ = strconv.Atoi(os.Args[3])
		}
		runLoop(skip)
	case "gen":
		seed, _ := strconv.ParseInt(os.Args[3], 10, 64)
		n, _ := strconv.Atoi(os.Args[4])
		w := bufio.NewWriterSize(os.Stdout, 1<<20)
		gen(os.Args[2], seed, n, func(s string) { w.WriteString(s); w.WriteByte('\n') })
		w.Flush()
	case "oracle":
		seed, _ := strconv.ParseInt(os.Args[3], 10, 64)
		n, _ := strconv.Atoi(os.Args[4])
		os.Exit(oracle(os.Args[2], seed, n, os.Args[5:]))
	default:
		fmt.Fprintln(os.Stderr, "unknown command")
		os.Exit(2)
	}
}

const caseTimeout = 20 * time.Second // generous: the machine may be busy; only a call that never returns gets here

// runWithWatchdog runs f; ok is false if it did not return in time.
func runWithWatchdog(f func() string) (res string, ok bool) {
	done := make(chan string, 1)
	go func() { done <- f() }()
	select {
	case r := <-done:
		return r, true
	case <-time.After(caseTimeout):
		return "TIMEOUT", false
	}
}

func runLoop(skip int) {
	in := bufio.NewReaderSize(os.Stdin, 1<<20)
	out := bufio.NewWriterSize(os.Stdout, 1<<20)
	defer out.Flush()
	i := 0
	for {
		line, err := in.ReadString('\n')
		if len(line) > 0 && line[len(line)-1] == '\n' {
			line = line[:len(line)-1]
		}
		if line != "" {
			i++
			if i > skip {
				l := line
				res, ok := runWithWatchdog(func() string { return runCase(l) })
				out.WriteString(line)
				out.WriteByte('\t')
				out.WriteString(res)
				out.WriteByte('\n')
				if !ok {
					// the stuck goroutine cannot be killed: leave, the
					// caller restarts us after this case
					out.Flush()
					os.Exit(3)
				}
			}
		}
		if err != nil {
			return
		}
	}
}
