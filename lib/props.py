# Per-property configuration of ./check.
#  suites: (generator suite, cases in quick, cases in thorough) - correspondence Go vs extracted model
#  oracle: (n quick, n thorough) - direct property oracle on the implementation (implrun oracle <id>)
PROPS = {
    "C15": {
        "suites": [("vb", 3000, 200000)],
        "oracle": (200000, 0),   # thorough: 0 = all 2^28 values
        "rule": "vbint values stratified over the four length classes and all boundaries +-2; all byte "
                "strings of length <= 2 and sampled 3..5 byte continuation prefixes, for both decoders; "
                "non-trivial = multi-byte encodings or rejected/continued inputs; distinct by input",
    },
}
