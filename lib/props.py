# Per-property configuration of ./check.
#  suites: (generator suite, cases in quick, cases in thorough) - correspondence Go vs extracted model
#  oracle: (n quick, n thorough) - direct property oracle on the implementation (implrun oracle <id>)
PROPS = {
    "C15": {
        "suites": [("vb", 3000, 200000), ("wire", 3000, 60000)],
        "oracle": (200000, 0),   # thorough: 0 = all 2^28 values
        "rule": "vbint values stratified over the four length classes and all boundaries +-2; all byte "
                "strings of length <= 2 and sampled 3..5 byte continuation prefixes, for both decoders; "
                "non-trivial = multi-byte encodings or rejected/continued inputs; distinct by input",
    },
    "C04": {
        "suites": [("read", 4000, 60000), ("unm", 3000, 40000), ("wire", 2000, 30000)],
        "oracle": (20000, 400000),
        "rule": "hostile frames: every prefix of valid frames (re-framed), single length-field mutations, all 16 type nibbles "
                "over valid bodies, random bytes; ReadPacket and UnmarshalBinary of the frame's and a random type; "
                "non-trivial = frames longer than 2 bytes, distinct by frame bytes; plus property soup (any of the 27 defined properties, repeated, in any packet type), CONNECT bodies under all 256 flag bytes, headers of 4..65536 continuation bytes",
    },
    "C05": {
        "suites": [("read", 4000, 60000), ("unm", 3000, 40000)],
        "oracle": (20000, 400000),
        "rule": "as C04 under a watchdog, plus list-length <= frame bytes and allocation <= 64*(declared+actual)+32KiB (smallest of four measurements), "
                "0xFFFF-style length prefixes in short frames, frames with 3000/6000 small list elements, frames above 64 KiB inside longer streams, "
                "packets watched for growth after they were returned; non-trivial = frames longer than 2 bytes",
    },
    "C06": {
        "suites": [("read", 4000, 60000)],
        "oracle": (3000, 60000),
        "rule": "streams of 1-6 frames (valid, content-malformed, empty) plus trailing bytes under random fragmentation; "
                "per call: bytes consumed = frame size, result = result of the frame alone; the same streams through bytes.Buffer/bytes.Reader/strings.Reader/bufio/iotest readers; "
                "packets and error values returned earlier re-examined after later reads; zero-padded lengths, property soup, >64 KiB frames; non-trivial = >= 2 frames",
    },
    "C07": {
        "suites": [("read", 4000, 60000)],
        "oracle": (1500, 30000),
        "rule": "frames of <= 10 bytes: every composition into chunks x zero-length reads x EOF style (exhaustive); "
                "longer frames: random schedules and bytewise delivery; every third frame through eleven standard-library reader types; sequences of 2-4 frames "
                "(valid, rejected, zero-padded lengths) with each call compared to its frame alone; non-trivial = more than one chunk",
    },
    "C08": {
        "suites": [("read", 4000, 60000)],
        "oracle": (1500, 30000),
        "rule": "frames x every cut offset (<=40 bytes exhaustively) x fault in the same call as the last bytes / in the "
                "next call x io.EOF / transport errors (custom, wrapping io.EOF, Temporary/Timeout, standard sentinels, %w-wrapped); cuts through the standard reader types; "
                "PUBLISH frames above 64 KiB; a nil pointer inside the interface counts as a packet; non-trivial = cut after the first byte",
    },
    "C16": {
        "suites": [("read", 4000, 60000)],
        "oracle": (300, 3000),
        "rule": "all 256 first bytes x up to 12 bodies valid for the selected type (incl. empty); type-0 frames of 64 KiB..2 MiB, SUBACK/UNSUBACK/PINGREQ/ack/DISCONNECT "
                "frames of 16 KiB..2.1 MB; non-trivial = low nibble != 0",
    },
    "C10": {
        "suites": [("write", 3000, 60000), ("render", 1500, 20000), ("fill", 1200, 30000)],
        "oracle": (3000, 60000),
        "rule": "packets of every type (C01 domain and malformed-but-constructible) x writers: accept, fail before writing, "
                "accept k bytes for every k < frame length (frames <= 64 bytes exhaustively); String size; read-only calls inside the history; every string field with "
                "65533..65535 bytes; property sections of exactly 128k bytes; Undefined values that carry data; the positional encoders (fill/fillProp of every wire type, fill of every packet type) on nil, short-by-one, exact and longer "
                "patterned buffers at offsets 0..130 against the two-pass model; non-trivial = at least one setter call",
    },
    "C11": {
        "suites": [("write", 3000, 60000), ("hist", 1500, 30000)],
        "oracle": (2000, 40000),
        "rule": "each packet encoded 33 times in process interleaved with random read-only operations, rebuilt from the same history, "
                "and written by 4 fresh processes (different map hash seeds); accessor snapshot before/after; wills changed after attaching, filters from a reused slice, "
                "pollution by earlier decodes + canary, 60 decoded packets re-encoded 2.1 s and 200 foreign decodes later; non-trivial = >= 2 setter calls",
    },
    "C12": {
        "suites": [("hist", 3000, 60000)],
        "oracle": (3000, 60000),
        "rule": "all histories of length <= 3 (2 for CONNECT) over the flag-affecting setters with every value, plus random histories of 1-12 calls "
                "from boundary-biased and dictionary values; after every step all accessors vs an independent last-write-wins record; read-only calls, accessor-to-setter feeds, "
                "several filters / user properties in one call, recycled caller variables, hash-colliding names inside histories; non-trivial = >= 2 calls",
    },
    "C17": {
        "suites": [("hist", 3000, 60000), ("render", 1500, 20000)],
        "oracle": (2000, 40000),
        "rule": "Publish: topic x alias x QoS 0..4 x packet id x other fields (full product); Subscribe: 0-3 filters x 9 subscription ids around "
                "the boundary and around 2^32/2^63 x all 256 option bytes x empty/non-empty; built and decoded; accessors first compared with the record of the calls; "
                "read-only calls inside histories, decoded packets printed then modified, QoS lowered and raised; all are non-trivial",
    },
    "C18": {
        "suites": [("render", 3000, 40000)],
        "oracle": (3000, 60000),
        "rule": "CONNECT packets (random fields, will, properties) x pairs of equally long credentials, also coinciding with client id, "
                "user property value, will payload or auth data; built and decoded; String and Dump compared byte for byte; credentials set anywhere in the history, "
                "dictionary strings (byte order mark, %u), an earlier password fed into a clear field, 65534..70000-byte credentials",
    },
    "C19": {
        "suites": [("render", 3000, 40000)],
        "oracle": (3000, 60000),
        "rule": "zero values and constructor values of all 16 types, all 256 values of each rendered byte (hooks and through decoded packets), "
                "setter histories (dictionary strings), wills taken away / attached twice / changed, a 256 MiB PUBLISH, successful and failed decodes of hostile frames; "
                "String and Dump under recover and a watchdog",
    },
    "C01": {
        "suites": [("hist", 3000, 60000), ("read", 3000, 60000), ("wire", 2000, 30000)],
        "oracle": (4000, 150000),
        "rule": "packets of the C01 domain: 15 types x random subsets of optional fields x boundary-biased values (lengths 0,1,127,128,16383,"
                "16384,65534,65535; payloads moving the remaining length over its four forms) plus random setter histories; write, read, compare "
                "every accessor, re-encode, also read back in halves/bytewise; every string field with 65533..65535 bytes, property sections of exactly 128k bytes, "
                "wills attached twice, protocol-name look-alikes, after pollution by rejected and foreign frames; non-trivial = at least one setter call, distinct by history",
    },
    "C02": {
        "suites": [("hist", 3000, 60000), ("write", 2000, 40000)],
        "oracle": (4000, 150000),
        "rule": "well-formed packets of the C01 domain (same generators, mandatory list elements added); WriteTo bytes judged by the extracted "
                "strict specification decoder and its reading compared with all accessors and these with the record of the calls; after pollution by earlier decodes; "
                "packets built with the exported constants; non-trivial = at least one setter call",
    },
    "C03": {
        "suites": [("read", 3000, 60000)],
        "oracle": (4000, 150000),
        "rule": "frames from the specification's encoder over random abstract packets: 15 types x property subsets x random permutations x "
                "explicit zeros x repeated user properties/subscription ids x short/long forms x boundary lengths; ReadPacket must accept and "
                "report the carried values, also with EOF-with-data, in two pieces and through standard readers; dictionary strings; after pollution; non-trivial = frame longer than 2 bytes",
    },
    "C09": {
        "suites": [("read", 3000, 60000), ("unm", 3000, 40000), ("wire", 2000, 30000)],
        "oracle": (6000, 250000),
        "rule": "valid frames (C03 generator) x every interior cut of every 2/4-byte integer, string, property length and property per the "
                "specification's field map (all offsets for fields <= 6 bytes), 5-byte variable byte integers at remaining length, property "
                "length and subscription identifier, boolean properties with values 2..255, undefined identifiers after j valid properties; "
                "each also rejected by the strict specification decoder; the same bodies under other flag nibbles; stray subscription identifiers with bad values in every "
                "packet type; source frames with empty filters and 64K keys; all non-trivial",
    },
    "C13": {
        "suites": [("write", 1500, 20000), ("render", 1000, 10000)],
        "oracle": (400, 20000),
        "race": True,
        "coqchk": True,
        "rule": "binary built with the Go race detector: per generated packet of every type 8 goroutines x 20 random read-only operations "
                "(WriteTo, String, Dump, WellFormed, accessors, direct use of a shared will message, ReadPacket on private streams); bytes/text "
                "compared with the sequential result; a second packet of the same type written concurrently; shared packets that came from the wire; failed writes "
                "and pollution before the campaign; all non-trivial",
        "assumptions": ["the Go memory model, runtime and standard library are outside the model",
                        "absence of shared writes in the Go read-only API is established by the race detector campaign, not by proof"],
    },
    "C14": {
        "suites": [("unm", 3000, 40000), ("read", 2000, 30000)],
        "oracle": (2000, 60000),
        "rule": "decode (UnmarshalBinary of every type incl. Undefined), snapshot, overwrite the input with its complement, snapshot again; pools of 6 "
                "decoded packets x 12 operations (setters, writes into returned slices, encode/render, re-decode) with bystander snapshots; "
                "package-level protocol name unchanged; twin frames decoded in both orders; filters, wills, passwords, payloads handed from one packet to another which is "
                "then decoded into / cleared; pollution + canary; non-trivial = body longer than 2 bytes / every pool step",
        "assumptions": ["aliasing in the Go heap is observed by the scribble and pool oracles; the model's provenance annotations are hand-written"],
    },
}
