# Which hand-modelled Go functions each property's model depends on, by group.
# A function's fingerprint is the hash of its source with comments, layout and
# local identifier names normalised (tools/gosync).
import re

PACKET_TYPES = {"Connect", "ConnAck", "Publish", "PubAck", "PubRec", "PubRel", "PubComp", "Subscribe",
                "SubAck", "Unsubscribe", "UnsubAck", "PingReq", "PingResp", "Disconnect", "Auth", "Undefined"}
READER = {"ReadPacket", "fixedHeader.ReadFrom", "fixedHeader.ReadRemaining", "vbint.ReadFrom", "bits.ReadFrom"}
ENC_METHODS = {"fill", "fillProp", "fillOpt", "properties", "variableHeader", "payload", "WriteTo"}
DEC_METHODS = {"UnmarshalBinary", "propertyMap", "willPropertyMap"}
RENDER_FUNCS = {"Dump", "stars", "withForm", "withReason"}
WIRE_TYPES = {"Ident", "UserProp", "bindata", "bits", "rawdata", "vbint", "wbool", "wuint16", "wuint32"}


def group_of(key):
    """Returns the set of groups a function belongs to."""
    if key.startswith("decls:"):
        return {"decls"}
    recv, _, name = key.rpartition(".")
    if key == "vbint.ReadFrom":
        return {"wiregen"}  # regenerated statement by statement (gen/GenRead.v, SyncRead.v)
    if key in READER:
        return {"reader"}
    if key in ("buffer.get", "buffer.getAny", "buffer.atEnd", "buffer.Err"):
        return {"wiregen"}  # regenerated statement by statement (gen/GenBuf.v, SyncBuf.v)
    if recv == "buffer":
        return {"buffer"}
    if name in ("String", "dump", "filterString", "Error") or key in RENDER_FUNCS or recv == "Malformed":
        return {"render"}
    if name == "WellFormed" or key in ("newMalformed", "unmarshalErr"):
        return {"wf", "wire_dec"} if key != "newMalformed" and name != "WellFormed" else {"wf"}
    if name == "width":
        if recv in WIRE_TYPES:
            return {"wiregen"}  # regenerated statement by statement (gen/GenWire.v, SyncWire.v)
        return {"skel"} if recv in PACKET_TYPES else {"wire_enc", "wire_dec"}
    if name in ENC_METHODS:
        if recv in WIRE_TYPES and name in ("fill", "fillProp", "fillOpt"):
            return {"wiregen"}  # regenerated statement by statement (gen/GenWire.v, SyncWire.v)
        return {"skel"} if recv in PACKET_TYPES else {"wire_enc"}
    if name in DEC_METHODS:
        if recv in WIRE_TYPES and name == "UnmarshalBinary":
            return {"wiregen"}  # regenerated statement by statement (gen/GenWireDec.v, SyncWireDec.v)
        return {"skel"} if recv in PACKET_TYPES else {"wire_dec"}
    return {"api"}


# "skel": regenerated into the IR and compared by gen/Sync*.v - no fingerprint needed.
PROP_GROUPS = {
    "C01": ["wire_enc", "wire_dec", "buffer", "reader", "api", "decls"],
    "C02": ["wire_enc", "api", "decls"],
    "C03": ["wire_dec", "buffer", "reader", "api", "decls"],
    "C04": ["wire_dec", "buffer", "reader", "decls"],
    "C05": ["wire_dec", "buffer", "reader", "decls"],
    "C06": ["reader", "wire_dec", "buffer"],
    "C07": ["reader", "wire_dec", "buffer"],
    "C08": ["reader", "wire_dec", "buffer"],
    "C09": ["wire_dec", "buffer", "reader", "decls"],
    "C10": ["wire_enc", "render", "decls"],
    "C11": ["wire_enc", "api", "render", "wf"],
    "C12": ["api", "wire_enc"],
    "C13": ["wire_enc", "wire_dec", "buffer", "reader", "api", "render", "wf"],
    "C14": ["wire_dec", "buffer", "reader", "api"],
    "C15": ["vbint"],
    "C16": ["reader", "wire_dec", "buffer", "api", "wire_enc"],
    "C17": ["wf", "render", "api"],
    "C18": ["render", "wire_enc", "api"],
    "C19": ["render", "wire_enc", "wire_dec", "buffer", "api"],
}

PROP_SYNC = {
    "C01": ["gen/GenConsts.v", "gen/SyncEnc.v", "gen/SyncDec.v", "gen/SyncMisc.v", "gen/SyncApi.v", "gen/SyncAcc.v", "gen/SyncWire.v", "gen/SyncWireDec.v", "gen/SyncBuf.v", "gen/SyncRead.v", "gen/SyncGetAny.v", "gen/SyncHygiene.v"],
    "C02": ["gen/GenConsts.v", "gen/SyncEnc.v", "gen/SyncMisc.v", "gen/SyncApi.v", "gen/SyncAcc.v", "gen/SyncWire.v", "gen/SyncHygiene.v"],
    "C03": ["gen/GenConsts.v", "gen/SyncDec.v", "gen/SyncMisc.v", "gen/SyncAcc.v", "gen/SyncWireDec.v", "gen/SyncBuf.v", "gen/SyncWire.v", "gen/SyncRead.v", "gen/SyncGetAny.v", "gen/SyncHygiene.v"],
    "C04": ["gen/SyncDec.v", "gen/SyncMisc.v", "gen/SyncWireDec.v", "gen/SyncBuf.v", "gen/SyncWire.v", "gen/SyncRead.v", "gen/SyncGetAny.v", "gen/SyncHygiene.v"],
    "C05": ["gen/SyncDec.v", "gen/SyncMisc.v", "gen/SyncWireDec.v", "gen/SyncBuf.v", "gen/SyncWire.v", "gen/SyncRead.v", "gen/SyncGetAny.v", "gen/SyncHygiene.v"],
    "C06": ["gen/SyncDec.v", "gen/SyncMisc.v", "gen/SyncWireDec.v", "gen/SyncBuf.v", "gen/SyncWire.v", "gen/SyncRead.v", "gen/SyncGetAny.v", "gen/SyncHygiene.v"],
    "C07": ["gen/SyncDec.v", "gen/SyncMisc.v", "gen/SyncWireDec.v", "gen/SyncBuf.v", "gen/SyncWire.v", "gen/SyncRead.v", "gen/SyncGetAny.v", "gen/SyncHygiene.v"],
    "C08": ["gen/SyncDec.v", "gen/SyncMisc.v", "gen/SyncWireDec.v", "gen/SyncBuf.v", "gen/SyncWire.v", "gen/SyncRead.v", "gen/SyncGetAny.v", "gen/SyncHygiene.v"],
    "C09": ["gen/GenConsts.v", "gen/SyncDec.v", "gen/SyncMisc.v", "gen/SyncWireDec.v", "gen/SyncBuf.v", "gen/SyncWire.v", "gen/SyncRead.v", "gen/SyncGetAny.v", "gen/SyncHygiene.v"],
    "C10": ["gen/SyncEnc.v", "gen/SyncMisc.v", "gen/SyncString.v", "gen/SyncWire.v", "gen/SyncHygiene.v"],
    "C11": ["gen/SyncEnc.v", "gen/SyncMisc.v", "gen/SyncApi.v", "gen/SyncEffects.v", "gen/SyncWire.v", "gen/SyncHygiene.v"],
    "C12": ["gen/GenConsts.v", "gen/SyncEnc.v", "gen/SyncApi.v", "gen/SyncAcc.v", "gen/SyncWire.v", "gen/SyncHygiene.v"],
    "C13": ["gen/SyncEnc.v", "gen/SyncDec.v", "gen/SyncMisc.v", "gen/SyncEffects.v", "gen/SyncWire.v", "gen/SyncWireDec.v", "gen/SyncBuf.v", "gen/SyncRead.v", "gen/SyncGetAny.v", "gen/SyncHygiene.v"],
    "C14": ["gen/SyncDec.v", "gen/SyncMisc.v", "gen/SyncEffects.v", "gen/SyncWireDec.v", "gen/SyncBuf.v", "gen/SyncWire.v", "gen/SyncRead.v", "gen/SyncGetAny.v", "gen/SyncHygiene.v"],
    "C15": ["gen/SyncWire.v", "gen/SyncWireDec.v", "gen/SyncBuf.v", "gen/SyncRead.v", "gen/SyncGetAny.v", "gen/SyncHygiene.v"],
    "C16": ["gen/GenConsts.v", "gen/SyncEnc.v", "gen/SyncDec.v", "gen/SyncMisc.v", "gen/SyncAcc.v", "gen/SyncWire.v", "gen/SyncWireDec.v", "gen/SyncBuf.v", "gen/SyncRead.v", "gen/SyncGetAny.v", "gen/SyncHygiene.v"],
    "C17": ["gen/SyncString.v", "gen/SyncAcc.v", "gen/SyncWf.v", "gen/SyncHygiene.v"],
    "C18": ["gen/SyncEnc.v", "gen/SyncAcc.v", "gen/SyncDump.v", "gen/SyncString.v", "gen/SyncWire.v", "gen/SyncHygiene.v"],
    "C19": ["gen/SyncEnc.v", "gen/SyncDec.v", "gen/SyncAcc.v", "gen/SyncDump.v", "gen/SyncString.v", "gen/SyncWire.v", "gen/SyncWireDec.v", "gen/SyncBuf.v", "gen/SyncRead.v", "gen/SyncGetAny.v", "gen/SyncHygiene.v"],
}


def in_group(key, group):
    if group == "vbint":
        # the variable byte integer type, and the call sites that read one: the guarded
        # reader (property length, subscription identifier) and the fixed header (remaining length)
        return key.startswith("vbint.") or key.startswith("buffer.") or key.startswith("fixedHeader.")
    return group in group_of(key)


def changed(expected, current, groups):
    """Functions of the given groups whose fingerprint differs, appeared or vanished."""
    out = []
    for key in sorted(set(expected) | set(current)):
        if any(in_group(key, g) for g in groups):
            if expected.get(key) != current.get(key):
                out.append(key)
    return out
