NOTE = ("Trusted: Coq 8.16.1 kernel (no axioms; Print Assumptions parsed on every run); the hand-written Gallina model "
        "and IR interpreter; extraction (ExtrOcamlBasic only) + OCaml; the Go/OCaml drivers; hook file verif_hooks.go. "
        "The model is tied to /repo by differential execution on every run, not by proof.")
TEXT = {
 "C15": {
  "level": "Theorems C15_minimal, C15_mem, C15_stream, C15_reject_mem, C15_reject_stream, C15_agree_accept (coq/Properties/C15.v) hold for "
           "every value below 2^28, every suffix, every byte string and every reader schedule - no enumeration. The model's "
           "vbint encoder/decoders are run against the Go ones (hooks) on boundaries, stratified values and all short byte strings "
           "(thorough: all 2^28 values, all strings <= 3 bytes) on every run.",
  "note": NOTE,
  "technique": "Coq proof (div/mod-128 characterisation, lia) + Go-vs-extracted-model correspondence + exhaustive oracle",
 },
}
NOT_APPLICABLE = {}
