NOTE = ("Trusted: Coq 8.16.1 kernel (no axioms; Print Assumptions parsed on every run); the hand-written Gallina model "
        "and IR interpreter; extraction (ExtrOcamlBasic only) + OCaml; the Go/OCaml drivers; hook file verif_hooks.go. "
        "The model is tied to /repo by differential execution on every run, not by proof.")
TEXT = {
 "C15": {
  "level": "Theorems C15_minimal, C15_mem, C15_stream, C15_reject_mem, C15_reject_stream, C15_agree_accept (coq/Properties/C15.v) hold for "
           "every value below 2^28, every suffix, every byte string and every reader schedule - no enumeration. The model's "
           "vbint encoder/decoders are run against the Go ones (hooks) on boundaries, stratified values and all short byte strings "
           "(thorough: all 2^28 values, all strings <= 3 bytes) on every run.",
  "note": NOTE,
  "technique": "Coq proof (div/mod-128 characterisation, lia) + Go-vs-extracted-model correspondence + exhaustive oracle",
 },
 "C04": {
  "level": "Theorems C04_unmarshal (for every packet type, receiver state and byte string UnmarshalBinary does not panic - Panic being what every "
           "out-of-range index/slice, negative make and nil will produce in the model), C04_read_total (ReadPacket over any reader script returns "
           "exactly one of packet/error) and C04_program (any IR decoder passing the static will-allocation check is panic-free). Model tied to the "
           "Go decoders by correspondence on hostile frames with PANIC as observable; direct oracle on the implementation.",
  "note": NOTE,
  "technique": "Coq proof (invariant of the guarded reader pushed through every IR constructor) + correspondence + panic oracle",
 },
 "C05": {
  "level": "Theorems C05_terminates / C05_read_terminates: all decoder loops run in the model on fuel length(data)+1 (io.ReadFull: script size+1) "
           "and the fuel is never exhausted, for every packet type, receiver state, byte string and reader script. Work/allocation proportionality "
           "beyond the iteration bound is checked on the implementation (watchdog, list-length and allocation oracles), not proved.",
  "note": NOTE + " Wall-clock time and the Go allocator are not modelled.",
  "technique": "Coq proof of fuel sufficiency (measure len(data)-offset) + correspondence with TIMEOUT observable + allocation/list-length oracle",
 },
 "C06": {
  "level": "Theorems C06_exact and C06_sequence: for every frame, every continuation and every legal delivery, ReadPacket obtains exactly the frame's "
           "bytes, its result is decode_frame of the frame alone, and the reader is left at the next byte; successive calls return successive frames.",
  "note": NOTE,
  "technique": "Coq proof over scripted readers (io.ReadFull model) + correspondence with consumed-count and Read-size trace + sequence oracle",
 },
 "C07": {
  "level": "Theorem C07_fragmentation: any two legal deliveries (any chunking, zero-length reads, error with or after the last byte) of the same frame "
           "give the same packet/rejection. Proved for all scripts, not enumerated; the oracle enumerates all compositions of short frames on the implementation.",
  "note": NOTE,
  "technique": "Coq proof (read_full returns the first n delivered bytes for every script) + correspondence + exhaustive-composition oracle",
 },
 "C08": {
  "level": "Theorems C08_exactly_one, C08_read_full_short, C08_cut_at_boundary, C08_cut_in_body, C08_error_identity: a reader that ends or fails (error with the last "
           "bytes or on the next call) before the frame is complete yields nil packet and the reader's error (io.EOF -> ErrUnexpectedEOF after a partial read). "
           "The cut inside the remaining-length field is not yet proved in Coq (covered by correspondence and the oracle over every cut offset).",
  "note": NOTE,
  "technique": "Coq proof (short reads of io.ReadFull) + correspondence on faulting scripts + every-cut-offset oracle",
 },
 "C16": {
  "level": "Theorems C16_dispatch (accepted frame => type = upper nibble; type 0 carries the body; types 1-15 keep the first byte - no decoder skeleton writes the "
           "fixed field, by a static check proved sound - and re-encoding starts with that byte), C16_publish_flags (all 256 bytes, lifted from a finite sweep), C16_all_accepted.",
  "note": NOTE,
  "technique": "Coq proof (field-preservation static analysis of the IR + 256-value sweep lifted by forallb_forall) + correspondence + 256-first-byte oracle",
 },
}
NOT_APPLICABLE = {}
