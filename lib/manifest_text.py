NOTE = ("Trusted: Coq 8.16.1 kernel (no axioms; Print Assumptions parsed on every run); the hand-written Gallina model "
        "and IR interpreter; extraction (ExtrOcamlBasic only) + OCaml; the Go/OCaml drivers; hook file verif_hooks.go. "
        "The model is tied to /repo by differential execution on every run, not by proof.")
TEXT = {
 "C15": {
  "level": "Theorems C15_minimal, C15_mem, C15_stream, C15_reject_mem, C15_reject_stream, C15_agree_accept (coq/Properties/C15.v) hold for "
           "every value below 2^28, every suffix, every byte string and every reader schedule - no enumeration. The model's "
           "vbint encoder/decoders are run against the Go ones (hooks) on boundaries, stratified values and all short byte strings "
           "(thorough: all 2^28 values, all strings <= 3 bytes) on every run. C15_encoder_is_the_source: the encoder the theorems speak about is the loop of vbint.fill "
           "as it stands in the source - translated statement by statement on every run, the run of the statement list proved equal to the model's encoder for every value, buffer and position; "
           "C15_decoder_is_the_source, C15_stream_decoder_is_the_source: likewise the in-memory decoder is the run of the regenerated statement list of vbint.UnmarshalBinary for every byte string, "
           "and the streaming decoder the run of that of vbint.ReadFrom for every reader script (value or error, reader afterwards, sizes requested, bytes taken).",
  "note": NOTE,
  "technique": "Coq proof (div/mod-128 characterisation, lia) + Go-vs-extracted-model correspondence + exhaustive oracle",
 },
 "C04": {
  "level": "Theorems C04_unmarshal (for every packet type, receiver state and byte string UnmarshalBinary does not panic - Panic being what every "
           "out-of-range index/slice, negative make and nil will produce in the model), C04_read_total (ReadPacket over any reader script returns "
           "exactly one of packet/error) and C04_program (any IR decoder passing the static will-allocation check is panic-free). "
           "C04_wire_decoders_are_the_source: UnmarshalBinary of the nine wire types is translated statement by statement on every run (tools/gosync/wire.go); the regenerated "
           "statement lists are the model's and running them is - for every receiver value and byte string - the decoder of Model/Wire.v the theorems start from: same value, same error class, "
           "panic exactly where it panics; C04_guarded_reader_is_the_source: buffer.get, regenerated the same way, run with any decoder on any reader state is the model's get_with; C04_property_loop_is_the_source: buffer.getAny likewise is the model's getany for every property map, mode and reader state. The packet-level decoders are tied by the regenerated decoder IR, packet.go (except the allocation switch of ReadRemaining, regenerated as a table) by fingerprints; all of it also by correspondence "
           "on hostile frames with PANIC as observable; direct oracle on the implementation.",
  "note": NOTE,
  "technique": "Coq proof (invariant of the guarded reader pushed through every IR constructor) + correspondence + panic oracle",
 },
 "C05": {
  "level": "Theorems C05_terminates / C05_read_terminates (all decoder loops run in the model on fuel length(data)+1 - io.ReadFull: script size+1 - and the "
           "fuel is never exhausted, for every packet type, receiver state, byte string and reader script) and C05_lists_bounded (a decoded packet holds at "
           "most length(data) more list elements - user properties incl. the will's, subscription identifiers, topic filters, reason codes - than the "
           "receiver held before: every append is paid for by a byte of input; Proofs/BoundP.v), C05_work_bounded (at most 2*length(data)+16 buffer.get calls "
           "for every packet type, receiver state and byte string; Proofs/StepsP.v), C05_bytes_bounded (the bytes of strings and binary data the packet holds - fields, will, user "
           "properties, topic filters - never exceed what the receiver held before plus length(data), on success and on failure: every byte stored is a byte of input moved past; "
           "Proofs/BytesBoundP.v). Allocation by the Go runtime and wall-clock time are checked on the "
           "implementation (watchdog, allocation oracle), not proved.",
  "note": NOTE + " Wall-clock time and the Go allocator are not modelled.",
  "technique": "Coq proof of fuel sufficiency (measure len(data)-offset), of the list-length bound (potential: elements minus offset), of the retained-bytes bound (potential: bytes held minus offset) and of a linear bound on decoding steps + correspondence with TIMEOUT observable + allocation/list-length oracle",
 },
 "C06": {
  "level": "Theorems C06_exact and C06_sequence: for every frame, every continuation and every legal delivery, ReadPacket obtains exactly the frame's "
           "bytes, its result is decode_frame of the frame alone, and the reader is left at the next byte; successive calls return successive frames.",
  "note": NOTE,
  "technique": "Coq proof over scripted readers (io.ReadFull model) + correspondence with consumed-count and Read-size trace + sequence oracle",
 },
 "C07": {
  "level": "Theorem C07_fragmentation: any two legal deliveries (any chunking, zero-length reads, error with or after the last byte) of the same frame "
           "give the same packet/rejection. Proved for all scripts, not enumerated; the oracle enumerates all compositions of short frames on the implementation.",
  "note": NOTE,
  "technique": "Coq proof (read_full returns the first n delivered bytes for every script) + correspondence + exhaustive-composition oracle",
 },
 "C08": {
  "level": "Theorems C08_exactly_one, C08_read_full_short, C08_cut_at_boundary, C08_cut_in_header, C08_cut_in_body, C08_error_identity, "
           "C08_packet_needs_frame: a reader that ends or fails (error with the last bytes or on the next call) after any proper prefix of a frame - at the "
           "boundary, inside the remaining-length field after 0-3 continuation bytes, or anywhere in the body - yields nil packet and the reader's error "
           "(io.EOF -> ErrUnexpectedEOF after a partial body read); and whenever a packet is returned the bytes obtained from the reader are exactly one "
           "whole frame. For every script (chunking) delivering the prefix.",
  "note": NOTE,
  "technique": "Coq proof (every cut point of a frame under any delivery; packet only from a whole frame) + correspondence on faulting scripts + every-cut-offset oracle",
 },
 "C16": {
  "level": "Theorems C16_dispatch (accepted frame => type = upper nibble; type 0 carries the body; types 1-15 keep the first byte - no decoder skeleton writes the "
           "fixed field, by a static check proved sound - and re-encoding starts with that byte), C16_publish_flags (all 256 bytes, lifted from a finite sweep), C16_all_accepted.",
  "note": NOTE,
  "technique": "Coq proof (field-preservation static analysis of the IR + 256-value sweep lifted by forallb_forall) + correspondence + 256-first-byte oracle",
 },
 "C10": {
  "level": "Theorem C10_whole states the property in one piece about the code as it runs (two passes, guarded positional writes): if WriteTo returns, the writer got exactly one "
           "Write with [first byte] ++ [minimal vbint of the body length] ++ body, the dry run fill(_LEN, 0) returned that length, (n, err) are what the writer reports, and the size "
           "printed by String() is that length. It is put together from: C10_frame (every encoder output = first byte, minimal vbint of the body length, body), C10_one_write (exactly one Write with the whole frame; "
           "(n, err) as the writer reports), C10_undefined, C10_total (no panic under the representation invariant), C10_string_size (the 'N bytes' token of "
           "String() is the frame length). The Go mechanism itself is modelled (Model/Fill.v): every wire type's fill/fillProp as a guarded write at a position into a buffer "
           "of fixed length that returns the width whether or not it wrote, the encoder IR run as `i += f(b, i)`, the dry run on the nil slice, make, the second pass. "
           "C10_fill_positional: for every packet type, packet, buffer and position the positional run returns i + the frame length (nil and short buffers included), keeps the "
           "buffer's length and, when the frame fits, leaves exactly the frame at i and every other byte untouched; it panics only where the byte-list reading is undefined. "
           "C10_fill_program: the same for every IR program that never calls rawdata.fillProp. C10_dry_run, C10_two_pass: WriteTo as the code runs it = WriteTo of the byte-list model, "
           "so the theorems of C01/C02/C10 speak about the two-pass code. Tied to the source by the regenerated encoder IR of the packet types and, for the wire types, by "
           "C10_wire_encoders_are_the_source: fill/fillProp/fillOpt/width of the nine wire types are translated statement by statement on every run (tools/gosync/wire.go), the "
           "regenerated statement lists are the model's, and running them is - for every value, buffer and position - the per-type function of Model/Fill.v the theorems are stated on; "
           "additionally by correspondence on nil/short/exact/longer patterned buffers at several offsets (hooks VerifWireFillInto, VerifPacketFill).",
  "note": NOTE,
  "technique": "Coq proof over the encoder IR (byte-list reading and positional two-pass reading proved equal) + correspondence with scripted writers and positional fills + every-k short-write oracle",
 },
 "C11": {
  "level": "Theorems C11_readonly (in the model the read-only API consists of functions of the packet that return no packet) and C11_single_entry_maps (maps of "
           "at most one entry, the only ones the encoders still range over, have one iteration order up to permutation). That the Go code has no other "
           "order- or state-dependence is decided on the implementation: 33 in-process encodings interleaved with read-only operations and 4 fresh processes per packet. "
           "C11_api_writes_nothing: a write-set analysis of the source (tools/gosync/effects.go, regenerated on every run; all paths, in-package calls, closures, interface "
           "dispatch) finds that none of the 188 methods of the read-only API stores into the packet, memory reachable from it or a package-level variable, and that no function "
           "of the package keeps state in package-level variables, pools or caches.",
  "note": NOTE + " Go map iteration order and hash seeds are runtime behaviour the model cannot exhibit.",
  "technique": "Coq proof (purity of the model, permutation lemma) + static write-set analysis of the source as a checked obligation + repeated/cross-process encoding oracle",
 },
 "C12": {
  "level": "Theorem C12_refines: for every packet type and every finite history of its setters, the accessors of the model equal those of an independent "
           "record-of-fields specification (Spec/Fields.v) in which flags are functions of the stored values; proved by a simulation (C12_step) whose "
           "bit-level lemmas cover all flag-byte states. C12_any_state_frame / _reads_back / _flags: on ANY packet value (also one decoded from the wire) a setter leaves every accessor it does "
           "not name unchanged, its own accessor returns the argument, and the derived flags follow the value whatever the flag byte held before. History correspondence ties the model's one-line setters to the Go ones on every run.",
  "note": NOTE,
  "technique": "Coq refinement proof (simulation relation, finite case analysis of flag bytes) + history correspondence + last-write-wins oracle",
 },
 "C17": {
  "level": "Theorems C17_publish, C17_filter, C17_subscribe (WellFormed reports an error iff the documented condition holds, for every packet value) and "
           "C17_string (the ', malformed!' suffix is present iff WellFormed reports an error). C17_wellformed_is_the_source: the three WellFormed methods are regenerated from "
           "the source as statement lists (gen/GenWf.v) equal to the model's, and their interpretation is wf_publish/wf_subscribe/wf_filter, the functions the theorems are about; "
           "C17_string_is_the_source: the String methods of fourteen packet types (SUBSCRIBE among them) likewise; PUBLISH's String is hand-modelled (fingerprint + text correspondence).",
  "note": NOTE,
  "technique": "Coq proof (iff characterisations over the WellFormed statement lists regenerated from the source) + correspondence of WellFormed/String + full-product oracle",
 },
 "C18": {
  "level": "Theorems C18_dump, C18_string, C18_size: for any two CONNECT packets equal except for the bytes of equally long user name and password, Dump and String "
           "produce identical token lists (literal text and fmt arguments) and every packet type's frame size depends on credentials only through their lengths. "
           "C18_dump_is_the_source: the dump method of every packet type and every one-line accessor are regenerated from the source as item lists and accessor terms "
           "(gen/GenDump.v, gen/GenAcc.v), equal to the model's, and their interpretation is the dump_toks the theorem is about. "
           "C18_string_is_the_source: CONNECT's String likewise (format string and arguments regenerated, gen/GenString.v). "
           "fmt's rendering of a token is trusted to be a function of (verb, value).",
  "note": NOTE,
  "technique": "Coq non-interference proof over the render/encoder IR (dump and accessors regenerated from the source) + String/Dump text correspondence + credential-pair oracle",
 },
 "C19": {
  "level": "Theorems C19_string_total (String's only partial step, the encoder dry run, is defined under the invariant 'will flag => will allocated'), "
           "C19_inv_zero/_step/_decode (the invariant holds for zero values, constructors, after every setter and after every decode, failed ones included), "
           "C19_bytes (table renderings defined for all 256 values, finite sweep lifted). Dump is total by construction in the model; its Go partial "
           "operations (nil checks, filters[0]) are tied by correspondence with PANIC as observable.",
  "note": NOTE,
  "technique": "Coq proof (representation invariant through setters and the decoder IR; 256-value sweep) + render correspondence + panic/watchdog oracle",
 },
 "C01": {
  "level": "Theorem C01_roundtrip (Properties/C01.v) is the whole statement on the model, for all fifteen types and with no bound on sizes or counts: for "
           "every packet of the domain, WriteTo's bytes are one frame; ReadPacket on any delivery of them followed by anything consumes exactly them, "
           "returns no error and the same type; every accessor (snapshot: scalars, flags, the nested will, ordered lists with duplicates) returns what was "
           "set; re-encoding is byte-identical. C01_api derives the domain for every history of applicable constructor/setter calls with arguments inside "
           "MQTT's limits (invariant by induction over the history, Proofs/DomP.v). Also C01_wire_roundtrips, C01_frame and C01_snapshot_is_the_accessors (snapshot is the accessor table regenerated from the source's one-line accessors, read in a fixed order; WriteTo as the two-pass positional code is the byte-list encoder, C10_two_pass). The model is tied to the source by "
           "the regenerated encoder/decoder IR (sync lemmas), fingerprints of the hand-modelled functions, correspondence, and the round-trip oracle "
           "(accessor equality + identical re-encoding on the implementation).",
  "note": NOTE,
  "technique": "Coq proof (whole-packet round trip for all 15 types over the translated encoder/decoder IR; API histories by invariant) + correspondence + round-trip oracle",
 },
 "C02": {
  "level": "Theorem C02_conforms (Properties/C02.v) is the whole statement on the model, for all fifteen types and with no bound on sizes or counts: for "
           "every packet of the C01 domain that is well formed in the respects the specification checks, WriteTo's bytes are exactly one frame which the "
           "independent strict decoder of Spec/Mqtt5.v accepts (type and reserved flags, minimal remaining length, field order, reason code and property "
           "length whenever properties follow, only allowed identifiers, each of its specified type and at most once), and the specification's reading of "
           "the frame equals the accessors. C02_api states it for every history of constructor/setter calls; spec_roundtrip shows the specification's "
           "decoder and encoder agree on all valid abstract frames. Also C02_framing, C02_fields. Tied to the source by the regenerated encoder IR and "
           "constants (sync lemmas), fingerprints, correspondence, and the extracted strict decoder judging WriteTo's output on the implementation.",
  "note": NOTE + " The specification model is my transcription of the OASIS text (no constant or table shared with the library model); that transcription "
          "is part of the trusted base.",
  "technique": "Coq proof (conformance of every written frame to the independent specification decoder, all 15 types; API histories by invariant) + extracted strict specification decoder as judge of WriteTo output",
 },
 "C03": {
  "level": "Theorem C03_every_valid_frame (Properties/C03.v): every byte string the independent strict decoder of the specification model accepts - any of the "
           "fifteen types, the properties table 2-4 allows in any order, once-only identifiers at most once, explicit zero values, empty strings, every "
           "legal short form, strings up to 65 535 bytes, no bound on the number of properties, filters or reason codes - is read by ReadPacket under any "
           "delivery, without error, as a packet of the matching type whose accessors equal the specification's reading (frame_obs). No case is excluded: "
           "the former known finding D13 (DISCONNECT carrying Session Expiry Interval, Reason String or Server Reference rejected) was repaired in /repo "
           "(fix: 3161d10) and its witness is now the theorem C03_disconnect_properties. C03_spec_language: the strict decoder accepts exactly the "
           "encodings of valid abstract frames (both directions), so the quantification over frames (C03_valid_frames) and over byte strings coincide. "
           "Tied to the source by the regenerated decoder IR and property maps (sync lemmas), fingerprints, correspondence, and the acceptance oracle "
           "driven by the extracted specification encoder.",
  "note": NOTE + " D13 is listed as fixed in KNOWN_FINDINGS.txt (a fixed entry suppresses nothing). The specification model is my transcription of the OASIS "
          "text and part of the trusted base.",
  "technique": "Coq proof (acceptance of every byte string the specification decoder accepts, any property order, all 15 types, no exception) + specification-encoder-driven acceptance oracle",
 },
 "C09": {
  "level": "Whole-frame theorems for all four clauses, all 15 types (Proofs/CutP.v). C09a_whole_frames / C09a_read_packet: for every valid frame "
           "(frame_ok, properties in any order) and every cut position strictly inside a segment of the reference encoder's field map (body_segs: "
           "2/4-byte integers, strings, property length, properties, topic filters; single bytes, raw payload and reason-code list have no interior) "
           "UnmarshalBinary on the cut body errs and ReadPacket - remaining length equal to the shortened size, any delivery, anything after - returns "
           "the error and no packet. C09bcd_whole_frames / C09bcd_read_packet: the fields before any property section of any valid frame followed by a "
           "poisoned section (5-byte property length; or valid properties then an undefined identifier, a boolean property with value >= 2, or a 5-byte "
           "subscription identifier) and anything after it: rejected. C09b_stream: 5-byte remaining length. Proof by chains of step_ok/fails_ok links "
           "per packet type (cchain_fails), getany_cut, getany_poison, filter_loop_cut, segs_refine. Per-field lemmas C09a_u16/.../C09d_unknown kept.",
  "note": NOTE,
  "technique": "Coq proof (every interior cut and every poisoned property section of every valid frame rejected by UnmarshalBinary and ReadPacket, all 15 types; 5-byte remaining length on the stream) + specification-driven must-reject oracle",
 },
 "C13": {
  "level": "Partial. Theorem C13_schedules: on an abstract shared-memory machine, threads whose programs never write a shared location are race-free under "
           "every schedule and compute what they compute alone (proved for all programs, thread counts and schedules). That the Go read-only API "
           "(WriteTo, String, Dump, WellFormed, accessors) satisfies the premise is decided on the source on every run by a write-set analysis (tools/gosync/effects.go: every "
           "path, in-package call, closure and interface dispatch of the 188 read-only methods; no write to the receiver, memory reachable from it, or a package-level variable; "
           "no pool, goroutine or channel anywhere in the package) - theorem C13_api_writes_nothing over the regenerated result. The analysis is a trusted over-approximation, "
           "not a proof about Go's memory model; a race-detector campaign (8 goroutines per shared packet) runs on every check as the search.",
  "note": NOTE + " The Go memory model, runtime and standard library are outside the model.",
  "technique": "Coq proof (schedule-quantified race freedom for read-only programs) + static write-set analysis of the source as a checked obligation + Go race detector campaign with byte comparison",
 },
 "C14": {
  "level": "Theorems C14_fresh / C14_owns (static provenance of the decoder IR: every byte-slice field any decoder stores is allocated during the call, so "
           "accessors do not depend on later writes to the input; the pre-repair Undefined decoder is rejected by the same check) and "
           "C14_history_independent (a frame's decoding does not depend on earlier reads), C14_no_global_state (static analysis of the source: no function of the package writes a "
           "package-level variable, uses a pool or a cache), C14_decoders_copy (retention analysis of the source, every path: none of the 25 UnmarshalBinary methods leaves "
           "its receiver holding a reference into the data argument, and what ReadPacket returns does not reach into the reader). Heap aliasing between Go packets is observed by the scribble "
           "and pool oracles, not proved; provenance annotations of the primitives are hand-written.",
  "note": NOTE,
  "technique": "Coq proof (provenance analysis of the decoder IR) + static retention/write-set analysis of the source as checked obligations + scribble/pool aliasing oracle + correspondence",
 },
}
NOT_APPLICABLE = {}
