#!/usr/bin/env python3
"""Regenerates /verif/MANIFEST.json from lib/props.py and lib/manifest_text.py."""
import json, os, sys
V = os.path.dirname(os.path.dirname(os.path.abspath(__file__)))
sys.path.insert(0, os.path.join(V, "lib"))
from props import PROPS
from manifest_text import TEXT, NOT_APPLICABLE

ids = [json.loads(l)["id"] for l in open(os.path.join(V, "properties.jsonl"))]
checks = []
for i in ids:
    if i not in PROPS or i not in TEXT:
        continue
    t = TEXT[i]
    checks.append({
        "property_id": i,
        "quick_cmd": "./check %s quick" % i,
        "thorough_cmd": "./check %s thorough" % i,
        "evidence_file": "/verif/evidence/%s.json" % i,
        "replay_cmd_template": "./check %s --replay {path}" % i,
        "engine": "coq-model+correspondence",
        "level_claimed": {"category": "proof", "text": t["level"], "design_ref": t.get("design_ref", "DESIGN.md section 4")},
        "level_note": t["note"],
        "technique": t["technique"],
    })
na = [{"property_id": i, "reason": NOT_APPLICABLE.get(i, "check under construction in this build session; will be claimed")}
      for i in ids if i not in PROPS or i not in TEXT]
m = {
    "version": 1,
    "setup_cmd": "./check --setup",
    "hooks": {
        "guard": "verif",
        "enable": "go build -tags verif (harness module harness/implrun with replace github.com/gregoryv/mq => /repo)",
        "baseline_off_cmd": "cd /repo && GOFLAGS=-mod=mod GOPROXY=off go test -vet=off -count=1 ./...",
        "source_commits": json.load(open(os.path.join(V, "lib", "hook_commits.json"))),
        "add_only": True,
    },
    "engines": [{
        "name": "coq-model+correspondence", "path": "/verif/check",
        "serves_properties": [c["property_id"] for c in checks],
        "kind_free_text": "Coq 8.16 theorems about an executable Gallina model of the codec; model extracted to OCaml and run against the Go implementation (built from /repo with -tags verif) on generated cases; direct property oracles on the implementation as failing-input search",
    }],
    "checks": checks,
    "not_applicable": na,
    "notes": "See DESIGN.md. KNOWN_FINDINGS.txt lists fixed defects and recorded findings.",
}
json.dump(m, open(os.path.join(V, "MANIFEST.json"), "w"), indent=1)
print("claimed:", [c["property_id"] for c in checks])
