#!/bin/bash
# runs every mutation in /tmp/mut against its target property's quick check
for id in "$@"; do for n in 1 2; do
  ./lib/muttest.sh /tmp/mut/$id $n $id 2>&1 | grep -v '^$' | grep -v KNOWN | sed "s/^/$id mut$n /" | cut -c1-170
done; done
