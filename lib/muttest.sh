#!/bin/bash
# muttest.sh <worktree dir> <N> <property ids...>
# 1. confirms in the scratch worktree: the patch applies, the suite passes, the demo fails with it and passes without it
# 2. applies the patch to /repo, runs the given checks, reverts /repo
export GOFLAGS=-mod=mod GOPROXY=off GOSUMDB=off GOTOOLCHAIN=local
W=$1; N=$2; shift 2
cd $W || exit 2
git checkout -q -- . ; rm -f demo_verif_test.go
res="apply=?"
if git apply mut$N.diff 2>/dev/null; then
  if go build ./... 2>/dev/null && go test -vet=off -count=1 ./... >/tmp/mut_suite.log 2>&1; then suite=pass; else suite=FAIL; fi
  cp demo${N}_test.go.txt demo_verif_test.go
  if timeout 120 go test -vet=off -count=1 -run 'Demo|Mut|C[0-9][0-9]' . >/tmp/mut_demo_with.log 2>&1; then dwith=pass; else dwith=fail; fi
  git checkout -q -- .
  if timeout 120 go test -vet=off -count=1 -run 'Demo|Mut|C[0-9][0-9]' . >/tmp/mut_demo_without.log 2>&1; then dwithout=pass; else dwithout=fail; fi
  rm -f demo_verif_test.go
  res="suite=$suite demo_with=$dwith demo_without=$dwithout"
else
  res="apply=FAILED"
fi
echo "CONFIRM $W mut$N: $res"
cd /repo && git apply $W/mut$N.diff || { echo "cannot apply to /repo"; exit 2; }
cd /verif
for id in "$@"; do
  out=$(timeout 900 ./check $id quick 2>&1 | grep -E 'VIOLATION|OK|KNOWN' | head -3 | tr '\n' ' ')
  echo "  $id: $out"
done
cd /repo && git checkout -q -- . && git status --short | head -3
