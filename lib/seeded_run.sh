#!/bin/bash
# seeded_run.sh [<id>-<n> ...] : applies each seeded change (default: all) to /repo, runs the target
# property's quick check, and reverts /repo. Nothing is committed. Prints one line per change.
export GOFLAGS=-mod=mod GOPROXY=off GOSUMDB=off GOTOOLCHAIN=local
V=$(cd "$(dirname "$0")/.." && pwd)
cd "$V"
[ -z "$(git -C /repo status --porcelain)" ] || { echo "/repo is not clean"; exit 2; }
sel=("$@"); [ ${#sel[@]} -eq 0 ] && sel=($(ls seeded))
for d in "${sel[@]}"; do
  id=${d%-*}
  case $id in C[0-9][0-9]) ;; *) id=C09 ;; esac   # build-split-1 breaks no property by the letter: any check reports it
  git -C /repo apply "$V/seeded/$d/patch.diff" || { echo "$d | cannot apply"; continue; }
  out=$(timeout 1500 ./check $id quick 2>&1 | grep -E 'VIOLATION|quick OK' | head -2 | tr '\n' ' ')
  git -C /repo checkout -q -- . ; git -C /repo clean -fdq
  echo "$d | $out" | cut -c1-200
done
